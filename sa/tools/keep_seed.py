"""Development aid: store a confirmed seeded change under /verif/seeded/<id>/ (patch.diff, demo.py, meta.json).
Usage: keep_seed.py <worktree> <id> --caught C02:C02.R3[,C02.R4] [C01:C01.R4b ...] [--confirm file.json ...] [--first "caught | MISSED -> ..."]
meta.json: property broken, what the change needs in order to manifest, what was run to confirm it, which rules catch it."""
import json
import os
import shutil
import sys

HERE = os.path.dirname(os.path.abspath(__file__))
VERIF = os.path.dirname(os.path.dirname(HERE))

args = sys.argv[1:]
wt, sid = args[0], args[1]
caught, confirms = {}, []
first_scan = "caught"
mode = None
for a in args[2:]:
    if a in ("--caught", "--confirm", "--first"):
        mode = a
        continue
    if mode == "--caught":
        p, rules = a.split(":")
        caught[p] = rules.split(",")
    elif mode == "--confirm":
        confirms.append(json.load(open(a)))
    elif mode == "--first":
        first_scan = a
seed = os.path.join(wt, "_seed")
dst = os.path.join(VERIF, "seeded", sid)
os.makedirs(dst, exist_ok=True)
shutil.copy(os.path.join(seed, "patch.diff"), os.path.join(dst, "patch.diff"))
shutil.copy(os.path.join(seed, "demo.py"), os.path.join(dst, "demo.py"))
agent = json.load(open(os.path.join(seed, "meta.json")))
ran = {}
for c in confirms:
    for k in ("patch_is_working_diff", "demo_with_change", "demo_without_change", "suite_with_change"):
        if k in c:
            ran[k] = c[k]
meta = {
    "id": sid,
    "breaks": agent.get("property") or agent.get("breaks"),
    "summary": agent.get("summary"),
    "needs_to_manifest": agent.get("needs") or agent.get("needs_to_manifest"),
    "files": agent.get("files"),
    "origin": "written by a sub-agent that saw only the property text and its own scratch worktree of /repo; nothing from /verif",
    "confirmed_by_me": {
        "how": "in the scratch worktree (PYTHONPATH=<worktree>/src): demo.py with the change applied, demo.py after `git apply -R patch.diff`, then the pinned pytest suite with the change applied",
        "demo_with_change_exit": ran.get("demo_with_change", [None])[0],
        "demo_without_change_exit": ran.get("demo_without_change", [None])[0],
        "demo_with_change_tail": ran.get("demo_with_change", [None, []])[1][-1:] if ran.get("demo_with_change") else None,
        "suite_with_change": ran.get("suite_with_change"),
        "patch_equals_worktree_diff": ran.get("patch_is_working_diff"),
    },
    "agent_report": agent.get("tests_run"),
    "caught_by": caught,
    "first_scan": first_scan,
}
json.dump(meta, open(os.path.join(dst, "meta.json"), "w"), indent=1)
print("kept", dst, "caught_by", caught)
