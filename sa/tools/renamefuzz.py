"""Development aid: alpha-renaming fuzz against false alarms.

For a property, every function the rules analysed gets all its *local* variables renamed (x -> x_rn) on a scratch copy
(one function per variant); the property's quick check must stay silent (no violation, no analysis error).
Usage: renamefuzz.py Cxx [Cyy ...] [--max N]
"""
import ast
import importlib
import os
import shutil
import sys
import tempfile
from concurrent.futures import ProcessPoolExecutor

HERE = os.path.dirname(os.path.abspath(__file__))
VERIF = os.path.dirname(os.path.dirname(HERE))
sys.path.insert(0, VERIF)

from sa import core  # noqa: E402
from sa.index import Index  # noqa: E402


def locals_of(fn):
    a = fn.args
    params = {p.arg for p in a.posonlyargs + a.args + a.kwonlyargs}
    if a.vararg:
        params.add(a.vararg.arg)
    if a.kwarg:
        params.add(a.kwarg.arg)
    out = set()
    declared = set()
    for n in ast.walk(fn):
        if isinstance(n, (ast.Global, ast.Nonlocal)):
            declared |= set(n.names)
        if isinstance(n, ast.Name) and isinstance(n.ctx, (ast.Store, ast.Del)):
            out.add(n.id)
        if isinstance(n, ast.ExceptHandler) and n.name:
            out.add(n.name)
        if isinstance(n, (ast.FunctionDef, ast.ClassDef)) and n is not fn:
            out.discard(n.name)
        if isinstance(n, (ast.FunctionDef, ast.Lambda)) and n is not fn:
            # parameters of nested functions are their own business
            aa = n.args
            for p in aa.posonlyargs + aa.args + aa.kwonlyargs:
                out.discard(p.arg)
    return {x for x in out - params - declared if not x.startswith("__") and x != "_"}


def rename_function(src, qual):
    tree = ast.parse(src)
    parts = qual.split(".")
    node = tree
    for p in parts:
        nxt = None
        for b in node.body:
            if isinstance(b, (ast.FunctionDef, ast.ClassDef)) and b.name == p:
                nxt = b
        if nxt is None:
            return None
        node = nxt
    names = locals_of(node)
    if not names:
        return None
    # names used as keyword arguments of nested calls are untouched (keywords are not Name nodes)
    for n in ast.walk(node):
        if isinstance(n, ast.Name) and n.id in names:
            n.id = n.id + "_rn"
        if isinstance(n, ast.ExceptHandler) and n.name in names:
            n.name = n.name + "_rn"
    return ast.unparse(tree)


def _find(tree, qual):
    node = tree
    for p in qual.split("."):
        nxt = None
        for b in node.body:
            if isinstance(b, (ast.FunctionDef, ast.ClassDef)) and b.name == p:
                nxt = b
        if nxt is None:
            return None
        node = nxt
    return node


def temp_function(src, qual):
    """Behaviour-preserving 'extract temporary': every `return EXPR` becomes `ret_tmp = EXPR; return ret_tmp`."""
    tree = ast.parse(src)
    node = _find(tree, qual)
    if node is None:
        return None
    changed = [False]

    class T(ast.NodeTransformer):
        def visit_FunctionDef(self, n):
            if n is node:
                self.generic_visit(n)
            return n

        def visit_Lambda(self, n):
            return n

        def visit_Return(self, n):
            if n.value is None or isinstance(n.value, (ast.Name, ast.Constant)):
                return n
            changed[0] = True
            return [ast.Assign(targets=[ast.Name(id="ret_tmp", ctx=ast.Store())], value=n.value, lineno=n.lineno), ast.Return(value=ast.Name(id="ret_tmp", ctx=ast.Load()))]
    T().visit(node)
    if not changed[0]:
        return None
    ast.fix_missing_locations(tree)
    return ast.unparse(tree)


def inline_function(src, qual):
    """Behaviour-preserving 'inline temporary': `x = EXPR` immediately followed by a statement that holds the only use of x
    (x assigned once in the function) -> the statement with EXPR substituted; only when the use is not under a loop/lambda/comprehension."""
    tree = ast.parse(src)
    node = _find(tree, qual)
    if node is None:
        return None
    stores, loads = {}, {}
    for n in ast.walk(node):
        if isinstance(n, ast.Name):
            (stores if isinstance(n.ctx, ast.Store) else loads).setdefault(n.id, []).append(n)
    changed = False
    for holder in ast.walk(node):
        for field in ("body", "orelse", "finalbody"):
            body = getattr(holder, field, None)
            if not isinstance(body, list):
                continue
            i = 0
            while i + 1 < len(body):
                a, b = body[i], body[i + 1]
                ok = isinstance(a, ast.Assign) and len(a.targets) == 1 and isinstance(a.targets[0], ast.Name)
                if ok:
                    x = a.targets[0].id
                    ok = len(stores.get(x, [])) == 1 and len(loads.get(x, [])) == 1 and isinstance(b, (ast.Assign, ast.Return, ast.Expr, ast.AugAssign))
                if ok:
                    use = loads[x][0]
                    inside = [n for n in ast.walk(b) if n is use]
                    blocked = any(isinstance(n, (ast.Lambda, ast.ListComp, ast.SetComp, ast.DictComp, ast.GeneratorExp)) and any(m is use for m in ast.walk(n)) for n in ast.walk(b))
                    if inside and not blocked:
                        class R(ast.NodeTransformer):
                            def visit_Name(self, n):
                                return a.value if n is use else n
                        body[i + 1] = R().visit(b)
                        del body[i]
                        changed = True
                        continue
                i += 1
    if not changed:
        return None
    ast.fix_missing_locations(tree)
    return ast.unparse(tree)


class Mutant(str):
    """the mutated source, with a description of the mutation"""
    def __new__(cls, text, desc=""):
        o = super().__new__(cls, text)
        o.desc = desc
        return o


def swap_function(src, qual):
    """swap every pair of adjacent, independent simple assignments (`a = E1; b = E2` with E2 not reading a, E1 not reading b, and at most
    one of E1 / E2 containing a call): behaviour-preserving statement reordering"""
    tree = ast.parse(src)
    node = _find(tree, qual)
    if node is None:
        return None
    changed = False

    def names(e):
        return {n.id for n in ast.walk(e) if isinstance(n, ast.Name)}

    def has_call(e):
        return any(isinstance(n, (ast.Call, ast.Yield, ast.Await, ast.NamedExpr)) for n in ast.walk(e))
    for holder in ast.walk(node):
        for field in ("body", "orelse", "finalbody"):
            body = getattr(holder, field, None)
            if not isinstance(body, list):
                continue
            i = 0
            while i + 1 < len(body):
                a, b = body[i], body[i + 1]
                if isinstance(a, ast.Assign) and isinstance(b, ast.Assign) and len(a.targets) == 1 and len(b.targets) == 1 \
                        and isinstance(a.targets[0], ast.Name) and isinstance(b.targets[0], ast.Name) and a.targets[0].id != b.targets[0].id \
                        and a.targets[0].id not in names(b.value) and b.targets[0].id not in names(a.value) and not (has_call(a.value) and has_call(b.value)):
                    body[i], body[i + 1] = b, a
                    changed = True
                    i += 2
                else:
                    i += 1
    return ast.unparse(tree) if changed else None


def flip_function(src, qual):
    """mirror every binary comparison `a < b` -> `b > a`, `a == b` -> `b == a` ... (operands without calls): behaviour-preserving"""
    tree = ast.parse(src)
    node = _find(tree, qual)
    if node is None:
        return None
    changed = False
    MIRROR = {ast.Lt: ast.Gt, ast.Gt: ast.Lt, ast.LtE: ast.GtE, ast.GtE: ast.LtE, ast.Eq: ast.Eq, ast.NotEq: ast.NotEq}
    for n in ast.walk(node):
        if isinstance(n, ast.Compare) and len(n.ops) == 1 and type(n.ops[0]) in MIRROR and not isinstance(n.comparators[0], ast.Constant) \
                and not any(isinstance(x, (ast.Call, ast.NamedExpr)) for side in (n.left, n.comparators[0]) for x in ast.walk(side)):
            n.left, n.comparators[0] = n.comparators[0], n.left
            n.ops[0] = MIRROR[type(n.ops[0])]()
            changed = True
    return ast.unparse(tree) if changed else None


def doc_function(src, qual):
    """documentation-only edit: (re)write the docstring, annotate every un-annotated parameter and the return value with string annotations
    (never evaluated): behaviour-preserving"""
    tree = ast.parse(src)
    node = _find(tree, qual)
    if node is None:
        return None
    doc = ast.Expr(ast.Constant("Reworded documentation.\n\n    Parameters\n    ----------\n    (see the user guide)\n    "))
    if node.body and isinstance(node.body[0], ast.Expr) and isinstance(node.body[0].value, ast.Constant) and isinstance(node.body[0].value.value, str):
        node.body[0] = doc
    else:
        node.body.insert(0, doc)
    for a in node.args.posonlyargs + node.args.args + node.args.kwonlyargs:
        if a.annotation is None and a.arg not in ("self", "cls"):
            a.annotation = ast.Constant("Any")
    if node.returns is None and node.name != "__init__":
        node.returns = ast.Constant("Any")
    ast.fix_missing_locations(tree)
    return ast.unparse(tree)


def log_function(src, qual):
    """add a debug log line at the entry of the function (`logging.getLogger(__name__).debug(...)`, function-local import): no effect on any
    value the library computes"""
    tree = ast.parse(src)
    node = _find(tree, qual)
    if node is None:
        return None
    at = 1 if (node.body and isinstance(node.body[0], ast.Expr) and isinstance(node.body[0].value, ast.Constant) and isinstance(node.body[0].value.value, str)) else 0
    # generators / context managers keep their shape: the log line is an ordinary statement
    stmts = ast.parse("import logging\nlogging.getLogger(__name__).debug('entering %s', %r)" % ("%s", qual)).body
    node.body[at:at] = stmts
    ast.fix_missing_locations(tree)
    return ast.unparse(tree)


def invert_function(src, qual):
    """exchange the branches of every two-armed `if` / conditional expression and negate its test (`if c: A else: B` -> `if not c: B else: A`,
    with `==`/`!=`, `is`/`is not`, `in`/`not in`, `<`/`>=` ... negated in place, `not x` un-negated): behaviour-preserving"""
    tree = ast.parse(src)
    node = _find(tree, qual)
    if node is None:
        return None
    NEG = {ast.Eq: ast.NotEq, ast.NotEq: ast.Eq, ast.Is: ast.IsNot, ast.IsNot: ast.Is, ast.In: ast.NotIn, ast.NotIn: ast.In}

    def negate(t):
        if isinstance(t, ast.UnaryOp) and isinstance(t.op, ast.Not):
            return t.operand
        if isinstance(t, ast.Compare) and len(t.ops) == 1 and type(t.ops[0]) in NEG:
            return ast.Compare(left=t.left, ops=[NEG[type(t.ops[0])]()], comparators=t.comparators)
        return ast.UnaryOp(op=ast.Not(), operand=t)
    changed = False
    for n in ast.walk(node):
        if isinstance(n, ast.If) and n.orelse and not (len(n.orelse) == 1 and isinstance(n.orelse[0], ast.If)):
            n.test = negate(n.test)
            n.body, n.orelse = n.orelse, n.body
            changed = True
        elif isinstance(n, ast.IfExp):
            n.test = negate(n.test)
            n.body, n.orelse = n.orelse, n.body
            changed = True
    if not changed:
        return None
    ast.fix_missing_locations(tree)
    return ast.unparse(tree)


def accessor_function(src, qual):
    """every read `self.<attr>['KEY']` of the method goes through a new private accessor of its class (`def _rd_<attr>(self, key): return
    self.<attr>[key]`): behaviour-preserving"""
    if "." not in qual:
        return None
    tree = ast.parse(src)
    cname = qual.split(".")[0]
    cls = next((n for n in ast.walk(tree) if isinstance(n, ast.ClassDef) and n.name == cname), None)
    node = _find(tree, qual)
    if cls is None or node is None or not node.args.args or node.args.args[0].arg != "self" or any(ast.unparse(d) in ("staticmethod", "classmethod") for d in node.decorator_list):
        return None
    attrs = set()

    class T(ast.NodeTransformer):
        def visit_Subscript(self, n):
            self.generic_visit(n)
            if isinstance(n.ctx, ast.Load) and isinstance(n.slice, ast.Constant) and isinstance(n.slice.value, str) and isinstance(n.value, ast.Attribute) \
                    and isinstance(n.value.value, ast.Name) and n.value.value.id == "self":
                attrs.add(n.value.attr)
                return ast.Call(func=ast.Attribute(value=ast.Name(id="self", ctx=ast.Load()), attr=f"_rd_{n.value.attr}", ctx=ast.Load()), args=[n.slice], keywords=[])
            return n
    T().visit(node)
    if not attrs:
        return None
    for a in sorted(attrs):
        cls.body.append(ast.parse(f"def _rd_{a}(self, key):\n    return self.{a}[key]\n").body[0])
    ast.fix_missing_locations(tree)
    return ast.unparse(tree)


def mutants_of(src, qual, limit=12):
    """Behaviour-CHANGING single-point mutants of one function (statement deleted, comparison flipped, arithmetic operator swapped,
    boolean operator swapped, constant perturbed).  Used only to harden the analysers: a mutant may legitimately be ok / violation /
    undecided, but must never crash a rule (`rule=internal`)."""
    import copy as _copy
    tree = ast.parse(src)
    node = _find(tree, qual)
    if node is None:
        return []
    sites = []
    for n in ast.walk(node):
        if isinstance(n, ast.Compare) and len(n.ops) == 1:
            sites.append(("cmp", n))
        elif isinstance(n, ast.BinOp) and isinstance(n.op, (ast.Add, ast.Sub, ast.Mult, ast.Div)):
            sites.append(("bin", n))
        elif isinstance(n, ast.BoolOp):
            sites.append(("bool", n))
        elif isinstance(n, ast.Constant) and isinstance(n.value, (int, float)) and not isinstance(n.value, bool):
            sites.append(("const", n))
    for holder in ast.walk(node):
        for field in ("body", "orelse"):
            body = getattr(holder, field, None)
            if isinstance(body, list) and len(body) > 1:
                for st in body:
                    if isinstance(st, (ast.Assign, ast.Expr, ast.AugAssign, ast.If, ast.Raise)) and not (isinstance(st, ast.Expr) and isinstance(st.value, ast.Constant)):
                        sites.append(("del", (body, st)))
    import random as _r
    _r.Random(hash(qual) & 0xffff).shuffle(sites)
    out = []

    class _Out(list):
        def append(self, new):
            list.append(self, Mutant(new, f"{kind} L{getattr(n[1] if kind == 'del' else n, 'lineno', 0)}: {ast.unparse(n[1] if kind == 'del' else n)[:110]}"))
    out = _Out()
    for kind, n in sites[:limit]:
        if kind == "cmp":
            old = n.ops[0]
            n.ops[0] = {ast.Lt: ast.LtE, ast.LtE: ast.Lt, ast.Gt: ast.GtE, ast.GtE: ast.Gt, ast.Eq: ast.NotEq, ast.NotEq: ast.Eq, ast.Is: ast.IsNot, ast.IsNot: ast.Is,
                        ast.In: ast.NotIn, ast.NotIn: ast.In}.get(type(old), ast.Eq)()
            out.append(ast.unparse(tree))
            n.ops[0] = old
        elif kind == "bin":
            old = n.op
            n.op = {ast.Add: ast.Sub, ast.Sub: ast.Add, ast.Mult: ast.Div, ast.Div: ast.Mult}[type(old)]()
            out.append(ast.unparse(tree))
            n.op = old
        elif kind == "bool":
            old = n.op
            n.op = ast.And() if isinstance(old, ast.Or) else ast.Or()
            out.append(ast.unparse(tree))
            n.op = old
        elif kind == "const":
            old = n.value
            n.value = old + 1
            out.append(ast.unparse(tree))
            n.value = old
        elif kind == "del":
            body, st = n
            i = body.index(st)
            body[i] = ast.Pass()
            out.append(ast.unparse(tree))
            body[i] = st
    return out


def one_mutant(args):
    prop, repo, rel, qual, new = args
    desc = getattr(new, "desc", "")
    if os.environ.get("SHOW_SURVIVORS"):
        qual = f"{qual} [{desc}]"
    tmp = None
    try:
        try:
            compile(new, rel, "exec")
        except SyntaxError:
            return qual, "skipped", ""
        tmp = tempfile.mkdtemp(prefix="leaspy-mu-")
        shutil.copytree(os.path.join(repo, "src", "leaspy"), os.path.join(tmp, "src", "leaspy"), ignore=shutil.ignore_patterns("__pycache__"))
        open(os.path.join(tmp, rel), "w").write(new)
        mod = importlib.import_module(f"sa.rules.{prop.lower()}")
        status, ctx, errors = core.run_property(prop, mod.rules, tmp, "quick")
        internal = [e for e in errors if "rule=internal" in e]
        if internal:
            return qual, "INTERNAL", internal[0][:300]
        return qual, {0: "ok", 1: "violation", 2: "undecided"}[status], ("; ".join(errors)[:260] if status == 2 else "")
    except Exception as e:
        return qual, "error", f"{type(e).__name__}: {e}"
    finally:
        if tmp:
            shutil.rmtree(tmp, ignore_errors=True)


MODE = {"rename": None, "temp": None}


def one(args):
    prop, repo, rel, qual, baseline, mode = args
    tmp = None
    try:
        src = open(os.path.join(repo, rel)).read()
        new = {"temp": temp_function, "inline": inline_function, "swap": swap_function, "flip": flip_function, "doc": doc_function, "log": log_function, "invert": invert_function, "accessor": accessor_function}.get(mode, rename_function)(src, qual)
        if new is None:
            return qual, "skipped", ""
        try:
            compile(new, rel, "exec")
        except SyntaxError as e:
            return qual, "skipped", f"does not compile: {e}"
        tmp = tempfile.mkdtemp(prefix="leaspy-rn-")
        shutil.copytree(os.path.join(repo, "src", "leaspy"), os.path.join(tmp, "src", "leaspy"), ignore=shutil.ignore_patterns("__pycache__"))
        open(os.path.join(tmp, rel), "w").write(new)
        mod = importlib.import_module(f"sa.rules.{prop.lower()}")
        status, ctx, errors = core.run_property(prop, mod.rules, tmp, "quick")
        if status == 2:
            return qual, "ANALYSIS-ERROR", "; ".join(errors)[:300]
        known = core.load_known_findings()
        viol = [o for o in ctx.obs if o.verdict == "violation" and not any(core.finding_matches(k, prop, o) for k in known) and (o.rule, o.key) not in baseline]
        if viol:
            return qual, "FALSE-ALARM", "; ".join(f"{o.rule} {o.construct[:60]}: {o.reason[:100]}" for o in viol[:3])
        return qual, "ok", ""
    except Exception as e:
        return qual, "error", f"{type(e).__name__}: {e}"
    finally:
        if tmp:
            shutil.rmtree(tmp, ignore_errors=True)


def main():
    args = sys.argv[1:]
    mx = 60
    mode = "rename"
    if "--mode" in args:
        i = args.index("--mode")
        mode = args[i + 1]
        del args[i:i + 2]
    if "--max" in args:
        i = args.index("--max")
        mx = int(args[i + 1])
        del args[i:i + 2]
    only = None
    if "--only" in args:
        i = args.index("--only")
        import re as _re
        only = _re.compile(args[i + 1])
        del args[i:i + 2]
    repo = "/repo"
    for prop in args:
        mod = importlib.import_module(f"sa.rules.{prop.lower()}")
        ix = Index(repo)
        status, ctx, errors = core.run_property(prop, mod.rules, repo, "quick", index=ix)
        baseline = {(o.rule, o.key) for o in ctx.obs if o.verdict == "violation"}
        funcs = sorted(ctx.functions_analysed)
        # package-wide scans: restrict to functions that actually carry an obligation
        with_ob = {(o.file, o.qual) for o in ctx.obs}
        jobs = []
        for mod_name, qual in funcs:
            rel = ix.rel(mod_name)
            if only is not None and not only.search(qual):
                continue
            if (rel, qual) in with_ob or len(funcs) <= mx or only is not None:
                jobs.append((prop, repo, rel, qual, baseline, mode))
        jobs = jobs[:mx]
        if mode == "mutate":
            mj = []
            for (_p, _r_, rel, qual, _b, _m) in jobs:
                for new in mutants_of(open(os.path.join(repo, rel)).read(), qual, int(os.environ.get("MUTANTS_PER_FUNCTION", "12"))):
                    mj.append((prop, repo, rel, qual, new))
            with ProcessPoolExecutor(max_workers=16) as ex:
                res = list(ex.map(one_mutant, mj))
            from collections import Counter
            c = Counter(r[1] for r in res)
            print(f"== {prop} [mutate]: {len(res)} mutants: {dict(c)}")
            for q, st, msg in res:
                if st in ("INTERNAL", "error") or (st == "undecided" and os.environ.get("SHOW_UNDECIDED")) or (st == "ok" and os.environ.get("SHOW_SURVIVORS")):
                    print(f"   {st:10s} {q}: {msg}")
            continue
        with ProcessPoolExecutor(max_workers=16) as ex:
            res = list(ex.map(one, jobs))
        bad = [r for r in res if r[1] in ("FALSE-ALARM", "ANALYSIS-ERROR", "error")]
        print(f"== {prop} [{mode}]: {len(res)} functions transformed, {sum(1 for r in res if r[1] == 'ok')} silent, {sum(1 for r in res if r[1] == 'skipped')} skipped, {len(bad)} problems")
        for q, st, msg in bad:
            print(f"   {st:14s} {q}: {msg}")


if __name__ == "__main__":
    main()
