"""Development aid: print the canonical lines of a function (function-wide local numbering). Usage: clines.py module qual [inline] [repo]"""
import sys, os
sys.path.insert(0, os.path.dirname(os.path.dirname(os.path.dirname(os.path.abspath(__file__)))))
from sa.index import Index
from sa.astq import Canon
ix = Index(sys.argv[4] if len(sys.argv) > 4 else "/repo")
f = ix.funcs[(sys.argv[1], sys.argv[2])]
c = Canon(f.node)
print("#", sys.argv[2], c.pmap)
for l in c.lines(len(sys.argv) > 3 and sys.argv[3] == "inline", True):
    print("  ", l)
