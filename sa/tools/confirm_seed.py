"""Development aid: confirm a seeded change left applied in a scratch worktree <wt> with <wt>/_seed/{patch.diff,demo.py,meta.json}.
Checks: patch.diff == the working-tree diff of src/; demo exits 1 with the change and 0 without; optionally the pinned suite passes
with the change (--suite).  Usage: confirm_seed.py <worktree> [--suite]"""
import json
import os
import subprocess
import sys

wt = os.path.abspath(sys.argv[1])
env = dict(os.environ, PYTHONPATH=os.path.join(wt, "src"), OMP_NUM_THREADS="2", MKL_NUM_THREADS="2")
seed = os.path.join(wt, "_seed")


def sh(cmd, **kw):
    return subprocess.run(cmd, shell=True, cwd=wt, env=env, capture_output=True, text=True, **kw)


def demo():
    r = sh(f"/venv/bin/python {seed}/demo.py", timeout=1800)
    lines = [l for l in r.stdout.splitlines() if "PROPERTY" in l]
    return r.returncode, (lines or (r.stdout + r.stderr).strip().splitlines())[-2:]


out = {"worktree": wt}
cur = sh("git diff -- src").stdout
ref = open(os.path.join(seed, "patch.diff")).read()
out["patch_is_working_diff"] = [l for l in cur.splitlines() if l[:1] in "+-" and not l.startswith(("+++", "---"))] == [l for l in ref.splitlines() if l[:1] in "+-" and not l.startswith(("+++", "---"))]
out["untracked_or_other_changes"] = sh("git status --porcelain").stdout.strip().splitlines()
if "--suite-only" not in sys.argv:
    out["demo_with_change"] = demo()
    r = sh(f"git apply -R {seed}/patch.diff")
    if r.returncode != 0:
        out["error"] = "cannot reverse patch: " + r.stderr[:200]
    else:
        out["demo_without_change"] = demo()
        sh(f"git apply {seed}/patch.diff")
if "--suite" in sys.argv or "--suite-only" in sys.argv:
    r = sh("/venv/bin/python -m pytest -q -p no:cacheprovider --timeout=900 2>&1 | grep -E ' passed| failed| error' | tail -2")
    out["suite_with_change"] = r.stdout.strip().splitlines()[-2:]
print(json.dumps(out, indent=1))
