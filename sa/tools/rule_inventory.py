"""Development aid: rewrites the generated rule inventory of DESIGN.md (between RULE_INVENTORY_BEGIN/END): one row per rule of every
property, with its one-line statement and the number of obligations it discharged on the current tree (quick tier)."""
import importlib
import os
import sys
from collections import Counter

HERE = os.path.dirname(os.path.abspath(__file__))
VERIF = os.path.dirname(os.path.dirname(HERE))
sys.path.insert(0, VERIF)

from sa import core  # noqa: E402
from sa.index import Index  # noqa: E402


def main():
    ix = Index("/repo")
    rows = ["| rule | what it decides (one line, as registered by the rule) | obligations on today's tree (quick) | confirmed minimum |", "|---|---|---|---|"]
    total_rules = total_ob = 0
    for i in range(1, 21):
        prop = f"C{i:02d}"
        mod = importlib.import_module(f"sa.rules.{prop.lower()}")
        status, ctx, errors = core.run_property(prop, mod.rules, "/repo", "quick", index=ix)
        counts = Counter(o.rule for o in ctx.obs)

        def key(r):
            import re
            m = re.match(r"C\d+\.R(\d+)(.*)", r)
            return (int(m.group(1)), m.group(2)) if m else (999, r)
        for rid in sorted(ctx.rule_text, key=key):
            rows.append(f"| {rid} | {ctx.rule_text[rid].replace('|', '/')} | {counts.get(rid, 0)} | {ctx.minimums.get(rid, 1)} |")
            total_rules += 1
            total_ob += counts.get(rid, 0)
    text = "\n".join(rows) + f"\n\n{total_rules} rules, {total_ob} obligations (quick tier).\n"
    p = os.path.join(VERIF, "DESIGN.md")
    s = open(p).read()
    b, e = "<!-- RULE_INVENTORY_BEGIN -->", "<!-- RULE_INVENTORY_END -->"
    if b not in s:
        print("markers not found")
        return 1
    s = s[:s.index(b) + len(b)] + "\n" + text + s[s.index(e):]
    open(p, "w").write(s)
    print(f"{total_rules} rules, {total_ob} obligations")
    return 0


if __name__ == "__main__":
    sys.exit(main())
