"""Print a source file (or one class/function of it) without docstrings - development aid only."""
import ast, sys
p = sys.argv[1]; only = sys.argv[2:] 
t = ast.parse(open(p).read())
for n in ast.walk(t):
    if isinstance(n, (ast.FunctionDef, ast.ClassDef, ast.Module)) and n.body and isinstance(n.body[0], ast.Expr) and isinstance(n.body[0].value, ast.Constant) and isinstance(n.body[0].value.value, str):
        n.body = n.body[1:] or [ast.Pass()]
if not only:
    print(ast.unparse(t))
else:
    for n in ast.walk(t):
        if isinstance(n, (ast.FunctionDef, ast.ClassDef)) and n.name in only:
            print(f"# L{n.lineno}"); print(ast.unparse(n)); print()
