"""Development aid: apply a patch (or every /verif/seeded/*/patch.diff) to a scratch copy of /repo/src/leaspy and report
which property checks fire (quick tier).  Usage: seedscan.py [--repo /repo] <patch.diff | seeded-dir> ...
Scratch copies are made with tempfile outside /repo and /verif and removed afterwards."""
import json
import os
import shutil
import subprocess
import sys
import tempfile
from concurrent.futures import ProcessPoolExecutor

HERE = os.path.dirname(os.path.abspath(__file__))
VERIF = os.path.dirname(os.path.dirname(HERE))
sys.path.insert(0, VERIF)

PROPS = [f"C{i:02d}" for i in range(1, 21)]


def _run(args):
    prop, tree = args
    import importlib
    from sa import core
    mod = importlib.import_module(f"sa.rules.{prop.lower()}")
    status, ctx, errors = core.run_property(prop, mod.rules, tree, "quick")
    known = core.load_known_findings()
    viol = []
    if ctx is not None and status != 2:
        for o in ctx.obs:
            if o.verdict == "violation" and not any(core.finding_matches(k, prop, o) for k in known):
                viol.append((o.rule, o.key, o.reason[:160]))
    return prop, status, viol, errors


def scan(patch, repo="/repo"):
    tmp = tempfile.mkdtemp(prefix="leaspy-seed-")
    try:
        shutil.copytree(os.path.join(repo, "src", "leaspy"), os.path.join(tmp, "src", "leaspy"), ignore=shutil.ignore_patterns("__pycache__"))
        r = subprocess.run(["patch", "-p1", "-s", "-f", "-i", os.path.abspath(patch)], cwd=tmp, capture_output=True, text=True)
        if r.returncode != 0:
            return {"error": "patch does not apply: " + (r.stdout + r.stderr)[:300]}
        with ProcessPoolExecutor(max_workers=16) as ex:
            res = list(ex.map(_run, [(p, tmp) for p in PROPS]))
        out = {}
        for prop, status, viol, errors in res:
            if viol:
                out[prop] = sorted({v[0] for v in viol}), viol[:3]
            elif status == 2:
                out[prop] = ["ANALYSIS-ERROR"], errors[:2]
        return out
    finally:
        shutil.rmtree(tmp, ignore_errors=True)


if __name__ == "__main__":
    args = sys.argv[1:]
    repo = "/repo"
    if args and args[0] == "--repo":
        repo, args = args[1], args[2:]
    for a in args:
        p = os.path.join(a, "patch.diff") if os.path.isdir(a) else a
        res = scan(p, repo)
        print("==", a)
        if "error" in res:
            print("  ", res["error"])
            continue
        if not res:
            print("   no check fires")
        for prop, (rules, detail) in sorted(res.items()):
            print(f"   {prop}: {rules}")
            for d in detail:
                print("       ", d if isinstance(d, str) else f"{d[0]} {d[1][-90:]} -- {d[2]}")
