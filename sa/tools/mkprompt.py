import json, os, sys
pid, suf = sys.argv[1], sys.argv[2]
prop = [json.loads(l) for l in open('/verif/properties.jsonl') if l.strip()]
prop = [p for p in prop if p.get('id') == pid][0]
prev = []
for d in sorted(os.listdir('/verif/seeded')):
    if d.startswith(pid):
        m = json.load(open(f'/verif/seeded/{d}/meta.json'))
        prev.append('- ' + m['summary'][:300])
wt = f'/tmp/seed/{pid}{suf}'
open(f'/tmp/seed/PROMPT_{pid}{suf}.md', 'w').write(f"""You are working in a scratch git worktree of the Python library aramis-lab/leaspy at {wt} (source under {wt}/src/leaspy, tests under {wt}/tests). Work ONLY inside that directory; never touch /repo or /verif, never commit. Python: /venv/bin/python, run things with PYTHONPATH={wt}/src (the installed package points elsewhere, so PYTHONPATH is required). No network.

A semantic property that users of leaspy rely on:

{json.dumps(prop, indent=1)}

Task: write ONE realistic change to the library source (under src/leaspy only, the kind of edit a maintainer could plausibly make as a refactor, optimisation or 'improvement') that BREAKS this property while the package still imports and the existing test-suite still passes. The break must need something specific to manifest (an unusual input, a multi-step sequence of operations, a fault at a particular point, or two cooperating sites that each look fine alone), not something ordinary use exposes at once. Keep the change small (ideally < 30 changed lines).

Changes of the following kinds were already made by others; yours must be a DIFFERENT mechanism, preferably at a different code site:
{chr(10).join(prev)}

Deliverables, all in {wt}/_seed/ (create it), with the change left APPLIED in the worktree:
1. patch.diff = output of `git diff -- src` run in {wt}.
2. demo.py: a small standalone program that exercises the real library code, prints a line containing the word PROPERTY describing what it observed, and exits 1 when the property is violated (i.e. with your change) and 0 when it holds (without your change). It must be deterministic and take < 2 minutes. Verify both: run it with the change, then `git stash`-free: `git apply -R _seed/patch.diff`, run it, and `git apply _seed/patch.diff` again.
3. meta.json: {{"breaks": "{pid}", "summary": "<what the change does, 2-4 sentences>", "needs_to_manifest": "<what specific circumstance is needed>", "files": [..]}}.
4. Check the existing suite still passes with the change: `cd {wt} && PYTHONPATH={wt}/src OMP_NUM_THREADS=2 /venv/bin/python -m pytest -q -p no:cacheprovider --timeout=900 -x -n 0 2>&1 | tail -3` (if -n is not accepted, drop it). It takes several minutes; at least run the test directories relevant to the files you touched if time is short, and say in your final answer what you ran. You have about 15 minutes in total: be quick, pick a simple idea.
Final answer: 3 lines: the mechanism, the demo result with/without, the test result.
""")
print(wt)
