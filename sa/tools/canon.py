"""Development aid: print the canonical (rename-insensitive) texts of a function: returns, attribute/subscript stores, expression statements."""
import ast, sys, os
sys.path.insert(0, os.path.dirname(os.path.dirname(os.path.dirname(os.path.abspath(__file__)))))
from sa.index import Index
from sa.astq import Canon, statements, store_targets, U
ix = Index(sys.argv[3] if len(sys.argv) > 3 else "/repo")
f = ix.funcs[(sys.argv[1], sys.argv[2])]
c = Canon(f.node)
print("PARAMS", c.pmap)
for s in sorted(statements(f.node), key=lambda x: x.lineno):
    if isinstance(s, ast.Return) and s.value is not None:
        print("RET  ", c.text(s.value))
    elif isinstance(s, (ast.Assign, ast.AugAssign, ast.AnnAssign)) and getattr(s, "value", None) is not None:
        for t in store_targets(s):
            if not isinstance(t, ast.Name):
                print("STORE", c.text(t), "<-" if not isinstance(s, ast.AugAssign) else f"<{type(s.op).__name__}>-", c.text(s.value))
    elif isinstance(s, ast.Expr) and isinstance(s.value, ast.Call):
        print("CALL ", c.text(s.value))
    elif isinstance(s, (ast.If, ast.While)):
        print("TEST ", c.text(s.test))
    elif isinstance(s, ast.For):
        print("FOR  ", U(s.target), "in", c.text(s.iter))
    elif isinstance(s, ast.Raise) and s.exc is not None:
        print("RAISE", U(s.exc)[:60])
print("--- lines (inlined)")
for l in c.lines(True):
    print("  ", l)
print("--- lines (not inlined)")
for l in c.lines(False):
    print("  ", l)
for n in ast.walk(f.node):
    if isinstance(n, ast.FunctionDef) and n is not f.node:
        cc = Canon(n)
        print(f"--- nested {n.name} lines (inlined)", cc.pmap)
        for l in cc.lines(True):
            print("  ", l)
