"""Development aid: (re)write the table of seeded changes in DESIGN.md section 10.1 from /verif/seeded/*/meta.json."""
import glob
import json
import os
import re

VERIF = os.path.dirname(os.path.dirname(os.path.dirname(os.path.abspath(__file__))))
rows = []
for d in sorted(glob.glob(os.path.join(VERIF, "seeded", "*"))):
    m = json.load(open(os.path.join(d, "meta.json")))
    caught = "; ".join(f"{p}: {', '.join(r)}" for p, r in sorted(m.get("caught_by", {}).items()))

    def cell(t, n):
        t = (t or "").replace("|", "/").replace("\n", " ").strip()
        return t if len(t) <= n else t[: n - 1].rstrip() + "…"
    rows.append((m["id"], m["breaks"], cell(m.get("summary"), 210), cell(m.get("first_scan", ""), 260), caught))
first = [r[3].split(" ")[0].strip("(").upper() for r in rows]
n_caught = sum(1 for f in first if f.startswith("CAUGHT"))
n_missed = sum(1 for f in first if f.startswith("MISSED"))
n_undec = sum(1 for f in first if f.startswith("UNDECIDED"))
lines = [f"{len(rows)} seeded changes kept ({n_caught} caught by the first scan - some of them only by the check of another property or for an incidental reason, as noted; "
         f"{n_missed} missed; {n_undec} made a rule give up, exit 2). All of them are caught now by the rules listed in the last column, "
         "and are replayed by the thorough tier.", "",
         "| seeded change | breaks | what it does (the sub-agent's summary) | first scan | caught now by |", "|---|---|---|---|---|"]
for r in rows:
    lines.append("| `" + r[0] + "` | " + " | ".join(r[1:]) + " |")
table = "\n".join(lines)
p = os.path.join(VERIF, "DESIGN.md")
s = open(p).read()
if "SEED_TABLE_PLACEHOLDER" in s:
    s = s.replace("SEED_TABLE_PLACEHOLDER", "<!-- SEED_TABLE_BEGIN -->\n" + table + "\n<!-- SEED_TABLE_END -->")
else:
    s = re.sub(r"<!-- SEED_TABLE_BEGIN -->.*?<!-- SEED_TABLE_END -->", lambda _: "<!-- SEED_TABLE_BEGIN -->\n" + table + "\n<!-- SEED_TABLE_END -->", s, flags=re.S)
open(p, "w").write(s)
print(len(rows), "rows;", n_caught, "caught,", n_missed, "missed,", n_undec, "undecided")
