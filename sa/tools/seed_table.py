"""Development aid: markdown table of the seeded changes kept under /verif/seeded (for DESIGN.md section 10)."""
import glob
import json
import os

VERIF = os.path.dirname(os.path.dirname(os.path.dirname(os.path.abspath(__file__))))
rows = []
for d in sorted(glob.glob(os.path.join(VERIF, "seeded", "*"))):
    m = json.load(open(os.path.join(d, "meta.json")))
    caught = "; ".join(f"{p}: {', '.join(r)}" for p, r in sorted(m.get("caught_by", {}).items()))
    rows.append((m["id"], m["breaks"], (m.get("summary") or "").replace("|", "/").replace("\n", " ")[:230], (m.get("needs_to_manifest") or "").replace("|", "/").replace("\n", " ")[:160], caught, m.get("first_scan", "")))
print("| seeded change | breaks | what it does | needs | caught by | first scan |")
print("|---|---|---|---|---|---|")
for r in rows:
    print("| `" + r[0] + "` | " + " | ".join(r[1:]) + " |")
