"""Regenerate /verif/MANIFEST.json from the rules modules (development aid; the manifest is committed).

A property is claimed iff sa/rules/<id>.py exists and exposes `rules`, LEVEL_TEXT, LEVEL_NOTE.
Everything else is listed under not_applicable with the reason kept in NOT_APPLICABLE below.
"""
import importlib
import json
import os
import sys

HERE = os.path.dirname(os.path.abspath(__file__))
VERIF = os.path.dirname(os.path.dirname(HERE))
sys.path.insert(0, VERIF)

PENDING = "no static rule built yet for this property in this session (see DESIGN.md section 5 for the planned rules); not claimed until its check exists"
NOT_APPLICABLE = {}

BASELINE = "cd /repo && /venv/bin/python -m pytest -ra -q -p no:cacheprovider --timeout=900 --continue-on-collection-errors"

TECH_DEFAULT = "repository-specific static analysis over Python ASTs (ast): CFG/dominator path rules, who-may-write scans, call-graph effect summaries"


def main():
    props = [json.loads(l) for l in open(os.path.join(VERIF, "properties.jsonl"))]
    checks, na = [], []
    for p in props:
        pid = p["id"]
        path = os.path.join(VERIF, "sa", "rules", pid.lower() + ".py")
        mod = None
        if os.path.exists(path):
            mod = importlib.import_module(f"sa.rules.{pid.lower()}")
        if mod is not None and hasattr(mod, "rules") and pid not in NOT_APPLICABLE:
            # rules added after the level text was written (mostly because of seeded changes, DESIGN.md section 10.2) are appended with the title they run under
            import re
            from sa import core
            _st, _ctx, _err = core.run_property(pid, mod.rules, "/repo", "quick")
            named = set(re.findall(r"\(?(R\d+[a-z]?)\)?", mod.LEVEL_TEXT))
            later = [(rid, txt) for rid, txt in sorted(_ctx.rule_text.items(), key=lambda kv: (len(kv[0]), kv[0])) if rid.split(".")[1] not in named] if _ctx is not None else []
            level_text = mod.LEVEL_TEXT + ((" Further rules (added while testing the checks against seeded changes and mutants, DESIGN.md section 10.2): "
                                            + "; ".join(f"({rid.split('.')[1]}) {txt}" for rid, txt in later) + ".") if later else "")
            checks.append({
                "property_id": pid,
                "quick_cmd": f"/venv/bin/python /verif/sa/check.py {pid} --tier quick",
                "thorough_cmd": f"/venv/bin/python /verif/sa/check.py {pid} --tier thorough",
                "evidence_file": f"/verif/evidence/{pid}.json",
                "replay_cmd_template": f"/venv/bin/python /verif/sa/check.py {pid} --replay {{path}}",
                "engine": "sa",
                "level_claimed": {"category": "other", "text": level_text, "design_ref": f"DESIGN.md section 5 / {pid}"},
                "level_note": getattr(mod, "LEVEL_NOTE", "Trusted: CPython ast, the semantics tables for torch/pandas/numpy calls listed in the evidence; "
                                                       "necessary conditions only - the undecided clauses are named in the level text."),
                "technique": getattr(mod, "TECHNIQUE", TECH_DEFAULT),
            })
        else:
            na.append({"property_id": pid, "reason": NOT_APPLICABLE.get(pid, PENDING)})
    manifest = {
        "version": 1,
        "setup_cmd": "/venv/bin/python -m compileall -q /verif/sa",
        "hooks": {
            "guard": "LEASPY_VERIF",
            "enable": "none needed: the checks read the sources of /repo (ast), nothing is built or instrumented",
            "baseline_off_cmd": BASELINE,
            "source_commits": [],
            "add_only": True,
        },
        "engines": [{
            "name": "sa",
            "path": "/verif/sa",
            "serves_properties": [c["property_id"] for c in checks],
            "kind_free_text": "repository-specific static analyser over Python syntax trees: program index + C3 MRO, per-function CFG with dominators, "
                              "call graph with effect summaries, symbolic extractor of the models' variable graphs, small abstract domains, algebraic normal forms",
        }],
        "checks": checks,
        "not_applicable": na,
        "notes": "All checks are static (no leaspy/torch import, nothing executed). exit 0 ok / exit 1 VIOLATION / exit 2 ANALYSIS-ERROR. "
                 "Genuine defects repaired by `fix:` commits in /repo and recorded in /verif/known_findings.json (status fixed); unrepaired ones have status known.",
    }
    with open(os.path.join(VERIF, "MANIFEST.json"), "w") as fh:
        json.dump(manifest, fh, indent=1)
    print("claimed:", [c["property_id"] for c in checks])
    print("not_applicable:", [n["property_id"] for n in na])


if __name__ == "__main__":
    main()
