"""Small syntax-tree query helpers shared by the rules."""
from __future__ import annotations

import ast
import re
import copy
from typing import Dict, Iterator, List, Optional, Tuple

from .index import walk_no_nested


def U(e: Optional[ast.AST]) -> str:
    return "" if e is None else " ".join(ast.unparse(e).split())


def store_targets(st: ast.AST) -> List[ast.AST]:
    """Expressions written by a statement (flattening tuple targets)."""
    out: List[ast.AST] = []

    def flat(t):
        if isinstance(t, (ast.Tuple, ast.List)):
            for x in t.elts:
                flat(x)
        elif isinstance(t, ast.Starred):
            flat(t.value)
        else:
            out.append(t)

    if isinstance(st, ast.Assign):
        for t in st.targets:
            flat(t)
    elif isinstance(st, ast.AnnAssign):
        if st.value is not None:
            flat(st.target)
    elif isinstance(st, ast.AugAssign):
        flat(st.target)
    elif isinstance(st, (ast.For, ast.AsyncFor)):
        flat(st.target)
    elif isinstance(st, (ast.With, ast.AsyncWith)):
        for i in st.items:
            if i.optional_vars is not None:
                flat(i.optional_vars)
    elif isinstance(st, ast.Delete):
        for t in st.targets:
            flat(t)
    return out


def statements(fn: ast.AST) -> Iterator[ast.stmt]:
    """Every statement of a function body, nested compound bodies included (not nested defs)."""
    for n in walk_no_nested(fn):
        if isinstance(n, ast.stmt):
            yield n


def local_defs(fn: ast.AST) -> Dict[str, List[ast.AST]]:
    """name -> list of value expressions bound to it by plain assignment / walrus in this function.
    A binding that is not a plain `name = expr` (loop target, with-as, aug-assign, tuple target)
    is recorded as None (unknown value)."""
    d: Dict[str, List[Optional[ast.AST]]] = {}
    for n in sorted(walk_no_nested(fn), key=lambda x: (getattr(x, "lineno", 0), getattr(x, "col_offset", 0))):
        if isinstance(n, ast.Assign):
            for t in n.targets:
                if isinstance(t, ast.Name):
                    d.setdefault(t.id, []).append(n.value)
                else:
                    for x in ast.walk(t):
                        if isinstance(x, ast.Name) and isinstance(x.ctx, ast.Store):
                            d.setdefault(x.id, []).append(None)
        elif isinstance(n, ast.AnnAssign) and isinstance(n.target, ast.Name) and n.value is not None:
            d.setdefault(n.target.id, []).append(n.value)
        elif isinstance(n, ast.NamedExpr) and isinstance(n.target, ast.Name):
            d.setdefault(n.target.id, []).append(n.value)
        elif isinstance(n, ast.AugAssign) and isinstance(n.target, ast.Name):
            d.setdefault(n.target.id, []).append(None)
        elif isinstance(n, (ast.For, ast.AsyncFor, ast.comprehension)):
            for x in ast.walk(n.target):
                if isinstance(x, ast.Name):
                    d.setdefault(x.id, []).append(None)
        elif isinstance(n, (ast.With, ast.AsyncWith)):
            for i in n.items:
                if i.optional_vars is not None:
                    for x in ast.walk(i.optional_vars):
                        if isinstance(x, ast.Name):
                            d.setdefault(x.id, []).append(None)
        elif isinstance(n, ast.ExceptHandler) and n.name:
            d.setdefault(n.name, []).append(None)
    return d


def param_names(fn: ast.AST) -> List[str]:
    a = fn.args
    out = [p.arg for p in a.posonlyargs + a.args + a.kwonlyargs]
    if a.vararg:
        out.append(a.vararg.arg)
    if a.kwarg:
        out.append(a.kwarg.arg)
    return out


class Inliner:
    """Substitute single-assignment locals by their definition (E1 'inline temporaries').

    flow=True (used by Canon): a definition `x = E` is substituted at a use only if nothing E reads - and not the object x
    itself - is written between the definition and the use (re-assignment of a name, `o[..] = v`, `o.a = v`, `del o[..]`,
    `o.method(..)` called for its effect; a loop around the use counts with its whole body).  Objects that are written through
    thus keep their identity and a value is never moved across a write it depends on."""

    def __init__(self, fn: ast.AST, max_depth: int = 8, skip_mutated: bool = False):
        self.defs = local_defs(fn)
        self.params = set(param_names(fn))
        self.max_depth = max_depth
        self.flow = skip_mutated
        self.events: List[Tuple[int, tuple]] = []   # (line, key) with key = ("name", x) | ("path", base, attr)
        self.loops: List[Tuple[int, int]] = []
        if not self.flow:
            return

        def note(x, line):
            chain = []
            b = x
            while isinstance(b, (ast.Subscript, ast.Attribute)):
                chain.append(b)
                b = b.value
            if not isinstance(b, ast.Name):
                return
            inner = chain[-1] if chain else None
            if isinstance(inner, ast.Attribute):
                self.events.append((line, ("path", b.id, inner.attr)))
            else:
                self.events.append((line, ("name", b.id)))
        for n in ast.walk(fn):
            line = getattr(n, "lineno", None)
            if isinstance(n, (ast.For, ast.AsyncFor, ast.While)):
                self.loops.append((n.lineno, n.end_lineno or n.lineno))
            tg = []
            if isinstance(n, (ast.Assign, ast.AugAssign, ast.AnnAssign)):
                tg = store_targets(n)
                line = getattr(n, "end_lineno", line) or line
            elif isinstance(n, ast.Delete):
                tg = n.targets
            elif isinstance(n, (ast.For, ast.AsyncFor)):
                tg = [n.target]
            elif isinstance(n, ast.NamedExpr):
                tg = [n.target]
            for t in tg:
                for x in ast.walk(t):
                    if isinstance(x, (ast.Subscript, ast.Attribute)) and isinstance(x.ctx, (ast.Store, ast.Del)):
                        note(x, line)
                    elif isinstance(x, ast.Name) and isinstance(x.ctx, (ast.Store, ast.Del)):
                        self.events.append((line, ("name", x.id)))
            if isinstance(n, ast.Expr) and isinstance(n.value, ast.Call) and isinstance(n.value.func, ast.Attribute):
                rcv = n.value.func.value
                if not (isinstance(rcv, ast.Name) and rcv.id in ("self", "cls")):  # self.helper(...) is not taken as a write to every attribute
                    note(rcv, n.lineno)
            if isinstance(n, ast.Expr) and isinstance(n.value, ast.Call):
                for a_ in list(n.value.args) + [k.value for k in n.value.keywords]:  # f(x) called for its effect may write through x
                    if isinstance(a_, ast.Name):
                        self.events.append((n.lineno, ("name", a_.id)))

    @staticmethod
    def _reads(e: ast.AST) -> set:
        keys = set()
        for x in ast.walk(e):
            if isinstance(x, ast.Name):
                keys.add(("name", x.id))
            elif isinstance(x, ast.Attribute) and isinstance(x.value, ast.Name):
                keys.add(("path", x.value.id, x.attr))
        return keys

    def _blocked(self, name: str, v: ast.AST, use_line: Optional[int]) -> bool:
        keys = self._reads(v) | {("name", name)}
        d0 = getattr(v, "lineno", None)
        d1 = getattr(v, "end_lineno", d0)
        hits = [ln for ln, k in self.events if k in keys and not (k == ("name", name) and d0 is not None and ln is not None and d0 <= ln <= d1)]
        if not hits:
            return False
        if any(k == ("name", name) and not (d0 is not None and ln is not None and d0 <= ln <= d1) for ln, k in self.events):
            return True  # x is an object that is written through somewhere: it keeps its identity everywhere
        if use_line is None or d1 is None:
            return True
        lo, hi = d1, use_line
        spans = [(lo, hi)] if hi >= lo else [(hi, lo)]
        for ls, le in self.loops:
            if ls <= use_line <= le and not (ls <= d1 <= le):
                spans.append((ls - 1, le))
        for ln in hits:
            if ln is None:
                return True
            if any(a_ < ln <= b_ for a_, b_ in spans):
                return True
        return False

    def single(self, name: str, use_line: Optional[int] = None) -> Optional[ast.AST]:
        if name in self.params:
            return None
        vs = self.defs.get(name)
        if vs and len(vs) == 1 and vs[0] is not None:
            if self.flow and self._blocked(name, vs[0], use_line):
                return None
            return vs[0]
        return None

    def resolve(self, e: ast.AST, depth: int = 0) -> ast.AST:
        inl = self

        class T(ast.NodeTransformer):
            def visit_Name(self, n):
                if isinstance(n.ctx, ast.Load) and depth < inl.max_depth:
                    v = inl.single(n.id, getattr(n, "lineno", None))
                    if v is not None:
                        return inl.resolve(copy.deepcopy(v), depth + 1)
                return n

            def visit_NamedExpr(self, n):
                return self.visit(n.value)

            def visit_Lambda(self, n):
                return n

        return T().visit(copy.deepcopy(e))

    def text(self, e: ast.AST) -> str:
        return U(self.resolve(e))


def is_attr_of(e: ast.AST, attr: str) -> bool:
    return isinstance(e, ast.Attribute) and e.attr == attr


def call_name(c: ast.Call) -> str:
    return U(c.func)


def kwarg(c: ast.Call, name: str) -> Optional[ast.AST]:
    for k in c.keywords:
        if k.arg == name:
            return k.value
    return None


def arg_or_kw(c: ast.Call, pos: int, name: str) -> Optional[ast.AST]:
    if len(c.args) > pos and not any(isinstance(a, ast.Starred) for a in c.args[: pos + 1]):
        return c.args[pos]
    return kwarg(c, name)


def const_value(e: Optional[ast.AST]):
    if isinstance(e, ast.Constant):
        return e.value
    if isinstance(e, ast.UnaryOp) and isinstance(e.op, ast.USub) and isinstance(e.operand, ast.Constant):
        return -e.operand.value
    return None


def raises_of(fn: ast.AST) -> List[ast.Raise]:
    return [n for n in walk_no_nested(fn) if isinstance(n, ast.Raise)]


def raised_class_name(r: ast.Raise) -> Optional[str]:
    e = r.exc
    if e is None:
        return None
    if isinstance(e, ast.Call):
        e = e.func
    if isinstance(e, ast.Name):
        return e.id
    if isinstance(e, ast.Attribute):
        return e.attr
    return None


def names_loaded(e: ast.AST) -> set:
    return {n.id for n in ast.walk(e) if isinstance(n, ast.Name) and isinstance(n.ctx, ast.Load)}


def contains(e: ast.AST, pred) -> bool:
    return any(pred(n) for n in ast.walk(e))


def strip_docstring(body: List[ast.stmt]) -> List[ast.stmt]:
    if body and isinstance(body[0], ast.Expr) and isinstance(body[0].value, ast.Constant) and isinstance(body[0].value.value, str):
        return body[1:]
    return body


# ---------------------------------------------------------------- rename-insensitive matching
class Canon:
    """Canonical text of expressions of one function: single-assignment locals are inlined and the function's own
    parameters are replaced by positional placeholders ($0, $1, ... ; keyword-only ones by $k:<position>), so that renaming
    a local or a parameter, or introducing a temporary, does not change the canonical text."""

    def __init__(self, fn: ast.AST):
        self.fn = fn
        self.inl = Inliner(fn, skip_mutated=True)
        a = fn.args
        self.pmap = {}
        for i, p in enumerate(a.posonlyargs + a.args):
            self.pmap[p.arg] = f"${i}"
        for i, p in enumerate(a.kwonlyargs):
            self.pmap[p.arg] = f"$k{i}"
        if a.vararg:
            self.pmap[a.vararg.arg] = "$args"
        if a.kwarg:
            self.pmap[a.kwarg.arg] = "$kwargs"

    def _locals(self):
        if not hasattr(self, "_loc"):
            loc = set()
            for n in ast.walk(self.fn):
                if isinstance(n, ast.Name) and isinstance(n.ctx, (ast.Store, ast.Del)) and n.id not in self.pmap:
                    loc.add(n.id)
                if isinstance(n, ast.ExceptHandler) and n.name:
                    loc.add(n.name)
                if isinstance(n, (ast.FunctionDef, ast.Lambda)) and n is not self.fn:
                    aa = n.args
                    for p in aa.posonlyargs + aa.args + aa.kwonlyargs:
                        loc.add(p.arg)
            self._loc = loc
        return self._loc

    def text(self, e: ast.AST, inline: bool = True, order: Optional[Dict[str, str]] = None) -> str:
        """Canonical text: single-assignment locals inlined, parameters -> $i, every remaining local name (loop / comprehension
        variables, re-assigned locals) -> %j numbered by first occurrence in this expression (so the text does not depend on
        how locals are called)."""
        r = self.inl.resolve(e) if inline else copy.deepcopy(e)
        pm = self.pmap
        loc = self._locals()
        if order is None:
            order = {}

        def rename(n):
            for field, value in ast.iter_fields(n):
                if isinstance(value, list):
                    for x in value:
                        if isinstance(x, ast.AST):
                            rename(x)
                elif isinstance(value, ast.AST):
                    rename(value)
            if isinstance(n, ast.Name):
                if n.id in pm:
                    n.id = pm[n.id]
                elif n.id in loc:
                    if n.id not in order:
                        order[n.id] = f"%{len(order)}"
                    n.id = order[n.id]
            elif isinstance(n, ast.arg) and n.arg in loc:
                if n.arg not in order:
                    order[n.arg] = f"%{len(order)}"
                n.arg = order[n.arg]

        # comprehensions: generators are evaluated before the element: number names in evaluation order
        def rename_ordered(n):
            if isinstance(n, (ast.ListComp, ast.SetComp, ast.GeneratorExp)):
                for g in n.generators:
                    rename_ordered(g.iter)
                    rename_ordered(g.target)
                    for c in g.ifs:
                        rename_ordered(c)
                rename_ordered(n.elt)
                return
            if isinstance(n, ast.DictComp):
                for g in n.generators:
                    rename_ordered(g.iter)
                    rename_ordered(g.target)
                    for c in g.ifs:
                        rename_ordered(c)
                rename_ordered(n.key)
                rename_ordered(n.value)
                return
            if isinstance(n, ast.Name):
                rename(n)
                return
            if isinstance(n, ast.arg):
                rename(n)
                return
            for field, value in ast.iter_fields(n):
                if isinstance(value, list):
                    for x in value:
                        if isinstance(x, ast.AST):
                            rename_ordered(x)
                elif isinstance(value, ast.AST):
                    rename_ordered(value)

        rename_ordered(r)
        return U(r)

    def lines(self, inline: bool = False, shared: bool = False) -> List[str]:
        """Canonical text of every simple statement / compound-statement header of the function. Locals are numbered per
        statement, or (shared=True) function-wide by first occurrence, which keeps the correspondence between statements."""
        out = []
        order = {} if shared else None
        self.last_order = order
        for st in sorted(statements(self.fn), key=lambda x: (x.lineno, x.col_offset)):
            if isinstance(st, (ast.If, ast.While)):
                out.append("if " + self.text(st.test, inline, order))
            elif isinstance(st, (ast.For, ast.AsyncFor)):
                t = ast.Tuple(elts=[copy.deepcopy(st.iter), copy.deepcopy(st.target)], ctx=ast.Load())
                tt = self.text(t, inline, order)
                out.append("for " + tt)
            elif isinstance(st, (ast.With, ast.Try, ast.FunctionDef, ast.ClassDef)):
                continue
            elif isinstance(st, ast.Expr) and isinstance(st.value, ast.Constant) and isinstance(st.value.value, str):
                continue
            elif isinstance(st, ast.AnnAssign) and st.value is not None and isinstance(st.target, ast.Name):
                plain = ast.Assign(targets=[st.target], value=st.value, lineno=st.lineno, col_offset=st.col_offset)  # the annotation is not part of the behaviour
                out.append(self.text(plain, inline, order))
            else:
                try:
                    out.append(self.text(st, inline, order))
                except Exception:
                    out.append(U(st))
        return out

    def real_name(self, canon_local: str) -> Optional[str]:
        """Source name of a `%k` local of the last shared-numbering `lines()` call."""
        for k, v in (getattr(self, "last_order", None) or {}).items():
            if v == canon_local:
                return k
        return None

    def param(self, name_or_index) -> str:
        if isinstance(name_or_index, int):
            return f"${name_or_index}"
        return self.pmap.get(name_or_index, name_or_index)

    def returns(self) -> List[str]:
        return [self.text(s.value) for s in statements(self.fn) if isinstance(s, ast.Return) and s.value is not None]

    def assigned(self, target_text: str) -> List[str]:
        """canonical texts of every value assigned to a target whose own canonical text is `target_text` (e.g. 'self.x')."""
        out = []
        for s in statements(self.fn):
            if isinstance(s, (ast.Assign, ast.AnnAssign)) and getattr(s, "value", None) is not None:
                for t in store_targets(s):
                    if self.text(t) == target_text:
                        out.append(self.text(s.value))
        return out

    def calls(self, func_text: str) -> List[ast.Call]:
        return [c for c in walk_no_nested(self.fn) if isinstance(c, ast.Call) and U(c.func) == func_text]


def unify(lines: List[str], patterns: List[str], binding: Optional[Dict[str, str]] = None) -> Optional[Dict[str, str]]:
    """Match `patterns` (in any order of lines) against canonical lines. In a pattern `?name` stands for one local (`%k`), bound
    consistently across patterns; `?{name}` captures any text (bound consistently too); `...` stands for any text. Returns the binding of the first consistent match (plus `#i` ->
    index of the line matched by the i-th pattern, counted over the whole chain of calls sharing a binding), or None."""
    binding = dict(binding or {})
    if not patterns:
        return binding
    pat, rest = patterns[0], patterns[1:]
    pos = sum(1 for k in binding if k.startswith("#"))
    rx = ""
    names = []
    for tok in re.split(r"(\?\{[A-Za-z_]\w*\}|\?[A-Za-z_]\w*|\.\.\.)", pat):
        if tok == "...":
            rx += ".*?"
        elif tok.startswith("?{"):
            nm = tok[2:-1]
            if nm in binding:
                rx += re.escape(binding[nm])
            elif nm in names:
                rx += f"(?P={nm})"
            else:
                names.append(nm)
                rx += f"(?P<{nm}>.+?)"
        elif tok.startswith("?") and len(tok) > 1:
            nm = tok[1:]
            if nm in binding:
                rx += re.escape(binding[nm]) + r"(?!\d)"
            elif nm in names:
                rx += f"(?P={nm})(?!\\d)"
            else:
                names.append(nm)
                rx += f"(?P<{nm}>%\\d+)"
        else:
            rx += re.escape(tok)
    cre = re.compile("^" + rx + "$", re.S)
    for li, ln in enumerate(lines):
        m = cre.match(ln)
        if not m:
            continue
        b2 = dict(binding)
        b2.update({k: v for k, v in m.groupdict().items() if v is not None})
        b2[f"#{pos}"] = li  # index of the line matched by the pos-th pattern (source order)
        r = unify(lines, rest, b2)
        if r is not None:
            return r
    return None


def canon_lines(fn, inline: bool = True, shared: bool = False) -> List[str]:
    """Rename-insensitive statement texts of a function (see Canon.text / Canon.lines)."""
    return Canon(fn).lines(inline, shared)


def canon_src(fn, inline: bool = True) -> str:
    return "\n".join(canon_lines(fn, inline))


def nested_def(fn, name=None):
    for n in ast.walk(fn):
        if isinstance(n, ast.FunctionDef) and n is not fn and (name is None or n.name == name):
            return n
    return None


def rhs_of(lines: List[str], canon_local: str) -> List[str]:
    """Right-hand sides of the canonical lines `<local> = ...`."""
    pre = canon_local + " = "
    return [ln[len(pre):] for ln in lines if ln.startswith(pre)]


def parse_canon(text: str) -> ast.AST:
    """Parse a canonical text back into an expression: locals %k -> L_k, parameters $x -> P_x."""
    return ast.parse(re.sub(r"%(\d+)", r"L_\1", re.sub(r"\$(\w+)", r"P_\1", text)), mode="eval").body


def canon_name(tok: str) -> str:
    """%3 -> L_3, $0 -> P_0 (names used by parse_canon)."""
    return re.sub(r"%(\d+)", r"L_\1", re.sub(r"\$(\w+)", r"P_\1", tok))
