"""E3 - extraction of the variable graph each model configuration declares.

`build(ix, cfg)` instantiates the model class symbolically (attributes taken
from the configuration), evaluates `get_variables_specs()` with the mini
interpreter and returns a `Graph` (nodes with kind, direct parents, the
symbolic variable object).  Nothing of leaspy is imported.
"""
from __future__ import annotations

import ast
import itertools
from typing import Dict, Iterator, List, Optional, Tuple

from .index import AnalysisError, Func, Index
from .interp import (Closure, ClsRef, Ext, FuncRef, Interp, Obj, Opaque, OSet, PyRaise, Unsupported)

SPECS = "leaspy.variables.specs"
FUNCTIONAL_UTILS = "leaspy.utils.functional._utils"
NIF = ("leaspy.utils.functional._named_input_function", "NamedInputFunction")

MODEL_KINDS = {
    "logistic": ("leaspy.models.logistic", "LogisticModel"),
    "linear": ("leaspy.models.linear", "LinearModel"),
    "shared_speed_logistic": ("leaspy.models.shared_speed_logistic", "SharedSpeedLogisticModel"),
    "joint": ("leaspy.models.joint", "JointModel"),
    "mixture_logistic": ("leaspy.models.mixture", "LogisticMultivariateMixtureModel"),
}


class Config:
    def __init__(self, kind: str, dimension: int, source_dimension: int, obs: str, nb_events: int = 1, n_clusters: int = 2):
        self.kind = kind
        self.dimension = dimension
        self.source_dimension = source_dimension
        self.obs = obs
        self.nb_events = nb_events
        self.n_clusters = n_clusters

    @property
    def name(self):
        s = f"{self.kind}[d={self.dimension},s={self.source_dimension},{self.obs}"
        if self.kind == "joint":
            s += f",ev={self.nb_events}"
        if self.kind == "mixture_logistic":
            s += f",k={self.n_clusters}"
        return s + "]"

    def __repr__(self):
        return self.name


QUICK_CONFIGS = [
    Config("logistic", 4, 2, "gaussian-diagonal"),
    Config("logistic", 1, 0, "gaussian-scalar"),
    Config("logistic", 3, 1, "gaussian-scalar"),
    Config("logistic", 2, 1, "gaussian-scalar"),  # the largest number of sources a model can have (dimension - 1)
    Config("linear", 3, 1, "gaussian-diagonal"),
    Config("shared_speed_logistic", 3, 1, "gaussian-diagonal"),
    Config("logistic", 3, 1, "bernoulli"),
    Config("joint", 1, 0, "gaussian-scalar"),
    Config("joint", 3, 1, "gaussian-diagonal"),
    Config("mixture_logistic", 3, 1, "gaussian-diagonal", n_clusters=2),
]


def thorough_configs() -> List[Config]:
    out = []
    for kind in MODEL_KINDS:
        for dim, src in ((1, 0), (2, 0), (2, 1), (3, 0), (3, 1), (3, 2), (4, 2)):
            for obs in ("gaussian-scalar", "gaussian-diagonal", "bernoulli"):
                if kind == "mixture_logistic":
                    if dim == 1 or obs != "gaussian-diagonal":
                        continue
                    for k in (2, 3):
                        out.append(Config(kind, dim, src, obs, n_clusters=k))
                elif kind == "joint":
                    if obs == "bernoulli":
                        continue
                    if dim == 1 and obs != "gaussian-scalar":
                        continue
                    if dim > 1 and src == 0 and obs == "gaussian-diagonal":
                        # refused by the live code too (the joint model adds a second scalar-noise model: "Can not reset the variable 'y'")
                        continue
                    for ev in (1, 2):
                        out.append(Config(kind, dim, src, obs, nb_events=ev))
                else:
                    if dim == 1 and obs == "gaussian-diagonal":
                        continue
                    out.append(Config(kind, dim, src, obs))
    return out


class Node:
    __slots__ = ("name", "kind", "parents", "var")

    def __init__(self, name, kind, parents, var):
        self.name = name
        self.kind = kind  # class name of the variable: LinkedVariable, ModelParameter, ...
        self.parents = parents  # tuple of names (ordered)
        self.var = var  # symbolic Obj


class Graph:
    def __init__(self, cfg: Config, model: Obj, interp: "SpecInterp", nodes: Dict[str, Node]):
        self.cfg = cfg
        self.model = model
        self.interp = interp
        self.nodes = nodes
        self._anc = {}

    def by_kind(self, *kinds) -> List[Node]:
        return [n for n in self.nodes.values() if n.kind in kinds]

    def ancestors(self, name) -> set:
        if name in self._anc:
            return self._anc[name]
        out = set()
        todo = list(self.nodes[name].parents)
        while todo:
            p = todo.pop()
            if p in out:
                continue
            out.add(p)
            if p in self.nodes:
                todo.extend(self.nodes[p].parents)
        self._anc[name] = out
        return out

    def descendants(self, name) -> set:
        return {n for n in self.nodes if name in self.ancestors(n)}

    def topo_order(self) -> List[str]:
        out, seen, active = [], set(), set()

        def visit(k):
            if k in seen:
                return
            if k in active:
                raise AnalysisError("E3", f"cycle through {k} in {self.cfg}")
            active.add(k)
            for p in self.nodes[k].parents:
                if p in self.nodes:
                    visit(p)
            active.discard(k)
            seen.add(k)
            out.append(k)

        for k in self.nodes:
            visit(k)
        return out


class SpecInterp(Interp):
    """Interpreter with the summaries of the few reflective helpers of the DSL."""

    def __init__(self, ix: Index):
        super().__init__(ix)
        self.primitives[(FUNCTIONAL_UTILS, "get_named_parameters")] = _prim_get_named_parameters
        self._check_anchors()

    def _check_anchors(self):
        f = self.ix.try_func(FUNCTIONAL_UTILS, "get_named_parameters")
        if f is None:
            raise AnalysisError("E3", "anchor vanished: leaspy.utils.functional._utils.get_named_parameters")
        src = ast.unparse(f.node)
        for tok in ("isinstance(f, NamedInputFunction)", "f.parameters", "KEYWORD_ONLY", "signature(f)"):
            if tok not in src:
                raise AnalysisError("E3", f"anchor changed: get_named_parameters no longer contains `{tok}` (its summary may be wrong)")


def _prim_get_named_parameters(interp: Interp, fref, args, kw):
    f = args[0] if args else kw["f"]
    if isinstance(f, Obj) and f.cls == NIF:
        return tuple(f.attrs["parameters"])
    node = None
    skip = 0
    if isinstance(f, FuncRef):
        node = f.func.node
        if f.func.kind in ("method", "class") and f.bound is not None:
            skip = 1
        elif f.func.kind in ("method", "class") and f.bound is None:
            skip = 0
    elif isinstance(f, Closure):
        node = f.node
    if node is None:
        raise Unsupported(f"get_named_parameters of {f!r}")
    a = node.args
    pos = [p.arg for p in a.posonlyargs + a.args][skip:]
    if a.vararg:
        pos.append("*" + a.vararg.arg)
    if a.kwarg:
        pos.append("**" + a.kwarg.arg)
    if pos:
        raise PyRaise("ValueError", str(pos))
    return tuple(p.arg for p in a.kwonlyargs)


def make_model(I: Interp, cfg: Config) -> Obj:
    key = MODEL_KINDS[cfg.kind]
    if key not in I.ix.classes:
        raise AnalysisError("E3", f"anchor vanished: model class {key}")
    attrs = {
        "_dimension": cfg.dimension, "_features": None, "_name": cfg.kind,
        "_source_dimension": cfg.source_dimension, "source_dimension": cfg.source_dimension,
        "dimension": cfg.dimension, "features": None, "name": cfg.kind,
    }
    if cfg.kind == "joint":
        attrs["nb_events"] = cfg.nb_events
    if cfg.kind == "mixture_logistic":
        attrs["n_clusters"] = cfg.n_clusters
    m = Obj(key, attrs)
    fac = I.resolve_name("leaspy.models.obs_models._factory", "observation_model_factory")
    kw = {"dimension": cfg.dimension}
    if cfg.kind == "mixture_logistic":
        kw["n_clusters"] = cfg.n_clusters
    om = I.call(fac, [cfg.obs], kw)
    m.attrs["obs_models"] = (om,)
    if I.ix.method(key, "_configure_observation_models") is not None:
        I.call(I.getattr_(m, "_configure_observation_models"), [], {})
    return m


def build(ix: Index, cfg: Config, interp: Optional[SpecInterp] = None) -> Graph:
    I = interp or SpecInterp(ix)
    try:
        model = make_model(I, cfg)
        nv = I.call(I.getattr_(model, "get_variables_specs"), [], {})
        nodes: Dict[str, Node] = {}
        for name in I.iterate(nv):
            var = I.subscript(nv, name)
            if not isinstance(var, Obj):
                raise Unsupported(f"variable {name} of {cfg} is not a variable object: {var!r}")
            anc = I.call(I.getattr_(var, "get_ancestors_names"), [], {})
            nodes[name] = Node(name, var.cls[1], tuple(I.iterate(anc)), var)
    except Unsupported as e:
        raise AnalysisError("E3", f"cannot extract the variable graph of {cfg}: unsupported idiom: {e}")
    except PyRaise as e:
        raise AnalysisError("E3", f"the declarative layer raised for {cfg}: {e}")
    g = Graph(cfg, model, I, nodes)
    for n in nodes.values():
        for p in n.parents:
            if p not in nodes:
                raise AnalysisError("E3", f"{cfg}: variable {n.name} depends on undeclared variable {p}")
    return g


_GRAPH_CACHE: Dict[Tuple[str, str], Graph] = {}


def graphs(ctx, configs: Optional[List[Config]] = None) -> List[Graph]:
    """Graphs of the tier's configuration set (cached per index digest)."""
    if configs is None:
        configs = QUICK_CONFIGS if ctx.tier == "quick" else thorough_configs()
    out = []
    I = None
    for c in configs:
        k = (ctx.ix.digest + ctx.ix.repo + ctx.ix.serial, c.name)
        if k not in _GRAPH_CACHE:
            if I is None:
                I = SpecInterp(ctx.ix)
            _GRAPH_CACHE[k] = build(ctx.ix, c, I)
        out.append(_GRAPH_CACHE[k])
    ctx.extra["configurations"] = len(out)
    ctx.extra["configuration_names"] = [g.cfg.name for g in out][:80]
    return out


def nif_chain(I: Interp, f) -> List[tuple]:
    """Decompose the callable behind a variable into its base function + `.then` stages.

    Returns [(callable value, kwargs dict)], first the inner-most function."""
    out = []
    while True:
        if isinstance(f, Obj) and f.cls == NIF:
            inner = f.attrs["f"]
            kws = f.attrs.get("kws") or {}
            if isinstance(inner, Closure) and inner.node.name == "g_o_f":
                env = inner.env
                out.append((env["g"], dict(env.get("g_kws") or {})))
                f = env["self"]
                continue
            out.append((inner, dict(kws)))
            return out[::-1]
        out.append((f, {}))
        return out[::-1]


def base_functions(I: Interp, var: Obj) -> List[object]:
    """All callables (FuncRef / Ext / Closure) composed in the definition of a LinkedVariable."""
    return [c for c, _ in nif_chain(I, var.attrs["f"])]


def resolve_dist_method(I: Interp, f: FuncRef) -> FuncRef:
    return f


def all_linked_functions(ctx) -> Iterator[Tuple[str, str, Optional[Func]]]:
    """(configuration, variable, repository function) for every function composed into a derived variable."""
    for g in graphs(ctx):
        for n in g.by_kind("LinkedVariable"):
            for c in base_functions(g.interp, n.var):
                if isinstance(c, FuncRef):
                    yield g.cfg.name, n.name, c.func
                else:
                    yield g.cfg.name, n.name, None
