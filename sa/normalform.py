"""E5 - algebraic normal form of straight-line tensor expressions.

An expression tree (after inlining single-assignment locals) is mapped to a
sympy expression over *atoms*; indexing / broadcasting helpers are transparent
(shape-only); `log/exp/sigmoid/clamp/...` are uninterpreted function symbols
whose arguments are normalised recursively.  Two expressions are equal when
`cancel(together(a - b)) == 0`.  Only term rewriting (expand / together /
cancel) is used - no equation solving, no path exploration.
Floating-point rounding is outside its scope.
"""
from __future__ import annotations

import ast
import math
from typing import Callable, Dict, Optional

import sympy as sp

from .astq import U


class NFUnsupported(Exception):
    pass


F = {
    "log": sp.Function("log_"), "exp": sp.Function("exp_"), "sigmoid": sp.Function("sigmoid_"),
    "clamp": sp.Function("clamp_"), "where": sp.Function("where_"), "sqrt": sp.Function("sqrt_"),
    "abs": sp.Function("abs_"), "sum": sp.Function("sum_"), "mean": sp.Function("mean_"),
    "gt0": sp.Function("gt0_"), "ones_like": sp.Function("ones_like_"), "randn": sp.Function("randn_"),
    "rand": sp.Function("rand_"), "float": sp.Function("float_"),
}
TORCH_FUN = {"torch.log": "log", "torch.exp": "exp", "torch.sigmoid": "sigmoid", "torch.sqrt": "sqrt", "torch.abs": "abs",
             "math.log": "log", "math.exp": "exp", "math.sqrt": "sqrt", "np.log": "log", "np.exp": "exp", "np.sqrt": "sqrt"}
# shape-only helpers: the value of the first argument passes through unchanged
TRANSPARENT_CALLS = {"unsqueeze_right", "unsqueeze_left", "expand_left", "expand_right", "torch.tensor", "torch.as_tensor", "float", "torch.Tensor"}
TRANSPARENT_METHODS = {"unsqueeze", "squeeze", "float", "double", "to", "expand", "view", "reshape", "clone", "detach", "contiguous", "expand_as", "t", "item"}
TRANSPARENT_ATTRS = {"value", "weighted_value", "T", "data"}


def sym(name: str) -> sp.Symbol:
    return sp.Symbol(name.replace(".", "_").replace("[", "_").replace("]", "_").replace("'", "").replace('"', ""), real=True)


class Normalizer:
    def __init__(self, env: Optional[Dict[str, object]] = None, call_hook: Optional[Callable] = None, attr_hook: Optional[Callable] = None,
                 name_hook: Optional[Callable] = None):
        self.env = dict(env or {})
        self.call_hook = call_hook
        self.attr_hook = attr_hook
        self.name_hook = name_hook

    def __call__(self, e: ast.AST):
        return self.tosym(e)

    def tosym(self, e: ast.AST):
        if isinstance(e, ast.Constant):
            if isinstance(e.value, bool):
                return sp.Integer(int(e.value))
            if isinstance(e.value, (int, float)):
                return sp.nsimplify(e.value, rational=True)
            if e.value is None or e.value is Ellipsis:
                return sp.Symbol(repr(e.value))
            raise NFUnsupported(f"constant {e.value!r}")
        if isinstance(e, ast.Name):
            if e.id in self.env:
                return self.env[e.id]
            if self.name_hook:
                r = self.name_hook(e.id)
                if r is not None:
                    return r
            return sym(e.id)
        if isinstance(e, ast.Attribute):
            s = U(e)
            if s in self.env:
                return self.env[s]
            if self.attr_hook:
                r = self.attr_hook(e)
                if r is not None:
                    return r
            if s in ("math.pi", "np.pi", "torch.pi"):
                return sp.pi
            if e.attr in TRANSPARENT_ATTRS:
                return self.tosym(e.value)
            return sym(s)
        if isinstance(e, ast.Subscript):
            s = U(e)
            if s in self.env:
                return self.env[s]
            return self.tosym(e.value)  # indexing / broadcasting is shape-only
        if isinstance(e, ast.BinOp):
            a, b = self.tosym(e.left), self.tosym(e.right)
            if isinstance(e.op, ast.Add):
                return a + b
            if isinstance(e.op, ast.Sub):
                return a - b
            if isinstance(e.op, ast.Mult):
                return a * b
            if isinstance(e.op, ast.Div):
                return a / b
            if isinstance(e.op, ast.Pow):
                return a ** b
            raise NFUnsupported(f"operator {type(e.op).__name__}")
        if isinstance(e, ast.UnaryOp):
            if isinstance(e.op, ast.USub):
                return -self.tosym(e.operand)
            if isinstance(e.op, ast.UAdd):
                return self.tosym(e.operand)
            raise NFUnsupported("unary operator")
        if isinstance(e, ast.Call):
            if self.call_hook:
                r = self.call_hook(self, e)
                if r is not None:
                    return r
            f = U(e.func)
            if f in TORCH_FUN:
                return F[TORCH_FUN[f]](*[self.tosym(a) for a in e.args])
            if f in ("torch.square",):
                return self.tosym(e.args[0]) ** 2
            if f in ("torch.pow",):
                return self.tosym(e.args[0]) ** self.tosym(e.args[1])
            if f in ("torch.clamp",):
                kw = {k.arg: k.value for k in e.keywords}
                lo = e.args[1] if len(e.args) > 1 else kw.get("min")
                hi = e.args[2] if len(e.args) > 2 else kw.get("max")
                return F["clamp"](self.tosym(e.args[0]), self.tosym(lo) if lo is not None else sp.Symbol("None"),
                                  self.tosym(hi) if hi is not None else sp.Symbol("None"))
            if f == "torch.where":
                return F["where"](*[self.tosym(a) for a in e.args])
            if f in ("torch.ones_like",):
                return sp.Integer(1)
            if f in ("torch.zeros_like", "torch.zeros"):
                return sp.Integer(0)
            if f in ("torch.ones",):
                return sp.Integer(1)
            if f in TRANSPARENT_CALLS and e.args:
                return self.tosym(e.args[0])
            if f == "WeightedTensor" and e.args:
                return self.tosym(e.args[0])
            if isinstance(e.func, ast.Attribute):
                m = e.func.attr
                if m in TRANSPARENT_METHODS:
                    return self.tosym(e.func.value)
                if m in ("log", "exp", "sigmoid", "sqrt", "abs"):
                    return F[m](self.tosym(e.func.value))
                if m in ("square",):
                    return self.tosym(e.func.value) ** 2
                if m in ("pow",):
                    return self.tosym(e.func.value) ** self.tosym(e.args[0])
            raise NFUnsupported(f"call {f}")
        if isinstance(e, ast.IfExp):
            raise NFUnsupported("conditional expression")
        raise NFUnsupported(f"{type(e).__name__}: {U(e)[:60]}")


def is_zero(x) -> bool:
    try:
        d = sp.cancel(sp.together(sp.expand(x)))
    except Exception:
        d = sp.simplify(x)
    return d == 0


def equal(a, b) -> bool:
    return is_zero(a - b)


def fold_constants(e: ast.AST):
    """Numerical value of a closed expression (literals, math.pi, torch.tensor(literal), torch.log/exp of such)."""
    if isinstance(e, ast.Constant) and isinstance(e.value, (int, float)):
        return float(e.value)
    if isinstance(e, ast.Attribute) and U(e) in ("math.pi", "np.pi", "torch.pi"):
        return math.pi
    if isinstance(e, ast.BinOp):
        a, b = fold_constants(e.left), fold_constants(e.right)
        if a is None or b is None:
            return None
        try:
            return {ast.Add: a + b, ast.Sub: a - b, ast.Mult: a * b, ast.Div: a / b if b else None, ast.Pow: a ** b}.get(type(e.op))
        except Exception:
            return None
    if isinstance(e, ast.UnaryOp) and isinstance(e.op, ast.USub):
        v = fold_constants(e.operand)
        return None if v is None else -v
    if isinstance(e, ast.Call):
        f = U(e.func)
        if f in ("torch.tensor", "float", "torch.as_tensor") and e.args:
            return fold_constants(e.args[0])
        if f in ("torch.log", "math.log", "np.log") and e.args:
            v = fold_constants(e.args[0])
            return math.log(v) if v and v > 0 else None
        if f in ("torch.exp", "math.exp", "np.exp") and e.args:
            v = fold_constants(e.args[0])
            return math.exp(v) if v is not None else None
        if f in ("torch.sqrt", "math.sqrt", "np.sqrt") and e.args:
            v = fold_constants(e.args[0])
            return math.sqrt(v) if v is not None and v >= 0 else None
    return None


def sym_exec(stmts, nz: Normalizer):
    """Symbolically execute straight-line assignments (incl. augmented ones), updating nz.env. Returns nz.env."""
    for st in stmts:
        if isinstance(st, ast.Assign) and len(st.targets) == 1 and isinstance(st.targets[0], ast.Name):
            nz.env[st.targets[0].id] = nz.tosym(st.value)
        elif isinstance(st, ast.AnnAssign) and isinstance(st.target, ast.Name) and st.value is not None:
            nz.env[st.target.id] = nz.tosym(st.value)
        elif isinstance(st, ast.AugAssign) and isinstance(st.target, ast.Name):
            cur = nz.env.get(st.target.id, sym(st.target.id))
            v = nz.tosym(st.value)
            if isinstance(st.op, ast.Add):
                cur = cur + v
            elif isinstance(st.op, ast.Sub):
                cur = cur - v
            elif isinstance(st.op, ast.Mult):
                cur = cur * v
            elif isinstance(st.op, ast.Div):
                cur = cur / v
            elif isinstance(st.op, ast.Pow):
                cur = cur ** v
            else:
                raise NFUnsupported(f"augmented operator {type(st.op).__name__}")
            nz.env[st.target.id] = cur
        elif isinstance(st, ast.Expr) and isinstance(st.value, ast.Constant):
            continue
        else:
            return nz.env
    return nz.env


class GuardUnsupported(Exception):
    pass


def eval_guard(e: ast.AST, subst, call_hook=None):
    """Evaluate a guard expression (comparisons, and/or/not, + - * // % on numbers) under a substitution
    `subst`: normalised source text of a sub-expression -> number | bool | None.  No names are looked up elsewhere."""
    t = U(e)
    if t in subst:
        return subst[t]
    if isinstance(e, ast.Constant):
        return e.value
    if isinstance(e, ast.BoolOp):
        vals = [eval_guard(v, subst, call_hook) for v in e.values]
        return any(vals) if isinstance(e.op, ast.Or) else all(vals)
    if isinstance(e, ast.UnaryOp):
        v = eval_guard(e.operand, subst, call_hook)
        if isinstance(e.op, ast.Not):
            return not v
        if isinstance(e.op, ast.USub):
            return -v
    if isinstance(e, ast.BinOp):
        a, b = eval_guard(e.left, subst, call_hook), eval_guard(e.right, subst, call_hook)
        import operator as o
        ops = {ast.Add: o.add, ast.Sub: o.sub, ast.Mult: o.mul, ast.Div: o.truediv, ast.FloorDiv: o.floordiv, ast.Mod: o.mod, ast.Pow: o.pow}
        if type(e.op) in ops:
            return ops[type(e.op)](a, b)
    if isinstance(e, ast.Compare):
        import operator as o
        ops = {ast.Lt: o.lt, ast.LtE: o.le, ast.Gt: o.gt, ast.GtE: o.ge, ast.Eq: o.eq, ast.NotEq: o.ne,
               ast.Is: lambda a, b: a is b, ast.IsNot: lambda a, b: a is not b}
        l = eval_guard(e.left, subst, call_hook)
        for op, c in zip(e.ops, e.comparators):
            r = eval_guard(c, subst, call_hook)
            if type(op) not in ops:
                raise GuardUnsupported(U(e))
            if not ops[type(op)](l, r):
                return False
            l = r
        return True
    if isinstance(e, ast.Call) and call_hook is not None:
        r = call_hook(e)
        if r is not NotImplemented:
            return r
    if isinstance(e, ast.IfExp):
        return eval_guard(e.body if eval_guard(e.test, subst, call_hook) else e.orelse, subst, call_hook)
    raise GuardUnsupported(t)


def numeric_constants(e: ast.AST):
    return [abs(n.value) for n in ast.walk(e) if isinstance(n, ast.Constant) and isinstance(n.value, (int, float)) and not isinstance(n.value, bool)]


# ------------------------------------------------------------- symbolic evaluation of straight-line functions
CMP = {ast.Gt: "gt", ast.GtE: "ge", ast.Lt: "lt", ast.LtE: "le", ast.Eq: "eq", ast.NotEq: "ne"}


class SymEval:
    """Evaluate straight-line tensor functions to sympy expressions, inlining calls to methods of one concrete class
    (resolved through the index / MRO) and to module-level functions of the repository.  No branching: an `if` in an
    inlined body is an unsupported idiom (NFUnsupported)."""

    def __init__(self, ix, cls=None, atoms=None, max_depth=8):
        self.ix = ix
        self.cls = cls
        self.atoms = dict(atoms or {})  # source text -> sympy value (e.g. 'x.value' -> x)
        self.max_depth = max_depth

    def call(self, func, args, kwargs=None, depth=0):
        """func: index Func; args: list of sympy values (already without cls/self)."""
        if depth > self.max_depth:
            raise NFUnsupported("call depth")
        node = func.node
        a = node.args
        params = [p.arg for p in a.posonlyargs + a.args]
        if func.kind in ("class", "method") and params and params[0] in ("cls", "self"):
            params = params[1:]
        env = {}
        args = list(args)
        for i, p in enumerate(params):
            if i < len(args):
                env[p] = args[i]
            elif kwargs and p in kwargs:
                env[p] = kwargs[p]
            else:
                d = a.defaults[i - (len(params) - len(a.defaults))] if i >= len(params) - len(a.defaults) else None
                if d is None:
                    raise NFUnsupported(f"missing argument {p} of {func.qual}")
                env[p] = self._nz(env, func, depth).tosym(d)
        if a.vararg:
            env["*" + a.vararg.arg] = tuple(args[len(params):])
        for p in a.kwonlyargs:
            if kwargs and p.arg in kwargs:
                env[p.arg] = kwargs[p.arg]
        return self.body(func, env, depth)

    def _nz(self, env, func, depth):
        ev = self

        def hook(nz, e):
            f = e.func
            # cls.method(...) / self.method(...) / ClassName.method(...)
            if isinstance(f, ast.Attribute) and isinstance(f.value, ast.Name) and f.value.id in ("cls", "self") and ev.cls is not None:
                m = ev.ix.method(ev.cls, f.attr)
                if m is not None:
                    return ev.call(m, ev._args(nz, e, env), ev._kwargs(nz, e), depth + 1)
            if isinstance(f, ast.Name):
                r = ev.ix.lookup(func.mod, f.id)
                if r and r[0] == "def" and isinstance(r[2], ast.FunctionDef):
                    return ev.call(ev.ix.funcs[(r[1], r[2].name)], ev._args(nz, e, env), ev._kwargs(nz, e), depth + 1)
            return None

        class N(Normalizer):
            def tosym(self, e):
                t = U(e)
                if t in ev.atoms:
                    return ev.atoms[t]
                if isinstance(e, ast.Compare) and len(e.ops) == 1 and type(e.ops[0]) in CMP:
                    return sp.Function("cmp_" + CMP[type(e.ops[0])])(self.tosym(e.left), self.tosym(e.comparators[0]))
                if isinstance(e, ast.Tuple):
                    return tuple(self.tosym(x) for x in e.elts)
                if isinstance(e, ast.Subscript) and isinstance(e.value, ast.Call):
                    v = self.tosym(e.value)
                    if isinstance(v, tuple) and isinstance(e.slice, ast.Constant):
                        return v[e.slice.value]
                return super().tosym(e)

        return N(env, call_hook=hook)

    def _args(self, nz, e, env):
        out = []
        for a_ in e.args:
            if isinstance(a_, ast.Starred):
                v = env.get("*" + U(a_.value))
                if v is None:
                    raise NFUnsupported(f"starred argument {U(a_)}")
                out.extend(v)
            else:
                out.append(nz.tosym(a_))
        return out

    def _kwargs(self, nz, e):
        return {k.arg: nz.tosym(k.value) for k in e.keywords if k.arg}

    def body(self, func, env, depth):
        nz = self._nz(env, func, depth)
        for st in func.node.body:
            if isinstance(st, ast.Expr) and isinstance(st.value, ast.Constant):
                continue
            if isinstance(st, ast.Assign) and len(st.targets) == 1:
                v = nz.tosym(st.value)
                t = st.targets[0]
                if isinstance(t, ast.Name):
                    nz.env[t.id] = v
                elif isinstance(t, ast.Tuple) and isinstance(v, tuple) and len(v) == len(t.elts):
                    for tt, vv in zip(t.elts, v):
                        if isinstance(tt, ast.Name):
                            nz.env[tt.id] = vv
                else:
                    raise NFUnsupported(f"assignment {U(st)[:60]}")
            elif isinstance(st, ast.AnnAssign) and isinstance(st.target, ast.Name) and st.value is not None:
                nz.env[st.target.id] = nz.tosym(st.value)
            elif isinstance(st, ast.Return):
                return nz.tosym(st.value)
            elif isinstance(st, (ast.Pass, ast.Import, ast.ImportFrom)):
                continue
            else:
                raise NFUnsupported(f"statement {type(st).__name__} in {func.qual}")
        return None


def method_inline_hook(ix, cls, depth_limit: int = 4):
    """call_hook for Normalizer: `cls.m(...)` / `self.m(...)` on a method of `cls` (through the MRO) whose body is straight-line with one
    return is replaced by the normal form of what it returns, its parameters bound to the normal forms of the arguments.  Also the
    method form of clamp (`x.clamp(min=a)`)."""
    from .astq import Inliner, statements

    def hook(nz, e, depth=[0]):
        if isinstance(e.func, ast.Attribute) and e.func.attr in ("clamp", "clip"):
            kw = {k.arg: k.value for k in e.keywords}
            lo = e.args[0] if len(e.args) > 0 else kw.get("min")
            hi = e.args[1] if len(e.args) > 1 else kw.get("max")
            return F["clamp"](nz.tosym(e.func.value), nz.tosym(lo) if lo is not None else sp.Symbol("None"), nz.tosym(hi) if hi is not None else sp.Symbol("None"))
        if not (isinstance(e.func, ast.Attribute) and isinstance(e.func.value, ast.Name) and e.func.value.id in ("cls", "self")):
            return None
        m = ix.method(cls, e.func.attr) if cls is not None else None
        if m is None or depth[0] >= depth_limit:
            return None
        rets = [s for s in statements(m.node) if isinstance(s, ast.Return) and s.value is not None]
        if len(rets) != 1 or any(isinstance(s, (ast.If, ast.For, ast.While, ast.Try)) for s in statements(m.node)):
            raise NFUnsupported(f"helper {m.qual} is not straight-line")
        params = [p.arg for p in m.node.args.args]
        if m.kind in ("method", "class") and params:
            params = params[1:]
        env = {}
        for p_, a_ in zip(params, e.args):
            env[p_] = nz.tosym(a_)
        names = set(params) | {p.arg for p in m.node.args.kwonlyargs}
        for k in e.keywords:
            if k.arg in names:
                env[k.arg] = nz.tosym(k.value)
        # class constants referenced as cls.NAME
        consts = {}
        for k_ in ix.mro(cls):
            if k_ not in ix.classes:
                continue  # external base (ABC, ...)
            for b in ix.classes[k_].body:
                if isinstance(b, (ast.Assign, ast.AnnAssign)):
                    tg = b.targets[0] if isinstance(b, ast.Assign) else b.target
                    if isinstance(tg, ast.Name) and getattr(b, "value", None) is not None and tg.id not in consts:
                        v = fold_constants(b.value)
                        if v is not None:
                            consts[tg.id] = v
        depth[0] += 1
        try:
            class N2(Normalizer):
                def tosym(self, x):
                    t = U(x)
                    if isinstance(x, ast.Attribute) and isinstance(x.value, ast.Name) and x.value.id in ("cls", "self") and x.attr in consts:
                        return sp.Float(consts[x.attr]) if consts[x.attr] != int(consts[x.attr]) else sp.Integer(int(consts[x.attr]))
                    return super().tosym(x)
            return N2(env, call_hook=hook)(Inliner(m.node).resolve(rets[0].value))
        finally:
            depth[0] -= 1
    return hook
