"""E2 - whole-package call graph with receiver-type resolution, and effect summaries.

Resolution order for a call site (DESIGN 4/E2):
  1. plain names through the import table (functions, classes -> constructor chain);
  2. self.m / cls.m / super().m / Class.m through the MRO, with dynamic dispatch to every override
     in subclasses of the static receiver class;
  3. attribute calls on a receiver whose class is known: parameter / attribute annotations,
     constructor calls, property return annotations, `.clone(` of a typed value, and - where the
     code is not annotated - the repository's naming convention table NAME_TYPES (confirmed by reading);
  4. the frozen table of indirect call sites (INDIRECT) with their target sets;
  5. receivers rooted at an external module alias are external.
What is left is *unresolved* and reported as such (never silently dropped).
"""
from __future__ import annotations

import ast
from typing import Dict, Iterable, List, Optional, Set, Tuple

from .astq import U, statements, store_targets
from .index import AnalysisError, ClassKey, Func, Index, attr_chain, root_name, walk_no_nested

EXT_ROOTS = {"torch", "np", "numpy", "pd", "pandas", "plt", "os", "json", "warnings", "math", "time", "re", "sm", "copy", "csv", "shutil", "sys",
             "inspect", "operator", "functools", "cm", "colormaps", "scipy", "stats", "matplotlib", "mpl", "joblib", "itertools", "collections", "random",
             "Path", "pathlib", "statsmodels", "lifelines", "bisect", "datetime", "logging", "typing", "abc", "enum", "dataclasses", "contextlib", "sns",
             "Parallel", "delayed", "minimize", "beta", "gaussian_kde", "string", "textwrap", "pprint", "gc", "platform", "importlib", "pkg_resources", "tqdm"}
# naming conventions of this repository (receiver variable / attribute name -> class), used only when no annotation is available
NAME_TYPES = {
    "state": "State", "local_state": "State", "model_state": "State", "cloned": "State", "_state": "State",
    "dataset": "Dataset", "data": "Data", "model": "McmcSaemCompatibleModel", "dag": "VariablesDAG",
    "settings": "AlgorithmSettings", "algo_settings": "AlgorithmSettings", "algorithm_settings": "AlgorithmSettings",
    "algorithm": "BaseAlgorithm", "algo": "BaseAlgorithm", "sampler": "AbstractSampler", "output_manager": "FitOutputManager",
    "individual_parameters": "IndividualParameters", "ips": "IndividualParameters", "ip": "IndividualParameters",
    "outputs": "OutputsSettings", "output_settings": "OutputsSettings", "logs": "OutputsSettings", "reader": "AbstractDataframeDataReader",
    "obs_model": "ObservationModel", "individual": "IndividualData", "idata": "IndividualData",
}
# methods whose name collides with ubiquitous external methods: never resolved by name alone
COMMON_EXTERNAL = {"get", "items", "keys", "values", "append", "extend", "update", "pop", "copy", "format", "join", "split", "strip", "replace", "sum", "mean",
                   "std", "to", "float", "item", "tolist", "any", "all", "min", "max", "abs", "sqrt", "exp", "log", "clone", "view", "expand", "unsqueeze",
                   "squeeze", "reshape", "size", "dim", "index", "count", "sort", "add", "remove", "insert", "write", "read", "close", "flush", "lower", "upper",
                   "startswith", "endswith", "astype", "isnull", "dropna", "groupby", "reset_index", "set_index", "rename", "drop", "round", "unique", "title",
                   "setdefault", "discard", "union", "difference", "savefig", "plot", "legend", "subplots", "fit", "predict", "stack", "apply", "map", "filter",
                   "seed", "shape", "T", "call", "run", "load", "save", "sample", "name", "value", "parameters", "validate"}


class Site:
    __slots__ = ("func", "node", "targets", "kind", "note")

    def __init__(self, func: Func, node: ast.Call, targets: List[Func], kind: str, note: str = ""):
        self.func = func
        self.node = node
        self.targets = targets
        self.kind = kind  # exact | typed | indirect | byname | external | unresolved | builtin
        self.note = note

    def __repr__(self):
        return f"<Site {self.func.qual}:{self.node.lineno} {U(self.node.func)[:40]} {self.kind}>"


class CallGraph:
    def __init__(self, ix: Index, indirect: Optional[Dict[str, list]] = None, linked: Optional[List[Func]] = None,
                 update_rules: Optional[List[Func]] = None):
        self.ix = ix
        self.linked = list(linked or [])
        self.update_rules = list(update_rules or [])
        # distribution-family methods that can be requested symbolically: literal names handed to SymbolicDistribution.get_func(...)
        # anywhere in the package + the by-pass methods bound in SymbolicDistribution.__post_init__ (never `sample`: see prior_sampling_sites)
        requested = set()
        for m in ix.mods.values():
            for c in ast.walk(m.tree):
                if isinstance(c, ast.Call) and isinstance(c.func, ast.Attribute) and c.func.attr == "get_func" and c.args and isinstance(c.args[0], ast.Constant):
                    requested.add(c.args[0].value)
                if isinstance(c, ast.For) and isinstance(c.iter, ast.Set) and isinstance(c.target, ast.Name) and c.target.id == "bypass_method":
                    requested |= {e.value for e in c.iter.elts if isinstance(e, ast.Constant)}
        requested.discard("sample")
        self.dist_methods = [f for f in ix.iter_funcs() if f.cls is not None and f.mod == "leaspy.variables.distributions"
                             and any(k[1] == "StatelessDistributionFamily" for k in ix.mro(f.cls)) and f.name in requested]
        self.sites: Dict[Tuple[str, str], List[Site]] = {}
        self._attr_types: Dict[Tuple[ClassKey, str], Optional[ClassKey]] = {}
        self._class_by_name: Dict[str, List[ClassKey]] = {}
        for k in ix.classes:
            self._class_by_name.setdefault(k[1], []).append(k)
        self.indirect = indirect or {}
        for f in ix.iter_funcs():
            self.sites[f.key] = self._sites_of(f)

    # ------------------------------------------------------------ type inference
    def cls_named(self, name: str) -> Optional[ClassKey]:
        c = self._class_by_name.get(name)
        return c[0] if c and len(c) == 1 else None

    def ann_class(self, modname: str, ann: Optional[ast.AST]) -> Optional[ClassKey]:
        if ann is None:
            return None
        if isinstance(ann, ast.Constant) and isinstance(ann.value, str):
            try:
                ann = ast.parse(ann.value, mode="eval").body
            except SyntaxError:
                return None
        if isinstance(ann, ast.Subscript):
            base = U(ann.value)
            if base in ("Optional", "typing.Optional", "Type", "type"):
                return self.ann_class(modname, ann.slice)
            if base in ("Union", "typing.Union") and isinstance(ann.slice, ast.Tuple):
                for e in ann.slice.elts:
                    k = self.ann_class(modname, e)
                    if k:
                        return k
                return None
            return self.ann_class(modname, ann.value)
        if isinstance(ann, ast.BinOp) and isinstance(ann.op, ast.BitOr):
            return self.ann_class(modname, ann.left) or self.ann_class(modname, ann.right)
        k = self.ix.resolve_class(modname, ann)
        if k is None and isinstance(ann, ast.Name):
            k = self.cls_named(ann.id)  # annotation under TYPE_CHECKING / `from __future__ import annotations`
        return k

    def attr_type(self, cls: ClassKey, attr: str) -> Optional[ClassKey]:
        key = (cls, attr)
        if key in self._attr_types:
            return self._attr_types[key]
        self._attr_types[key] = None
        res = None
        for k in self.ix.mro(cls):
            cn = self.ix.classes.get(k)
            if cn is None:
                continue
            for n in cn.body:
                if isinstance(n, ast.AnnAssign) and isinstance(n.target, ast.Name) and n.target.id == attr:
                    res = res or self.ann_class(k[0], n.annotation)
                if isinstance(n, ast.FunctionDef) and n.name == attr and any(ast.unparse(d) == "property" for d in n.decorator_list):
                    res = res or self.ann_class(k[0], n.returns)
                if isinstance(n, ast.FunctionDef):
                    for st in walk_no_nested(n):
                        if isinstance(st, ast.AnnAssign) and U(st.target) == f"self.{attr}":
                            res = res or self.ann_class(k[0], st.annotation)
                        elif isinstance(st, ast.Assign) and any(U(t) == f"self.{attr}" for t in st.targets) and isinstance(st.value, ast.Call):
                            res = res or self.ix.resolve_class(k[0], st.value.func)
            if res:
                break
        if res is None and attr in NAME_TYPES:
            res = self.cls_named(NAME_TYPES[attr])
        self._attr_types[key] = res
        return res

    def local_types(self, f: Func) -> Dict[str, ClassKey]:
        env: Dict[str, ClassKey] = {}
        a = f.node.args
        for p in a.posonlyargs + a.args + a.kwonlyargs:
            k = self.ann_class(f.mod, p.annotation)
            if k:
                env[p.arg] = k
        if f.cls is not None and a.args and f.kind in ("method", "property"):
            env[a.args[0].arg] = f.cls
        for _ in range(2):
            for st in statements(f.node):
                tgt, val = None, None
                if isinstance(st, ast.Assign) and len(st.targets) == 1 and isinstance(st.targets[0], ast.Name):
                    tgt, val = st.targets[0].id, st.value
                elif isinstance(st, ast.AnnAssign) and isinstance(st.target, ast.Name):
                    k = self.ann_class(f.mod, st.annotation)
                    if k:
                        env[st.target.id] = k
                    continue
                elif isinstance(st, (ast.With,)):
                    for it in st.items:
                        if isinstance(it.optional_vars, ast.Name):
                            k = self.expr_type(it.context_expr, f, env)
                            if k:
                                env[it.optional_vars.id] = k
                    continue
                if tgt and tgt not in env:
                    k = self.expr_type(val, f, env)
                    if k:
                        env[tgt] = k
        return env

    def expr_type(self, e: ast.AST, f: Func, env: Dict[str, ClassKey]) -> Optional[ClassKey]:
        if isinstance(e, ast.Name):
            if e.id in env:
                return env[e.id]
            if e.id in ("self",) and f.cls:
                return f.cls
            if e.id in NAME_TYPES and self.ix.lookup(f.mod, e.id) is None:
                return self.cls_named(NAME_TYPES[e.id])
            return None
        if isinstance(e, ast.NamedExpr):
            return self.expr_type(e.value, f, env)
        if isinstance(e, ast.Attribute):
            bt = self.expr_type(e.value, f, env)
            if bt is not None:
                t = self.attr_type(bt, e.attr)
                if t:
                    return t
            if e.attr in NAME_TYPES:
                return self.cls_named(NAME_TYPES[e.attr])
            return None
        if isinstance(e, ast.Call):
            k = self.ix.resolve_class(f.mod, e.func)
            if k:
                return k
            if isinstance(e.func, ast.Attribute):
                bt = self.expr_type(e.func.value, f, env)
                if bt is not None:
                    m = self.ix.method(bt, e.func.attr)
                    if m is not None:
                        rk = self.ann_class(m.mod, m.node.returns)
                        if rk:
                            return rk
                        if e.func.attr in ("clone", "copy", "to", "subset"):
                            return bt
            if isinstance(e.func, ast.Name):
                r = self.ix.lookup(f.mod, e.func.id)
                if r and r[0] == "def" and isinstance(r[2], ast.FunctionDef):
                    return self.ann_class(r[1], r[2].returns)
            return None
        if isinstance(e, ast.Subscript):
            bt0 = self.expr_type(e.value, f, env)
            if bt0 is not None:
                gi = self.ix.method(bt0, "__getitem__")
                if gi is not None:
                    rk = self.ann_class(gi.mod, gi.node.returns)
                    if rk:
                        return rk
            # dict-of-samplers etc.: self.samplers[v] -> AbstractSampler via annotation dict[str, AbstractSampler]
            if isinstance(e.value, ast.Attribute):
                bt = self.expr_type(e.value.value, f, env)
                if bt is not None:
                    for k in self.ix.mro(bt):
                        cn = self.ix.classes.get(k)
                        if cn is None:
                            continue
                        for n in ast.walk(cn):
                            if isinstance(n, ast.AnnAssign) and U(n.target) in (e.value.attr, f"self.{e.value.attr}") and isinstance(n.annotation, ast.Subscript) \
                                    and U(n.annotation.value) in ("dict", "Dict", "list", "List", "tuple", "Tuple") :
                                sl = n.annotation.slice
                                last = sl.elts[-1] if isinstance(sl, ast.Tuple) else sl
                                kk = self.ann_class(k[0], last)
                                if kk:
                                    return kk
            return None
        return None

    # ------------------------------------------------------------- resolution
    def _ctor_targets(self, k: ClassKey) -> List[Func]:
        out = []
        for name in ("__init__", "__post_init__", "__new__"):
            m = self.ix.method(k, name)
            if m is not None:
                out.append(m)
        return out

    def _super_targets(self, f: Func, name: str) -> List[Func]:
        out, seen = [], set()
        for sub in self.ix.subclasses(f.cls):
            m = self.ix.method(sub, name, after=f.cls) if f.cls in self.ix.mro(sub) else None
            if m is not None and m.key not in seen:
                seen.add(m.key)
                out.append(m)
        return out

    def _sites_of(self, f: Func) -> List[Site]:
        out = []
        env = None
        for c in sorted((n for n in ast.walk(f.node) if isinstance(n, ast.Call)), key=lambda x: (x.lineno, x.col_offset)):
            fn = c.func
            key = f"{f.mod}::{f.qual}::{U(fn)}"
            if key in self.indirect:
                out.append(Site(f, c, list(self.indirect[key]), "indirect"))
                continue
            if isinstance(fn, ast.Name):
                r = self.ix.lookup(f.mod, fn.id)
                # local closure ?
                local = [n for n in ast.walk(f.node) if isinstance(n, (ast.FunctionDef, ast.Lambda)) and getattr(n, "name", None) == fn.id and n is not f.node]
                if local:
                    out.append(Site(f, c, [], "builtin", "local closure (analysed as part of the enclosing function)"))
                elif fn.id in ("cls", "self") and f.cls is not None and fn.id in _param_names(f):
                    tg = []
                    for sub in self.ix.subclasses(f.cls):
                        tg += [t for t in self._ctor_targets(sub) if t not in tg]
                    out.append(Site(f, c, tg, "exact", "constructor of the own class hierarchy"))
                elif self._dsl_value(f, fn.id) is not None:
                    out.append(Site(f, c, self._dsl_value(f, fn.id), "indirect", "callable parameter of the functional DSL"))
                elif r is None:
                    out.append(Site(f, c, [], "unresolved" if fn.id not in _param_names(f) else "unresolved", "callable parameter / unknown name"))
                elif r[0] == "ext":
                    out.append(Site(f, c, [], "external", r[1]))
                elif r[0] == "def" and isinstance(r[2], (ast.FunctionDef, ast.AsyncFunctionDef)):
                    out.append(Site(f, c, [self.ix.funcs[(r[1], r[2].name)]], "exact"))
                elif r[0] == "def" and isinstance(r[2], ast.ClassDef):
                    out.append(Site(f, c, self._ctor_targets((r[1], r[2].name)), "exact", "constructor"))
                elif r[0] == "def" and self._is_dsl_factory(r[2]):
                    out.append(Site(f, c, [], "external", "DSL factory (NamedInputFunction / SymbolicDistribution .bound_to): builds a symbolic object, no effect"))
                elif r[0] == "def":
                    out.append(Site(f, c, [], "unresolved", f"module-level callable object {fn.id}"))
                else:
                    out.append(Site(f, c, [], "external", str(r)))
                continue
            if isinstance(fn, ast.Attribute):
                recv = fn.value
                name = fn.attr
                # super().m
                if isinstance(recv, ast.Call) and isinstance(recv.func, ast.Name) and recv.func.id == "super" and f.cls is not None:
                    out.append(Site(f, c, self._super_targets(f, name), "exact", "super()"))
                    continue
                root = root_name(recv)
                if root in EXT_ROOTS and self.ix.lookup(f.mod, root) is not None and self.ix.lookup(f.mod, root)[0] in ("ext",):
                    out.append(Site(f, c, [], "external", U(fn)))
                    continue
                # Class.m / module.func
                k = self.ix.resolve_class(f.mod, recv)
                if k is not None:
                    m = self.ix.method(k, name)
                    if m is not None:
                        tg = [m] if m.kind in ("static",) else self.ix.overrides(k, name) if m.kind == "class" else [m]
                        out.append(Site(f, c, tg, "exact"))
                        continue
                    if self.ix.is_enum(k):
                        out.append(Site(f, c, [], "builtin", "enum"))
                        continue
                mod = self.ix.resolve_dotted_module(f.mod, recv)
                if mod is not None:
                    r = self.ix.lookup(mod, name)
                    if r and r[0] == "def" and isinstance(r[2], ast.FunctionDef):
                        out.append(Site(f, c, [self.ix.funcs[(r[1], r[2].name)]], "exact"))
                        continue
                # self / cls
                if isinstance(recv, ast.Name) and recv.id in ("self", "cls") and f.cls is not None:
                    tg = self.ix.overrides(f.cls, name)
                    if not tg:
                        m = self.ix.method(f.cls, name)
                        tg = [m] if m else []
                    if tg:
                        out.append(Site(f, c, tg, "exact", "self/cls dispatch"))
                        continue
                    # attribute holding a callable (self.f(...)) or method of an external base
                    dsl = self._dsl_attr(f, name)
                    if dsl is not None:
                        out.append(Site(f, c, dsl, "indirect", f"self.{name}: callable stored by the functional DSL"))
                        continue
                    ca = self.ix.class_member(f.cls, name)
                    if ca is not None and not isinstance(ca[1], ast.FunctionDef) and getattr(ca[1], "value", None) is not None and root_name(ca[1].value) in EXT_ROOTS:
                        out.append(Site(f, c, [], "external", f"class attribute bound to {U(ca[1].value)}"))
                        continue
                    if self._has_ext_base(f.cls) and name not in self.ix.by_name:
                        out.append(Site(f, c, [], "external", f"method {name} inherited from an external base class"))
                        continue
                    out.append(Site(f, c, [], "unresolved", f"self.{name} is not a method of the class hierarchy"))
                    continue
                if env is None:
                    env = self.local_types(f)
                t = self.expr_type(recv, f, env)
                if t is not None:
                    tg = self.ix.overrides(t, name)
                    if not tg:
                        m = self.ix.method(t, name)
                        tg = [m] if m else []
                    if tg:
                        out.append(Site(f, c, tg, "typed", f"receiver: {t[1]}"))
                        continue
                    out.append(Site(f, c, [], "external", f"method {name} not defined by {t[1]} (inherited from an external base)"))
                    continue
                if root in EXT_ROOTS or root is None and not isinstance(recv, (ast.Call, ast.Subscript)):
                    out.append(Site(f, c, [], "external", U(fn)))
                    continue
                cands = [g for g in self.ix.by_name.get(name, []) if g.cls is not None]
                if isinstance(recv, ast.Call) and root_name(recv) in EXT_ROOTS:
                    out.append(Site(f, c, [], "external", U(fn)))
                elif cands and name not in COMMON_EXTERNAL and not name.startswith("__"):
                    out.append(Site(f, c, cands, "byname", f"{len(cands)} definition(s) named {name}"))
                elif cands:
                    out.append(Site(f, c, [], "assumed-external", f"untyped receiver `{U(recv)[:40]}`; `{name}` is a ubiquitous container/tensor method name"))
                else:
                    out.append(Site(f, c, [], "external", f"no repository method named {name}"))
                continue
            if isinstance(fn, ast.Call):
                inner = U(fn.func)
                if root_name(fn) in EXT_ROOTS:
                    out.append(Site(f, c, [], "external", U(fn)[:60]))
                    continue
                if inner == "type" and len(fn.args) == 1 and U(fn.args[0]) in ("self", "cls") and f.cls is not None:
                    tg = []
                    for sub in self.ix.subclasses(f.cls):
                        tg += [t for t in self._ctor_targets(sub) if t not in tg]
                    out.append(Site(f, c, tg, "exact", "constructor of type(self)"))
                    continue
                if inner == "get_algorithm_class":
                    tg = []
                    base = self.cls_named("BaseAlgorithm")
                    for sub in (self.ix.subclasses(base) if base else []):
                        tg += [t for t in self._ctor_targets(sub) if t not in tg]
                    out.append(Site(f, c, tg, "indirect", "constructor of any algorithm class"))
                    continue
            if isinstance(fn, ast.Subscript) and root_name(fn) in EXT_ROOTS:
                out.append(Site(f, c, [], "external", U(fn)[:60]))
                continue
            out.append(Site(f, c, [], "unresolved", "computed callee"))
        return out

    def _has_ext_base(self, k: ClassKey) -> bool:
        return any(b[0] == "<ext>" and b[1] not in ("object", "ABC", "Generic", "abc.ABC") for b in self.ix.mro(k))

    @staticmethod
    def _is_dsl_factory(node) -> bool:
        v = getattr(node, "value", None)
        return isinstance(v, ast.Call) and U(v.func) in ("NamedInputFunction.bound_to", "SymbolicDistribution.bound_to")

    FUNCTIONAL = ("leaspy.utils.functional._named_input_function", "leaspy.variables.specs", "leaspy.utils.weighted_tensor._factory",
                  "leaspy.utils.weighted_tensor._weighted_tensor")

    def _dsl_targets(self) -> List[Func]:
        out = []
        for t in self.linked + self.update_rules + self.dist_methods:
            if t not in out:
                out.append(t)
        return out

    def _dsl_attr(self, f: Func, name: str):
        """`self.f(...)` / `self.update_rule(...)` inside the functional DSL classes -> the functions the models register there."""
        if f.mod in self.FUNCTIONAL and name in ("f", "update_rule", "update_rule_burn_in"):
            return self._dsl_targets()
        return None

    def _dsl_value(self, f: Func, name: str):
        if f.mod in self.FUNCTIONAL and name in ("f", "g", "update_rule", "func", "method") and (name in _param_names(f) or _is_local(f, name) or True):
            if self.ix.lookup(f.mod, name) is None:
                return self._dsl_targets()
        return None

    # ---------------------------------------------------------------- queries
    def reach(self, entries: Iterable[Func], kinds=("exact", "typed", "indirect", "byname"), stop: Optional[Set[Tuple[str, str]]] = None):
        """Functions reachable from `entries` through edges of the given kinds; returns (keys, parent map)."""
        seen: Dict[Tuple[str, str], Optional[Tuple[Tuple[str, str], Site]]] = {}
        todo = []
        for e in entries:
            if e.key not in seen:
                seen[e.key] = None
                todo.append(e)
        while todo:
            f = todo.pop()
            if stop and f.key in stop:
                continue
            for s in self.sites.get(f.key, []):
                if s.kind not in kinds:
                    continue
                for t in s.targets:
                    if t.key not in seen:
                        seen[t.key] = (f.key, s)
                        todo.append(t)
        return seen

    def path_to(self, seen, key) -> List[str]:
        out = []
        k = key
        while k is not None and seen.get(k) is not None:
            pk, s = seen[k]
            out.append(f"{pk[1]}:{s.node.lineno}[{s.kind}]")
            k = pk
        return out[::-1] + [key[1]]

    def unresolved_in(self, keys) -> List[Site]:
        return [s for k in keys for s in self.sites.get(k, []) if s.kind == "unresolved"]

    def stats(self, keys=None) -> Dict[str, int]:
        d: Dict[str, int] = {}
        for k, ss in self.sites.items():
            if keys is not None and k not in keys:
                continue
            for s in ss:
                d[s.kind] = d.get(s.kind, 0) + 1
        return d


def _param_names(f: Func):
    a = f.node.args
    return {p.arg for p in a.posonlyargs + a.args + a.kwonlyargs}


# ------------------------------------------------------------------ effects
RNG_TORCH = {"torch.rand", "torch.randn", "torch.normal", "torch.randint", "torch.bernoulli", "torch.multinomial", "torch.randperm", "torch.rand_like",
             "torch.randn_like", "torch.poisson"}
SEEDING = {"random.seed": "python", "np.random.seed": "numpy", "numpy.random.seed": "numpy", "torch.manual_seed": "torch", "torch.seed": "torch"}


def rng_draws(ix: Index, f: Func) -> List[Tuple[str, ast.Call, str]]:
    """Direct random draws of a function: (family, call node, callee text)."""
    out = []
    for c in ast.walk(f.node):
        if not isinstance(c, ast.Call):
            continue
        s = U(c.func)
        if s in SEEDING:
            continue
        if s in RNG_TORCH:
            out.append(("torch", c, s))
        elif s.startswith(("np.random.", "numpy.random.")):
            if any(k.arg in ("random_state", "seed") for k in c.keywords):
                continue
            out.append(("numpy", c, s))
        elif s.endswith(".rvs"):
            if not any(k.arg == "random_state" for k in c.keywords):
                out.append(("numpy", c, s))
        elif s.endswith(".resample") and "kde" in s.lower():
            out.append(("numpy", c, s))
        elif s in ("shuffle", "sample", "choice", "randint", "uniform", "gauss", "random"):
            r = ix.lookup(f.mod, s)
            if r and r[0] == "ext" and r[1].startswith("random."):
                out.append(("python", c, s))
        elif s.startswith("random.") and s != "random.seed":
            r = ix.lookup(f.mod, "random")
            if r and r[0] == "ext" and r[1] == "random":
                out.append(("python", c, s))
        elif isinstance(c.func, ast.Attribute) and c.func.attr in ("sample", "rsample"):
            # <torch distribution>.sample(...)
            recv = U(c.func.value)
            if "dist" in recv.lower() or "torch.distributions" in recv or recv.endswith(")") and ("Normal(" in recv or "Categorical(" in recv or "Weibull" in recv or "MixtureSameFamily(" in recv):
                out.append(("torch", c, s))
    return out


def seeding_calls(f: Func) -> List[Tuple[str, ast.Call]]:
    return [(SEEDING[U(c.func)], c) for c in ast.walk(f.node) if isinstance(c, ast.Call) and U(c.func) in SEEDING]


def global_writes(ix: Index, f: Func) -> List[Tuple[ast.AST, str]]:
    """Writes to class attributes / module globals / external global configuration."""
    out = []
    declared = set()
    for n in walk_no_nested(f.node):
        if isinstance(n, ast.Global):
            declared |= set(n.names)
    for st in statements(f.node):
        for t in store_targets(st):
            if isinstance(t, ast.Name) and t.id in declared:
                out.append((st, f"global {t.id}"))
            if isinstance(t, ast.Attribute):
                ch = attr_chain(t)
                if ch and ch[0] == "cls":
                    out.append((st, f"class attribute {U(t)}"))
                elif ch and ix.resolve_class(f.mod, t.value) is not None:
                    out.append((st, f"class attribute {U(t)}"))
                elif ch and ch[0] in ("self",) and len(ch) >= 3 and ch[1] == "__class__":
                    out.append((st, f"class attribute {U(t)}"))
            if isinstance(t, ast.Subscript):
                r = root_name(t)
                if r and r in ix.mods[f.mod].defs and r not in _param_names(f) and not _is_local(f, r):
                    out.append((st, f"module-level container {r}"))
    for c in ast.walk(f.node):
        if isinstance(c, ast.Call):
            s = U(c.func)
            if s in ("torch.set_default_dtype", "torch.set_default_tensor_type", "torch.set_default_device", "torch.set_num_threads", "torch.use_deterministic_algorithms",
                     "np.seterr", "warnings.simplefilter", "warnings.filterwarnings", "torch.set_printoptions", "np.set_printoptions", "plt.switch_backend", "matplotlib.use",
                     "plt.rcParams.update", "os.environ.update", "os.chdir"):
                out.append((c, f"process-wide setting {s}"))
    return out


def _is_local(f: Func, name: str) -> bool:
    for st in statements(f.node):
        for t in store_targets(st):
            if isinstance(t, ast.Name) and t.id == name:
                return True
    return False


# ------------------------------------------------------------ state writes
STATE_WRITE_METHODS = {"put", "revert", "clear", "put_population_latent_variables", "put_individual_latent_variables", "__setitem__", "__delitem__",
                       "to_device", "precompute_all"}
STATE_WRITE_VALUE_METHODS = STATE_WRITE_METHODS - {"precompute_all", "to_device"}  # these change *values* (precompute only fills the cache)
LIVE_ATTRS = {"state", "_state"}


class StateWrites:
    """Who writes through which State object (intra-procedural provenance + bottom-up parameter summaries)."""

    def __init__(self, cg: CallGraph):
        self.cg = cg
        self.ix = cg.ix
        self.state_cls = cg.cls_named("State")
        if self.state_cls is None:
            raise AnalysisError("E2", "anchor vanished: class State")
        self._prov: Dict[Tuple[str, str], Dict[str, str]] = {}
        self._types: Dict[Tuple[str, str], Dict[str, ClassKey]] = {}
        self.writes_param: Dict[Tuple[str, str], Set[str]] = {k: set() for k in cg.sites}
        self._direct: Dict[Tuple[str, str], list] = {}
        for f in self.ix.iter_funcs():
            self._direct[f.key] = self._direct_writes(f)
        self._fixpoint()

    # provenance of an expression denoting a State: 'clone' | 'live' | 'param:<name>' | 'unknown'
    def types(self, f: Func):
        if f.key not in self._types:
            self._types[f.key] = self.cg.local_types(f)
        return self._types[f.key]

    def provenance(self, f: Func) -> Dict[str, str]:
        if f.key in self._prov:
            return self._prov[f.key]
        prov: Dict[str, str] = {}
        a = f.node.args
        types = self.types(f)
        for p in a.posonlyargs + a.args + a.kwonlyargs:
            if types.get(p.arg) == self.state_cls or (p.arg in ("state", "local_state") and p.arg not in types):
                prov[p.arg] = f"param:{p.arg}"
        for _ in range(3):
            for st in sorted(statements(f.node), key=lambda s: (s.lineno, s.col_offset)):
                tgt, val = None, None
                if isinstance(st, ast.Assign) and len(st.targets) == 1 and isinstance(st.targets[0], ast.Name):
                    tgt, val = st.targets[0].id, st.value
                elif isinstance(st, ast.AnnAssign) and isinstance(st.target, ast.Name) and st.value is not None:
                    tgt, val = st.target.id, st.value
                if tgt is None:
                    continue
                p = self.expr_prov(val, f, prov)
                if p is not None:
                    if tgt in prov and prov[tgt] != p:
                        prov[tgt] = "live" if "live" in (prov[tgt], p) else (p if prov[tgt] == "clone" else prov[tgt])
                    else:
                        prov[tgt] = p
        self._prov[f.key] = prov
        return prov

    def expr_prov(self, e: ast.AST, f: Func, prov: Dict[str, str]) -> Optional[str]:
        if isinstance(e, ast.Name):
            return prov.get(e.id)
        if isinstance(e, ast.Attribute) and e.attr in LIVE_ATTRS:
            return "live"
        if isinstance(e, ast.Call):
            if isinstance(e.func, ast.Attribute) and e.func.attr in ("clone",):
                base = self.expr_prov(e.func.value, f, prov)
                t = self.cg.expr_type(e.func.value, f, self.types(f))
                if base is not None or t == self.state_cls:
                    return "clone"
            if self.ix.resolve_class(f.mod, e.func) == self.state_cls:
                return "clone"
            if isinstance(e.func, ast.Attribute) and e.func.attr in ("deepcopy", "copy") and e.args:
                if self.expr_prov(e.args[0], f, prov) is not None:
                    return "clone"
            # a method returning a State built from a clone (e.g. _initialize_algo returns model.state: live)
            t = self.cg.expr_type(e, f, self.types(f))
            if t == self.state_cls:
                return "unknown"
        if isinstance(e, ast.IfExp):
            a, b = self.expr_prov(e.body, f, prov), self.expr_prov(e.orelse, f, prov)
            if "live" in (a, b):
                return "live"
            return a or b
        return None

    def _is_state_expr(self, e: ast.AST, f: Func, prov) -> bool:
        if self.expr_prov(e, f, prov) is not None:
            return True
        return self.cg.expr_type(e, f, self.types(f)) == self.state_cls

    def _direct_writes(self, f: Func):
        """[(node, receiver expr, provenance, how)] for writes applied directly in f to a State-typed receiver."""
        out = []
        if f.cls == self.state_cls:
            return out  # the owner class itself (self is the object being written; reached through the methods below)
        prov = self.provenance(f)
        for n in ast.walk(f.node):
            recv, how = None, None
            if isinstance(n, ast.Call) and isinstance(n.func, ast.Attribute) and n.func.attr in STATE_WRITE_VALUE_METHODS:
                recv, how = n.func.value, f".{n.func.attr}()"
            elif isinstance(n, ast.Subscript) and isinstance(n.ctx, (ast.Store, ast.Del)):
                recv, how = n.value, "[...] ="
            if recv is None or not self._is_state_expr(recv, f, prov):
                continue
            out.append((n, recv, self.expr_prov(recv, f, prov) or "unknown", how))
        return out

    def _fixpoint(self):
        changed = True
        for k, ws in self._direct.items():
            for n, recv, p, how in ws:
                if p.startswith("param:"):
                    self.writes_param[k].add(p[6:])
        while changed:
            changed = False
            for f in self.ix.iter_funcs():
                prov = self.provenance(f)
                for s in self.cg.sites[f.key]:
                    if s.kind not in ("exact", "typed", "indirect"):
                        continue
                    for t in s.targets:
                        wp = self.writes_param.get(t.key)
                        if not wp:
                            continue
                        for pname, arg in self._bind_args(s.node, t):
                            if pname in wp:
                                p = self.expr_prov(arg, f, prov)
                                if p and p.startswith("param:") and p[6:] not in self.writes_param[f.key]:
                                    self.writes_param[f.key].add(p[6:])
                                    changed = True

    @staticmethod
    def _bind_args(call: ast.Call, t: Func):
        a = t.node.args
        params = [p.arg for p in a.posonlyargs + a.args]
        if t.kind in ("method", "class", "property") and params:
            params = params[1:]
        out = []
        for i, arg in enumerate(call.args):
            if isinstance(arg, ast.Starred):
                break
            if i < len(params):
                out.append((params[i], arg))
        names = set(params) | {p.arg for p in a.kwonlyargs}
        for k in call.keywords:
            if k.arg in names:
                out.append((k.arg, k.value))
        return out

    def live_writes(self, f: Func):
        """Writes of f that go (or may go) to a live State: direct ones with provenance live/unknown, and calls handing
        a live State to a parameter through which the callee writes. Returns [(node, description)]."""
        out = []
        prov = self.provenance(f)
        for n, recv, p, how in self._direct.get(f.key, []):
            if p in ("live", "unknown"):
                out.append((n, f"`{U(recv)}`{how} writes the {'live' if p == 'live' else 'possibly live'} model state"))
        for s in self.cg.sites[f.key]:
            if s.kind not in ("exact", "typed", "indirect"):
                continue
            for t in s.targets:
                wp = self.writes_param.get(t.key)
                if not wp:
                    continue
                for pname, arg in self._bind_args(s.node, t):
                    if pname in wp:
                        p = self.expr_prov(arg, f, prov)
                        if p in ("live", "unknown"):
                            out.append((s.node, f"hands the live model state `{U(arg)}` to {t.qual}({pname}=...), which writes through it"))
        return out

    def param_writes(self, f: Func):
        """Direct writes through the function's own State parameters: [(node, param, how)]."""
        return [(n, p[6:], how) for n, recv, p, how in self._direct.get(f.key, []) if p.startswith("param:")]


# ------------------------------------------------------------ shared mutable defaults
MUTATORS = {"update", "append", "extend", "insert", "pop", "popitem", "setdefault", "clear", "remove", "add", "discard", "sort", "reverse", "__setitem__", "__delitem__",
            "appendleft", "popleft", "difference_update", "intersection_update", "symmetric_difference_update"}
FRESH_CALLS = {"dict", "list", "set", "tuple", "frozenset", "sorted", "deepcopy", "copy.deepcopy", "copy.copy", "OrderedDict", "defaultdict"}


def _is_mutable_literal(v: Optional[ast.AST]) -> bool:
    if isinstance(v, (ast.Dict, ast.List, ast.Set, ast.DictComp, ast.ListComp, ast.SetComp)):
        return True
    if isinstance(v, ast.Call) and U(v.func) in ("dict", "list", "set", "defaultdict", "OrderedDict", "collections.defaultdict", "collections.OrderedDict") :
        return True
    return False


class SharedDefaults:
    """Class-level / module-level mutable containers (and mutable default arguments) are shared by every instance and every call:
    writing through them carries information from one call to the next.  Finds every write through such an object, also through
    aliases (locals, and instance attributes bound to it anywhere in the class hierarchy)."""

    def __init__(self, ix: Index):
        self.ix = ix
        self.class_level: Dict[ClassKey, Dict[str, ast.AST]] = {}
        self.module_level: Dict[str, Dict[str, ast.AST]] = {}
        for mname, m in ix.mods.items():
            d = {}
            for st in m.tree.body:
                tg, v = self._simple_assign(st)
                if tg and _is_mutable_literal(v) and tg != "__all__":
                    d[tg] = st
            self.module_level[mname] = d
        for ck, c in ix.classes.items():
            d = {}
            for st in getattr(c, "node", c).body:
                tg, v = self._simple_assign(st)
                if tg and _is_mutable_literal(v) and not tg.startswith("__"):
                    d[tg] = st
            self.class_level[ck] = d
        # instance attributes aliasing a shared container: (class key, attr) -> description
        self.attr_alias: Dict[Tuple[ClassKey, str], str] = {}
        for _ in range(2):
            for f in ix.iter_funcs():
                if f.cls is None:
                    continue
                for st in ast.walk(f.node):
                    if isinstance(st, ast.Assign):
                        for t in st.targets:
                            if isinstance(t, ast.Attribute) and isinstance(t.value, ast.Name) and t.value.id == "self":
                                why = self.shared(st.value, f, {})
                                if why:
                                    self.attr_alias[(f.cls, t.attr)] = why

    @staticmethod
    def _simple_assign(st):
        if isinstance(st, ast.Assign) and len(st.targets) == 1 and isinstance(st.targets[0], ast.Name):
            return st.targets[0].id, st.value
        if isinstance(st, ast.AnnAssign) and isinstance(st.target, ast.Name) and st.value is not None:
            return st.target.id, st.value
        return None, None

    def _class_const(self, cls: Optional[ClassKey], name: str) -> Optional[str]:
        if cls is None:
            return None
        for k in self.ix.mro(cls):
            if name in self.class_level.get(k, {}):
                return f"class-level container {k[1]}.{name}"
        return None

    def _attr_alias(self, cls: Optional[ClassKey], name: str) -> Optional[str]:
        if cls is None:
            return None
        fam = set(self.ix.mro(cls)) | {k for k in self.ix.classes if cls in self.ix.mro(k)}
        for k in fam:
            if (k, name) in self.attr_alias:
                return f"self.{name} (bound to {self.attr_alias[(k, name)]})"
        return None

    def shared(self, e: ast.AST, f: Func, local_alias: Dict[str, str]) -> Optional[str]:
        """Why `e` may denote a shared container (None if it does not)."""
        if isinstance(e, ast.Name):
            if e.id in local_alias:
                return local_alias[e.id]
            if e.id in self.module_level.get(f.mod, {}) and e.id not in _param_names(f) and not _is_local(f, e.id):
                return f"module-level container {e.id}"
            imp = self.ix.mods[f.mod].imports.get(e.id) if hasattr(self.ix.mods[f.mod], "imports") else None
            if isinstance(imp, tuple) and len(imp) == 2 and imp[1] in self.module_level.get(imp[0], {}) and not _is_local(f, e.id):
                return f"module-level container {imp[0]}.{imp[1]}"
            return None
        if isinstance(e, ast.Attribute):
            b = e.value
            if isinstance(b, ast.Name) and b.id in ("self", "cls"):
                return self._class_const(f.cls, e.attr) or (self._attr_alias(f.cls, e.attr) if b.id == "self" else None)
            if isinstance(b, ast.Call) and U(b.func) == "type":
                return self._class_const(f.cls, e.attr)
            if isinstance(b, ast.Attribute) and b.attr == "__class__":
                return self._class_const(f.cls, e.attr)
            k = self.ix.resolve_class(f.mod, b)
            if k is not None:
                return self._class_const(k, e.attr)
            return None
        if isinstance(e, ast.Subscript):
            return self.shared(e.value, f, local_alias)  # a nested container of a shared container is shared too
        if isinstance(e, ast.IfExp):
            return self.shared(e.body, f, local_alias) or self.shared(e.orelse, f, local_alias)
        if isinstance(e, ast.Call) and isinstance(e.func, ast.Attribute) and e.func.attr in ("get", "setdefault") and e.args:
            return self.shared(e.func.value, f, local_alias)
        return None

    def param_mutations(self, cg: "CallGraph") -> Dict[Tuple[str, str], Set[str]]:
        """Parameters through which a function writes (mutator call, `p[..] = v`, `del p[..]`, `p += v`), directly or by handing
        them to a callee that does (fixpoint over the resolved call graph)."""
        mut: Dict[Tuple[str, str], Set[str]] = {}
        for f in self.ix.iter_funcs():
            ps = set(_param_names(f))
            m = set()
            for n in ast.walk(f.node):
                if isinstance(n, ast.Call) and isinstance(n.func, ast.Attribute) and n.func.attr in MUTATORS and isinstance(n.func.value, ast.Name) and n.func.value.id in ps:
                    m.add(n.func.value.id)
                elif isinstance(n, (ast.Assign, ast.AugAssign, ast.Delete)):
                    for t in (n.targets if isinstance(n, (ast.Assign, ast.Delete)) else [n.target]):
                        if isinstance(t, ast.Subscript) and isinstance(t.value, ast.Name) and t.value.id in ps:
                            m.add(t.value.id)
            mut[f.key] = m
        changed = True
        while changed:
            changed = False
            for f in self.ix.iter_funcs():
                ps = set(_param_names(f))
                for site in cg.sites.get(f.key, []):
                    for t in site.targets:
                        for q, arg in StateWrites._bind_args(site.node, t):
                            if isinstance(arg, ast.Name) and arg.id in ps and q in mut.get(t.key, ()) and arg.id not in mut[f.key]:
                                mut[f.key].add(arg.id)
                                changed = True
        self.mut = mut
        return mut

    def handed_over(self, f: Func, cg: "CallGraph") -> List[Tuple[ast.AST, str]]:
        """Calls of f that hand a shared container to a parameter through which the callee writes."""
        if not hasattr(self, "mut"):
            self.param_mutations(cg)
        alias = self._local_aliases(f)
        out = []
        for site in cg.sites.get(f.key, []):
            for t in site.targets:
                for q, arg in StateWrites._bind_args(site.node, t):
                    why = self.shared(arg, f, alias)
                    if why and q in self.mut.get(t.key, ()):
                        out.append((site.node, f"`{U(site.node)[:60]}` hands {why} to {t.qual}({q}=...), which writes through it"))
        return out

    def _local_aliases(self, f: Func) -> Dict[str, str]:
        alias: Dict[str, str] = {}
        a = f.node.args
        defaults = list(zip((a.posonlyargs + a.args)[-len(a.defaults):] if a.defaults else [], a.defaults)) + [(p, d) for p, d in zip(a.kwonlyargs, a.kw_defaults) if d is not None]
        for p, d in defaults:
            if _is_mutable_literal(d):
                alias[p.arg] = f"mutable default argument `{p.arg}={U(d)}`"
        for _ in range(3):
            for st in ast.walk(f.node):
                if isinstance(st, ast.Assign) and len(st.targets) == 1 and isinstance(st.targets[0], ast.Name):
                    why = self.shared(st.value, f, alias)
                    if why:
                        alias[st.targets[0].id] = why
        return alias

    def writes(self, f: Func) -> List[Tuple[ast.AST, str]]:
        alias: Dict[str, str] = {}
        a = f.node.args
        defaults = list(zip((a.posonlyargs + a.args)[-len(a.defaults):] if a.defaults else [], a.defaults)) + [(p, d) for p, d in zip(a.kwonlyargs, a.kw_defaults) if d is not None]
        for p, d in defaults:
            if _is_mutable_literal(d):
                alias[p.arg] = f"mutable default argument `{p.arg}={U(d)}`"
        for _ in range(3):
            for st in ast.walk(f.node):
                if isinstance(st, ast.Assign) and len(st.targets) == 1 and isinstance(st.targets[0], ast.Name):
                    why = self.shared(st.value, f, alias)
                    if why:
                        alias[st.targets[0].id] = why
        out = []
        for n in ast.walk(f.node):
            if isinstance(n, ast.Call) and isinstance(n.func, ast.Attribute) and n.func.attr in MUTATORS:
                why = self.shared(n.func.value, f, alias)
                if why and not self._rebound_fresh(f, n.func.value, n, alias):
                    out.append((n, f"`{U(n)[:60]}` writes through {why}"))
            elif isinstance(n, (ast.Assign, ast.AugAssign, ast.Delete)):
                tgs = n.targets if isinstance(n, (ast.Assign, ast.Delete)) else [n.target]
                for t in tgs:
                    if isinstance(t, ast.Subscript):
                        why = self.shared(t.value, f, alias)
                        if why and not self._rebound_fresh(f, t.value, n, alias):
                            out.append((n, f"`{U(n)[:60]}` writes through {why}"))
                    elif isinstance(n, ast.AugAssign) and isinstance(t, (ast.Name, ast.Attribute)):
                        why = self.shared(t, f, alias)
                        if why and not self._rebound_fresh(f, t, n, alias):
                            out.append((n, f"`{U(n)[:60]}` updates in place {why}"))
        return out

    def _rebound_fresh(self, f: Func, recv: ast.AST, use: ast.AST, alias) -> bool:
        """The receiver (a local or `self.attr`, possibly subscripted) was last re-bound, on every path to `use`, to a fresh object
        (a copy / a new container): the may-alias fact does not hold at this point."""
        from .cfg import CFG
        base = recv
        while isinstance(base, ast.Subscript):
            base = base.value
        if not isinstance(base, (ast.Name, ast.Attribute)):
            return False
        key = U(base)
        if not hasattr(self, "_cfgs"):
            self._cfgs = {}
        cfg = self._cfgs.get(f.key)
        if cfg is None:
            cfg = self._cfgs[f.key] = CFG(f.node)
        un = cfg.node_containing(use)
        if un is None:
            return False
        defs = []
        for n, st in cfg.stmt.items():
            if isinstance(st, ast.Assign) and any(U(t) == key for t in st.targets) and n != un and cfg.dominates(n, un):
                defs.append((n, st))
        if not defs:
            return False
        # the closest dominating definition is the one dominated by all the others
        last = [d for d in defs if all(cfg.dominates(o[0], d[0]) for o in defs)]
        if not last:
            return False
        n0, st0 = last[0]
        # no other (non-dominating) re-binding between it and the use
        for n, st in cfg.stmt.items():
            if isinstance(st, (ast.Assign, ast.AugAssign)) and n not in (n0, un) and any(U(t) == key for t in (st.targets if isinstance(st, ast.Assign) else [st.target])) \
                    and cfg.reachable(n0, n) and cfg.reachable(n, un) and not cfg.dominates(n, n0):
                return False
        v = st0.value
        if self.shared(v, f, {k: w for k, w in alias.items() if k != key}) is not None:
            return False
        # a copy of the shared object (shallow for nested containers: a subscripted receiver stays shared)
        if isinstance(recv, ast.Subscript):
            src = v.args[0] if isinstance(v, ast.Call) and v.args else None
            if src is not None and self.shared(src, f, alias) is not None:
                return False
        return True
