"""Testing the checkers both ways (DESIGN section 8).

A variant is a small textual edit of one source file of a scratch copy of
`src/leaspy` (made with tempfile outside /repo and /verif, removed afterwards):

    V(id, file, old, new, fires="C01.R2")   one instance broken: the named rule must report a violation
    V(id, file, old, new, fires=None)        behaviour-preserving edit: the property's rules must stay silent

`old` must occur exactly once in the file (else the variant is *skipped* and
counted: its anchor no longer exists in today's tree).  Seeded changes kept
under /verif/seeded/<id>/ (patch.diff + meta.json) are replayed the same way.
Outcomes are reported as SELFTEST lines and in the evidence; they never
produce a VIOLATION line.
"""
from __future__ import annotations

import ast
import glob
import json
import os
import shutil
import subprocess
import tempfile
from concurrent.futures import ProcessPoolExecutor
from typing import List, Optional

from . import core


class V:
    def __init__(self, id: str, file: str, old: str, new: str, fires: Optional[str], count: int = 1, note: str = ""):
        self.id = id
        self.file = file
        self.old = old
        self.new = new
        self.fires = fires
        self.count = count
        self.note = note


def _copy_tree(repo: str) -> str:
    tmp = tempfile.mkdtemp(prefix="leaspy-sa-")
    shutil.copytree(os.path.join(repo, "src", "leaspy"), os.path.join(tmp, "src", "leaspy"),
                    ignore=shutil.ignore_patterns("__pycache__", "*.pyc"))
    return tmp


def _run(prop: str, tree: str):
    import importlib

    mod = importlib.import_module(f"sa.rules.{prop.lower()}")
    status, ctx, errors = core.run_property(prop, mod.rules, tree, "quick")
    # violations are identified by (rule, construct key): a rule that already reports a known finding on the unchanged tree
    # only counts as firing on a variant when it reports a *new* construct
    viol = [o for o in (ctx.obs if ctx is not None else []) if o.verdict == "violation"]
    fired = sorted({(o.rule, o.key) for o in viol}) if status != 2 else []
    detail = {(o.rule, o.key): f"{o.rule} {o.key}" for o in viol}
    return status, fired, errors, detail


def _one_variant(args):
    prop, repo, v, baseline = args
    tmp = None
    try:
        path = os.path.join(repo, v["file"])
        if not os.path.exists(path):
            return v["id"], "skipped", f"file vanished: {v['file']}"
        src = open(path, encoding="utf-8").read()
        if src.count(v["old"]) != v["count"]:
            return v["id"], "skipped", f"anchor text occurs {src.count(v['old'])}x (expected {v['count']})"
        new_src = src.replace(v["old"], v["new"])
        try:
            ast.parse(new_src)
        except SyntaxError as e:
            return v["id"], "error", f"variant does not parse: {e}"
        tmp = _copy_tree(repo)
        with open(os.path.join(tmp, v["file"]), "w", encoding="utf-8") as fh:
            fh.write(new_src)
        status, fired, errors, detail = _run(prop, tmp)
        new = [r for r in fired if r not in baseline]
        new_rules = sorted({r for r, _ in new})
        new_detail = [detail[k] for k in new][:6]
        if v["fires"] is None:
            if status == 2:
                return v["id"], "false_alarm", f"silent variant made the analyser give up: {errors[:2]}"
            if new:
                return v["id"], "false_alarm", f"silent variant fired {new_rules}: {new_detail}"
            return v["id"], "silent_ok", ""
        if status == 2:
            # giving up on a broken variant is tolerated only if explicitly expected
            if v["fires"] == "ANALYSIS-ERROR":
                return v["id"], "fired", "analysis error (expected)"
            return v["id"], "missed", f"analysis error instead of a violation: {errors[:2]}"
        if v["fires"] in new_rules:
            return v["id"], "fired", "; ".join([d for d in new_detail if d.startswith(v["fires"] + " ")][:2])
        return v["id"], "missed", f"expected {v['fires']}, newly fired {new_rules}"
    except Exception as e:  # pragma: no cover
        return v["id"], "error", f"{type(e).__name__}: {e}"
    finally:
        if tmp:
            shutil.rmtree(tmp, ignore_errors=True)


def _one_seeded(args):
    prop, repo, d, baseline = args
    sid = os.path.basename(d)
    tmp = None
    try:
        meta = json.load(open(os.path.join(d, "meta.json")))
        tmp = _copy_tree(repo)
        r = subprocess.run(["patch", "-p1", "-s", "-f", "-i", os.path.join(d, "patch.diff")], cwd=tmp,
                           capture_output=True, text=True)
        if r.returncode != 0:
            return "seeded/" + sid, "skipped", "patch does not apply to the current tree"
        status, fired, errors, detail = _run(prop, tmp)
        new = [r for r in fired if r not in baseline]
        new_rules = sorted({r for r, _ in new})
        expected = meta.get("caught_by", {}).get(prop)
        if expected is None:
            return "seeded/" + sid, "not_claimed", f"fired {new_rules}"
        if status == 2:
            return "seeded/" + sid, "missed", f"analysis error: {errors[:2]}"
        if any(e in new_rules for e in expected):
            return "seeded/" + sid, "fired", "; ".join([detail[k] for k in new if k[0] in expected][:2])
        return "seeded/" + sid, "missed", f"expected one of {expected}, newly fired {new_rules}"
    except Exception as e:  # pragma: no cover
        return "seeded/" + sid, "error", f"{type(e).__name__}: {e}"
    finally:
        if tmp:
            shutil.rmtree(tmp, ignore_errors=True)


def run_catalogue(prop: str, repo: str, workers: int = 16) -> dict:
    import importlib

    mod = importlib.import_module(f"sa.rules.{prop.lower()}")
    variants: List[V] = list(getattr(mod, "VARIANTS", []))
    _, baseline, _, _ = _run(prop, repo)
    jobs = [(prop, repo, vars(v), baseline) for v in variants]
    seeded = []
    for d in sorted(glob.glob(os.path.join(core.VERIF, "seeded", "*"))):
        mp = os.path.join(d, "meta.json")
        if not os.path.exists(mp) or not os.path.exists(os.path.join(d, "patch.diff")):
            continue
        try:
            meta = json.load(open(mp))
        except Exception:
            continue
        if prop in meta.get("caught_by", {}):
            seeded.append((prop, repo, d, baseline))
    results = []
    if jobs or seeded:
        with ProcessPoolExecutor(max_workers=workers) as ex:
            results = list(ex.map(_one_variant, jobs)) + list(ex.map(_one_seeded, seeded))
    out = {"variants": len(variants), "seeded": len(seeded), "fired": 0, "silent_ok": 0, "skipped": 0,
           "missed": [], "false_alarms": [], "errors": [], "lines": []}
    for vid, res, msg in results:
        out["lines"].append(f"SELFTEST property={prop} variant={vid} result={res} {msg}".rstrip())
        if res in ("fired", "silent_ok", "skipped"):
            out[res] += 1
        elif res == "missed":
            out["missed"].append(vid)
        elif res == "false_alarm":
            out["false_alarms"].append(vid)
        elif res == "error":
            out["errors"].append(vid)
    return out
