"""E6 - rule runner: obligations, verdicts, evidence, known findings, exit codes."""
from __future__ import annotations

import ast
import json
import os
import time
import traceback
from typing import Callable, Dict, List, Optional

from .index import AnalysisError, Func, Index, norm

VERIF = os.path.dirname(os.path.dirname(os.path.abspath(__file__)))
EVIDENCE_DIR = os.path.join(VERIF, "evidence")
KNOWN_FINDINGS = os.path.join(VERIF, "known_findings.json")


class Obligation:
    __slots__ = ("rule", "file", "qual", "construct", "verdict", "reason", "line", "instance")

    def __init__(self, rule, file, qual, construct, verdict, reason, line=None, instance=None):
        self.rule = rule
        self.file = file
        self.qual = qual
        self.construct = construct
        self.verdict = verdict
        self.reason = reason
        self.line = line
        self.instance = instance

    @property
    def key(self) -> str:
        return f"{self.file}::{self.qual}::{self.construct}"

    def as_dict(self):
        d = {
            "rule": self.rule,
            "file": self.file,
            "qualname": self.qual,
            "construct": self.construct,
            "verdict": self.verdict,
            "reason": self.reason,
        }
        if self.line is not None:
            d["line"] = self.line
        if self.instance is not None:
            d["instance"] = self.instance
        return d


class Ctx:
    """One run of one property's rules over one source tree."""

    def __init__(self, prop: str, index: Index, tier: str = "quick"):
        self.prop = prop
        self.ix = index
        self.tier = tier
        self.obs: List[Obligation] = []
        self.minimums: Dict[str, int] = {}
        self.rule_text: Dict[str, str] = {}
        self.assumptions: List[str] = []
        self.trusted: List[str] = []
        self.extra: Dict[str, object] = {}
        self.functions_analysed = set()
        self.info: List[str] = []

    # ------------------------------------------------------------ recording
    def rule(self, rid: str, text: str, min_instances: int = 1):
        self.rule_text[rid] = text
        self.minimums[rid] = min_instances

    def _where(self, where, node):
        """where: Func | (module name, qualname) | module name ; node: ast node or None"""
        if isinstance(where, Func):
            file, qual = self.ix.rel(where.mod), where.qual
            self.functions_analysed.add(where.key)
        elif isinstance(where, tuple):
            file, qual = (self.ix.rel(where[0]) if where[0] in self.ix.mods else where[0]), where[1]
        else:
            file, qual = (self.ix.rel(where) if where in self.ix.mods else str(where)), "<module>"
        line = getattr(node, "lineno", None) if node is not None else None
        if line is None and isinstance(where, Func):
            line = where.node.lineno
        return file, qual, line

    def add(self, rule, where, node, verdict, reason, construct=None, instance=None):
        file, qual, line = self._where(where, node)
        if construct is None:
            construct = norm(node) if isinstance(node, ast.AST) else (str(node) if node is not None else "-")
        if len(construct) > 160:
            construct = construct[:157] + "..."
        o = Obligation(rule, file, qual, construct, verdict, reason, line, instance)
        self.obs.append(o)
        return o

    def ok(self, rule, where, node, reason, **kw):
        return self.add(rule, where, node, "ok", reason, **kw)

    def violation(self, rule, where, node, reason, **kw):
        return self.add(rule, where, node, "violation", reason, **kw)

    def unknown(self, rule, where, node, reason, **kw):
        return self.add(rule, where, node, "unknown", reason, **kw)

    def check(self, cond, rule, where, node, ok_reason, bad_reason, **kw):
        return self.add(rule, where, node, "ok" if cond else "violation", ok_reason if cond else bad_reason, **kw)

    def anchor(self, cond, rule, where, node, ok_reason, what, **kw):
        """A construct must have the form confirmed by hand. When it has not, the analyser does not know whether the new form
        still implements the behaviour (a refactoring would look the same): verdict `unknown` (exit 2), never a violation."""
        if cond:
            return self.add(rule, where, node, "ok", ok_reason, **kw)
        return self.add(rule, where, node, "unknown", f"construct no longer has its confirmed form ({what}): cannot decide statically whether the behaviour is kept", **kw)

    def form(self, rule, where, node, text, confirmed, essential, ok_reason, bad_reason, forbidden=(), **kw):
        """Three-way verdict on the (canonical) text of a construct: one of the `confirmed` forms -> ok; a form lacking one of the
        `essential` tokens (each token may be a tuple of alternatives) -> violation (the behaviour cannot be implemented without it);
        a form matching a `forbidden` regex -> violation (a part that defeats the behaviour); anything else -> unknown (a refactoring the analyser has not been taught)."""
        text = text or ""
        if text in confirmed:
            return self.add(rule, where, node, "ok", ok_reason, **kw)
        missing = []
        for tok in essential:
            alts = tok if isinstance(tok, (tuple, list)) else (tok,)
            if not any(a in text for a in alts):
                missing.append(alts[0])
        if missing:
            return self.add(rule, where, node, "violation", f"{bad_reason} (found `{text[:120]}`, lacking {missing})", **kw)
        import re as _re
        hit = [rx for rx in forbidden if _re.search(rx, text)]
        if hit:  # a part that defeats the behaviour is present (e.g. the raw value can reach the product)
            return self.add(rule, where, node, "violation", f"{bad_reason} (found `{text[:160]}`, containing /{hit[0]}/)", **kw)
        return self.add(rule, where, node, "unknown", f"construct `{text[:120]}` is neither the confirmed form nor lacks an essential part: cannot decide statically", **kw)

    def analysed(self, f: Func):
        self.functions_analysed.add(f.key)

    def assume(self, text):
        if text not in self.assumptions:
            self.assumptions.append(text)

    def trust(self, text):
        if text not in self.trusted:
            self.trusted.append(text)

    def note(self, text):
        self.info.append(text)


def load_known_findings() -> List[dict]:
    if not os.path.exists(KNOWN_FINDINGS):
        return []
    with open(KNOWN_FINDINGS) as fh:
        return json.load(fh)["findings"]


def finding_matches(entry: dict, prop: str, o: Obligation) -> bool:
    return (
        entry.get("status") == "known"
        and entry.get("property") == prop
        and entry.get("rule") == o.rule
        and entry.get("construct") == o.key
    )


def _failing_rule(rules_fn, exc):
    """(globals dict, name) of the rule function - called directly by `rules_fn` - in which `exc` was raised, or None"""
    frames = []
    tb = exc.__traceback__
    while tb is not None:
        frames.append(tb.tb_frame)
        tb = tb.tb_next
    for i, fr in enumerate(frames):
        if fr.f_code is rules_fn.__code__ and i + 1 < len(frames):
            nxt = frames[i + 1]
            name = nxt.f_code.co_name
            fn = nxt.f_globals.get(name)
            if callable(fn) and getattr(fn, "__code__", None) is nxt.f_code:
                return nxt.f_globals, name
    return None


def _run_past_vanished_anchors(prop, rules_fn, ix, tier, first_exc, errors, max_rounds=6):
    """Re-run the rules with every rule function that raised an AnalysisError replaced by a no-op, looking for a definite violation (not a
    listed known finding) in the others.  Returns the context of the run that found one, else None (the verdict stays `analysis error`)."""
    patched = []
    try:
        exc = first_exc
        for _ in range(max_rounds):
            where = _failing_rule(rules_fn, exc)
            if where is None:
                return None
            g, name = where
            patched.append((g, name, g[name]))
            g[name] = lambda *a, **k: None
            status, ctx2, errs2 = run_property(prop, rules_fn, ix.repo, tier, index=ix, _skip=True)
            if status == 1 and ctx2 is not None:
                _known = load_known_findings()
                if any(o.verdict == "violation" and not any(finding_matches(k, prop, o) for k in _known) for o in ctx2.obs):
                    return ctx2
            exc = getattr(ctx2, "_last_analysis_error", None) if ctx2 is not None else None
            if exc is None:
                return None
    finally:
        for g, name, fn in patched:
            g[name] = fn
    return None


def run_property(prop: str, rules_fn: Callable[[Ctx], None], repo: str, tier: str, index: Optional[Index] = None, _skip=None):
    """Run the rules; returns (status, ctx, errors) where status in {0,1,2}. No printing, no files."""
    errors: List[str] = []
    ctx = None
    try:
        ix = index or Index(repo)
        ctx = Ctx(prop, ix, tier)
        rules_fn(ctx)
        # vacuity guard
        counts: Dict[str, int] = {}
        for o in ctx.obs:
            counts[o.rule] = counts.get(o.rule, 0) + 1
        # only a violation that is not a listed known finding stands on its own (a known finding must not hide an undecided rule)
        _known = load_known_findings()
        has_violation = any(o.verdict == "violation" and not any(finding_matches(k, prop, o) for k in _known) for o in ctx.obs)
        for rid, mn in ctx.minimums.items():
            # a definite violation stands on its own: the vacuity guard protects *passes*, not alarms
            if counts.get(rid, 0) < mn and not has_violation:
                errors.append(f"rule={rid} reason=only {counts.get(rid, 0)} instance(s) found, {mn} confirmed by hand (anchor vanished?)")
        for o in ctx.obs:
            if o.verdict == "unknown" and not has_violation:
                errors.append(f"rule={o.rule} reason=cannot decide {o.key}: {o.reason}")
    except AnalysisError as e:
        # an anchor vanished in a later rule: the definite violations found by the rules that already ran stand on their own
        _known = load_known_findings()
        if ctx is not None and any(o.verdict == "violation" and not any(finding_matches(k, prop, o) for k in _known) for o in ctx.obs):
            ctx.extra.setdefault("analysis_errors_after_violation", []).append(f"rule={e.rule} reason={e.reason}")
        else:
            errors.append(f"rule={e.rule} reason={e.reason}")
            if ctx is not None:
                ctx._last_analysis_error = e
            # ... and the rules that come *after* the one that gave up may still find a definite violation: run them without it
            if _skip is None and ctx is not None:
                later = _run_past_vanished_anchors(prop, rules_fn, ctx.ix, tier, e, errors)
                if later is not None:
                    later.extra.setdefault("analysis_errors_after_violation", []).extend(errors)
                    return 1, later, []
    except RecursionError as e:  # pragma: no cover
        errors.append(f"rule=internal reason=RecursionError {e}")
    except Exception as e:  # internal failure is an analysis error, never a violation
        tb = traceback.format_exc().strip().splitlines()
        loc = [l.strip() for l in tb if l.strip().startswith("File")][-1:] or [""]
        errors.append(f"rule=internal reason={type(e).__name__}: {e} @ {loc[0]}")
    if errors:
        return 2, ctx, errors
    viol = [o for o in ctx.obs if o.verdict == "violation"]
    return (1 if viol else 0), ctx, errors


def report(prop: str, status: int, ctx: Optional[Ctx], errors: List[str], tier: str, t0: float, level_text: str,
           selftest: Optional[dict] = None, write: bool = True, out=print) -> int:
    """Print the harness-facing lines, write the evidence, return the exit status."""
    seed = int(os.environ.get("VERIF_SEED", "0") or 0)
    known = load_known_findings()
    ev_path = os.path.join(EVIDENCE_DIR, f"{prop}.json")
    viol_path = os.path.join(EVIDENCE_DIR, f"{prop}.violations.json")
    exit_code = 0
    new_viol: List[Obligation] = []
    known_hits: List[tuple] = []
    if status == 2:
        for e in errors:
            out(f"ANALYSIS-ERROR property={prop} {e}")
        exit_code = 2
    if ctx is not None and status != 2:
        for o in ctx.obs:
            if o.verdict != "violation":
                continue
            ent = next((k for k in known if finding_matches(k, prop, o)), None)
            if ent is not None:
                known_hits.append((o, ent))
            else:
                new_viol.append(o)
        printed = set()
        for o, ent in known_hits:
            if (o.rule, o.key) in printed:
                continue
            printed.add((o.rule, o.key))
            out(f"KNOWN-FINDING: property={prop} {o.rule} {o.key} - {ent.get('what', o.reason)}")
        if new_viol:
            for o in new_viol:
                out(f"{o.file}:{o.line or 0}: {o.rule}: {o.qual}: {o.construct} -- {o.reason}")
            exit_code = 1
    # evidence
    obs = ctx.obs if ctx is not None else []
    by_rule: Dict[str, Dict[str, int]] = {}
    for o in obs:
        d = by_rule.setdefault(o.rule, {"ok": 0, "violation": 0, "unknown": 0})
        d[o.verdict] += 1
    distinct = len({(o.rule, o.key, o.instance) for o in obs})
    # samples: a deterministic, seed-rotated pick + every non-ok obligation
    samples = [o.as_dict() for o in obs if o.verdict != "ok"][:40]
    oks = [o for o in obs if o.verdict == "ok"]
    if oks:
        step = max(1, len(oks) // 12)
        start = seed % step if step > 1 else 0
        samples += [o.as_dict() for o in oks[start::step][:14]]
    evidence = {
        "property_id": prop,
        "tier": tier,
        "seed": seed,
        "level": "other",
        "coverage": {
            "explanation": level_text,
            "rules": {rid: {"text": (ctx.rule_text.get(rid, "") if ctx else ""), **cnt,
                            "min_instances": (ctx.minimums.get(rid) if ctx else None)} for rid, cnt in sorted(by_rule.items())},
            "obligations": len(obs),
            "discharged": sum(1 for o in obs if o.verdict == "ok"),
            "evaluations": max(len(obs), 0),
            "distinct_nontrivial": distinct,
            "rule": "one evaluation = one rule instance (obligation) on a named construct of the current source tree; "
                    "distinct = distinct (rule, file::qualname::normalised construct, instance) triples; rule instances with nothing to check are not recorded",
            "samples": samples if samples else [{"note": "no obligation could be evaluated", "errors": errors}],
            "functions_analysed": len(ctx.functions_analysed) if ctx else 0,
            "index": ctx.ix.stats() if ctx else {},
            "trusted_base": (ctx.trusted if ctx else []),
            "known_findings_reported": [o.key for o, _ in known_hits],
            "analysis_errors": errors,
            "exhaustive": False,
        },
        "assumptions": (ctx.assumptions if ctx else []),
        "wall_s": round(time.time() - t0, 3),
        "violations": len(new_viol),
    }
    if ctx is not None:
        evidence["coverage"].update(ctx.extra)
        if ctx.info:
            evidence["coverage"]["information"] = ctx.info
    if selftest is not None:
        evidence["coverage"]["selftest"] = selftest
    if write:
        os.makedirs(EVIDENCE_DIR, exist_ok=True)
        if new_viol:
            with open(viol_path, "w") as fh:
                json.dump({"property": prop, "repo_digest": ctx.ix.digest if ctx else None,
                           "violations": [o.as_dict() for o in new_viol]}, fh, indent=1)
        elif os.path.exists(viol_path):
            os.remove(viol_path)
        with open(ev_path, "w") as fh:
            json.dump(evidence, fh, indent=1, default=str)
    if new_viol:
        out(f"VIOLATION property={prop} replay={viol_path}")
    if exit_code == 0:
        n_ok = sum(1 for o in obs if o.verdict == "ok")
        out(f"OK property={prop} tier={tier} obligations={len(obs)} discharged={n_ok} known_findings={len(known_hits)} "
            f"functions={len(ctx.functions_analysed) if ctx else 0} wall={evidence['wall_s']}s")
    return exit_code
