"""E0 - program index over the syntax trees of <repo>/src/leaspy.

Nothing of leaspy (nor torch) is imported: modules are parsed with `ast`,
imports / re-exports are resolved by name, classes get a C3 MRO and a method
table.  A module that does not parse is an analysis error (never skipped).
"""
from __future__ import annotations

import ast
import builtins
import hashlib
import os
import warnings
from typing import Dict, Iterator, List, Optional, Tuple

PKG = "leaspy"


class AnalysisError(Exception):
    """The analyser cannot decide (anchor vanished, unsupported idiom, ...).

    Mapped to exit status 2 / `ANALYSIS-ERROR`, never to a violation.
    """

    def __init__(self, rule: str, reason: str):
        super().__init__(f"{rule}: {reason}")
        self.rule = rule
        self.reason = reason


class Module:
    def __init__(self, name: str, path: str, rel: str, src: str, tree: ast.Module):
        self.name = name
        self.path = path
        self.rel = rel  # path relative to the repository root
        self.src = src
        self.tree = tree
        self.defs: Dict[str, ast.AST] = {}
        self.imports: Dict[str, Tuple[str, Optional[str]]] = {}
        self.is_pkg = path.endswith("__init__.py")


ClassKey = Tuple[str, str]  # (module name, class name)


class Func:
    """A function or method definition."""

    __slots__ = ("mod", "qual", "node", "cls", "decorators")

    def __init__(self, mod: str, qual: str, node: ast.AST, cls: Optional[ClassKey]):
        self.mod = mod
        self.qual = qual
        self.node = node
        self.cls = cls
        self.decorators = [ast.unparse(d) for d in node.decorator_list]

    @property
    def key(self):
        return (self.mod, self.qual)

    @property
    def name(self):
        return self.node.name

    @property
    def kind(self) -> str:
        if self.cls is None:
            return "function"
        for d in self.decorators:
            if d == "staticmethod":
                return "static"
            if d == "classmethod":
                return "class"
            if d == "property" or d.endswith(".setter") or d in ("cached_property", "functools.cached_property"):
                return "property"
        return "method"

    def __repr__(self):
        return f"<Func {self.mod}:{self.qual}>"


_LOG_METHODS = {"debug", "info", "warning", "warn", "error", "exception", "critical", "log"}


def _drop_stdlib_logging(tree: ast.AST) -> None:
    """Statements that only talk to the standard `logging` module have no effect on any value the library computes; they are removed from
    the program the rules read (leaspy itself reports through `warnings` and its own callables, never through `logging`):
    function-local `import logging`, `name = logging.getLogger(...)`, and expression statements `<logger>.debug/info/...(args)` whose
    arguments contain no call.  `<logger>` is `logging`, `logging.getLogger(...)` or a name bound to `logging.getLogger(...)`."""
    def is_getlogger(e):
        return isinstance(e, ast.Call) and isinstance(e.func, ast.Attribute) and e.func.attr == "getLogger" and isinstance(e.func.value, ast.Name) and e.func.value.id == "logging"
    imported = any(isinstance(n, ast.Import) and any(a.name == "logging" and a.asname is None for a in n.names) for n in ast.walk(tree))
    if not imported:
        return
    loggers = {t.id for n in ast.walk(tree) if isinstance(n, ast.Assign) and is_getlogger(n.value) for t in n.targets if isinstance(t, ast.Name)}
    # a name bound to something else as well is not a logger
    for n in ast.walk(tree):
        if isinstance(n, ast.Assign) and not is_getlogger(n.value):
            for t in n.targets:
                if isinstance(t, ast.Name):
                    loggers.discard(t.id)

    def is_logger(e):
        return (isinstance(e, ast.Name) and (e.id == "logging" or e.id in loggers)) or is_getlogger(e)

    def pure(e):
        return not any(isinstance(x, (ast.Call, ast.Yield, ast.YieldFrom, ast.Await, ast.NamedExpr)) for x in ast.walk(e))

    def droppable(st, in_function):
        if isinstance(st, ast.Import) and in_function and all(a.name == "logging" and a.asname is None for a in st.names):
            return True
        if isinstance(st, ast.Assign) and in_function and is_getlogger(st.value) and all(isinstance(t, ast.Name) for t in st.targets) and all(pure(a) for a in st.value.args):
            return True
        if isinstance(st, ast.Expr) and isinstance(st.value, ast.Call) and isinstance(st.value.func, ast.Attribute) and st.value.func.attr in _LOG_METHODS \
                and is_logger(st.value.func.value) and all(pure(a) for a in st.value.args) and all(pure(k.value) for k in st.value.keywords) \
                and (not is_getlogger(st.value.func.value) or all(pure(a) for a in st.value.func.value.args)):
            return True
        return False

    def visit(holder, in_function):
        for field in ("body", "orelse", "finalbody", "handlers"):
            body = getattr(holder, field, None)
            if not isinstance(body, list):
                continue
            if field != "handlers":
                kept = [st for st in body if not droppable(st, in_function)]
                if len(kept) != len(body):
                    if not kept and field == "body":
                        ps = ast.Pass()
                        ast.copy_location(ps, body[0])
                        kept = [ps]
                    body[:] = kept
            for st in body:
                visit(st, in_function or isinstance(st, (ast.FunctionDef, ast.AsyncFunctionDef)))
        for cs in getattr(holder, "cases", []) or []:
            visit(cs, in_function)
    visit(tree, False)


# classes whose private "writer helpers" are read as part of the methods calling them: {module: {class: protected attributes}}
INLINE_WRITER_HELPERS = {"leaspy.variables.state": {"State": ("_values", "_last_fork")}}


def _inline_private_writers(tree: ast.AST, class_name: str, attrs) -> None:
    """Extract-method normal form for the cache owner: a private method of `class_name` that stores into one of its protected attributes and
    returns nothing, called as a statement `self._helper(args)` from another method of the class, is read as if its body stood at the call
    (parameters bound to the arguments, its locals kept apart).  The helper itself stays defined (and analysed) as well."""
    import copy as _copy
    cls = next((n for n in tree.body if isinstance(n, ast.ClassDef) and n.name == class_name), None)
    if cls is None:
        return
    methods = {n.name: n for n in cls.body if isinstance(n, ast.FunctionDef)}

    def writes_protected(fn):
        for n in ast.walk(fn):
            if isinstance(n, (ast.Assign, ast.AugAssign, ast.AnnAssign)):
                for t in (n.targets if isinstance(n, ast.Assign) else [n.target]):
                    b = t.value if isinstance(t, ast.Subscript) else t
                    if isinstance(b, ast.Attribute) and b.attr in attrs and isinstance(b.value, ast.Name) and b.value.id == "self":
                        return True
        return False

    def inlinable(fn):
        if not (fn.name.startswith("_") and not fn.name.startswith("__")) or fn.decorator_list or fn.args.vararg or fn.args.kwarg or fn.args.posonlyargs or fn.args.kwonlyargs:
            return False
        for n in ast.walk(fn):
            if isinstance(n, (ast.Yield, ast.YieldFrom, ast.Await, ast.Global, ast.Nonlocal)) or (isinstance(n, ast.FunctionDef) and n is not fn) or isinstance(n, ast.Lambda):
                return False
            if isinstance(n, ast.Return) and (n.value is not None or n is not fn.body[-1]):
                return False
        return writes_protected(fn)
    helpers = {k: v for k, v in methods.items() if inlinable(v)}
    if not helpers:
        return
    original = {k: _copy.deepcopy(v) for k, v in helpers.items()}

    def splice(caller, call, depth):
        h = original[call.func.attr]
        params = [a.arg for a in h.args.args][1:]
        bound = {}
        for i, a in enumerate(call.args):
            if isinstance(a, ast.Starred) or i >= len(params):
                return None
            bound[params[i]] = a
        for k in call.keywords:
            if k.arg is None or k.arg not in params or k.arg in bound:
                return None
            bound[k.arg] = k.value
        defaults = dict(zip(params[len(params) - len(h.args.defaults):], h.args.defaults))
        for p_ in params:
            if p_ not in bound:
                if p_ not in defaults:
                    return None
                bound[p_] = defaults[p_]
        body = [_copy.deepcopy(st) for st in h.body]
        if body and isinstance(body[0], ast.Expr) and isinstance(body[0].value, ast.Constant) and isinstance(body[0].value.value, str):
            body = body[1:]
        if body and isinstance(body[-1], ast.Return):
            body = body[:-1]
        assigned = {n.id for st in body for n in ast.walk(st) if isinstance(n, ast.Name) and isinstance(n.ctx, (ast.Store, ast.Del))}
        caller_names = {n.id for n in ast.walk(caller) if isinstance(n, ast.Name)} | {a.arg for a in caller.args.args}
        ren, pre = {}, []
        for p_ in params:
            a = bound[p_]
            if isinstance(a, ast.Name) and p_ not in assigned:
                ren[p_] = a.id
            else:
                nm = p_ if (p_ not in caller_names and not isinstance(a, ast.Name)) else f"{p_}__{h.name.strip('_')}"
                ren[p_] = nm
                asg = ast.Assign(targets=[ast.Name(id=nm, ctx=ast.Store())], value=a)
                pre.append(ast.copy_location(asg, call))
        for nm in assigned - set(params):
            ren[nm] = nm if nm not in caller_names else f"{nm}__{h.name.strip('_')}"
        for st in body:
            for n in ast.walk(st):
                if isinstance(n, ast.Name) and n.id in ren:
                    n.id = ren[n.id]
        out = pre + body
        for st in out:
            ast.fix_missing_locations(st)
        return out or [ast.copy_location(ast.Pass(), call)]

    def visit(caller, holder, depth):
        for field in ("body", "orelse", "finalbody"):
            body = getattr(holder, field, None)
            if not isinstance(body, list):
                continue
            new = []
            for st in body:
                c = st.value if isinstance(st, ast.Expr) else None
                if isinstance(c, ast.Call) and isinstance(c.func, ast.Attribute) and isinstance(c.func.value, ast.Name) and c.func.value.id == "self" \
                        and c.func.attr in helpers and c.func.attr != caller.name and depth < 3:
                    sp = splice(caller, c, depth)
                    if sp is not None:
                        for s2 in sp:
                            visit(caller, s2, depth + 1)
                        new.extend(sp)
                        continue
                if not isinstance(st, (ast.FunctionDef, ast.AsyncFunctionDef, ast.ClassDef)):
                    visit(caller, st, depth)
                new.append(st)
            body[:] = new
        for hd in getattr(holder, "handlers", []) or []:
            visit(caller, hd, depth)
    for m in methods.values():
        visit(m, m, 0)


def _inline_setting_readers(trees) -> None:
    """Accessor normal form.  A *setting reader* is a private method or property (name `_x`, defined once in the package, no decorator other
    than `@property`) whose body is `return self.<attr>[KEY]` / `return self.<attr>.get(KEY[, default])` with KEY built from constants and
    its own parameters (f-string, concatenation), or `return self.<another setting reader>(...)`.  Every `self._x(args)` / `self._x` in the
    package is read as that lookup (parameters bound to the arguments, constant f-strings folded, `.get(K)` / `.get(K, None)` read as `[K]`),
    so reading a configured value directly or through such an accessor is one program for the rules - and a reader that builds another key
    than the one it is meant to read shows that key."""
    import copy as _copy
    defs = {}
    counts = {}
    for t in trees:
        for c in ast.walk(t):
            if isinstance(c, ast.ClassDef):
                for b in c.body:
                    if isinstance(b, (ast.FunctionDef, ast.AsyncFunctionDef)):
                        counts[b.name] = counts.get(b.name, 0) + 1
                        defs.setdefault(b.name, b)
            elif isinstance(c, (ast.FunctionDef, ast.AsyncFunctionDef)):
                counts.setdefault(c.name, 0)
    # module-level homonyms
    for t in trees:
        for b in getattr(t, "body", []):
            if isinstance(b, (ast.FunctionDef, ast.AsyncFunctionDef)):
                counts[b.name] = counts.get(b.name, 0) + 1

    def body_expr(fn):
        body = [b for b in fn.body if not (isinstance(b, ast.Expr) and isinstance(b.value, ast.Constant))]
        return body[0].value if len(body) == 1 and isinstance(body[0], ast.Return) and body[0].value is not None else None

    def key_ok(k, params):
        if isinstance(k, ast.Constant):
            return True
        if isinstance(k, ast.Name):
            return k.id in params
        if isinstance(k, ast.JoinedStr):
            return all(isinstance(v, ast.Constant) or (isinstance(v, ast.FormattedValue) and v.format_spec is None and v.conversion == -1 and key_ok(v.value, params)) for v in k.values)
        if isinstance(k, ast.BinOp) and isinstance(k.op, ast.Add):
            return key_ok(k.left, params) and key_ok(k.right, params)
        return False

    def self_attr(e):
        return isinstance(e, ast.Attribute) and isinstance(e.value, ast.Name) and e.value.id == "self"

    def simple(e, params):
        return isinstance(e, ast.Constant) or (isinstance(e, ast.Name) and e.id in params)
    readers = {}
    for _ in range(2):
        for name, fn in defs.items():
            if name in readers or counts.get(name, 0) != 1 or not (name.startswith("_") and not name.startswith("__")) or not isinstance(fn, ast.FunctionDef):
                continue
            decs = [ast.unparse(d) for d in fn.decorator_list]
            if decs not in ([], ["property"]) or fn.args.vararg or fn.args.kwarg or fn.args.kwonlyargs or fn.args.posonlyargs or not fn.args.args or fn.args.args[0].arg != "self":
                continue
            e = body_expr(fn)
            if e is None:
                continue
            params = [a.arg for a in fn.args.args][1:]

            def lookup(x):
                if isinstance(x, ast.Subscript) and self_attr(x.value) and key_ok(x.slice, params):
                    return True
                if isinstance(x, ast.Call) and isinstance(x.func, ast.Attribute) and x.func.attr == "get" and self_attr(x.func.value) and not x.keywords and 1 <= len(x.args) <= 2 \
                        and key_ok(x.args[0], params) and (len(x.args) == 1 or simple(x.args[1], params) or (isinstance(x.args[1], (ast.Dict, ast.List, ast.Tuple)) and not ast.unparse(x.args[1]).strip("{}[]()"))):
                    return True
                if isinstance(x, ast.Call) and self_attr(x.func) and x.func.attr in readers and not x.keywords and all(simple(a, params) for a in x.args):
                    return True
                return False
            ok = lookup(e) or (isinstance(e, ast.Tuple) and len(e.elts) >= 2 and all(lookup(x) for x in e.elts))
            if ok:
                readers[name] = (fn, params, decs == ["property"])
    if not readers:
        return

    def fold(e):
        """constant f-strings / concatenations -> one constant; `.get(K)` / `.get(K, None)` -> `[K]`"""
        class F(ast.NodeTransformer):
            def visit_JoinedStr(self, n):
                self.generic_visit(n)
                parts = []
                for v in n.values:
                    if isinstance(v, ast.Constant):
                        parts.append(str(v.value))
                    elif isinstance(v, ast.FormattedValue) and isinstance(v.value, ast.Constant) and v.format_spec is None and v.conversion == -1:
                        parts.append(str(v.value.value))
                    else:
                        return n
                return ast.copy_location(ast.Constant("".join(parts)), n)

            def visit_BinOp(self, n):
                self.generic_visit(n)
                if isinstance(n.op, ast.Add) and isinstance(n.left, ast.Constant) and isinstance(n.right, ast.Constant) and isinstance(n.left.value, str) and isinstance(n.right.value, str):
                    return ast.copy_location(ast.Constant(n.left.value + n.right.value), n)
                return n

            def visit_Call(self, n):
                self.generic_visit(n)
                if isinstance(n.func, ast.Attribute) and n.func.attr == "get" and not n.keywords and n.args and isinstance(n.args[0], ast.Constant) \
                        and (len(n.args) == 1 or (len(n.args) == 2 and isinstance(n.args[1], ast.Constant) and n.args[1].value is None)):
                    return ast.copy_location(ast.Subscript(value=n.func.value, slice=n.args[0], ctx=ast.Load()), n)
                return n
        return F().visit(e)

    def expand(node, depth=0):
        """the lookup a `self._x(args)` / `self._x` node stands for, or None"""
        if depth > 3:
            return None
        call = node if isinstance(node, ast.Call) else None
        ref = call.func if call is not None else node
        if not (self_attr(ref) and ref.attr in readers):
            return None
        fn, params, is_prop = readers[ref.attr]
        if is_prop != (call is None):
            return None
        bound = {}
        if call is not None:
            if call.keywords and any(k.arg is None or k.arg not in params for k in call.keywords):
                return None
            for i, a in enumerate(call.args):
                if isinstance(a, ast.Starred) or i >= len(params):
                    return None
                bound[params[i]] = a
            for k in call.keywords:
                bound[k.arg] = k.value
            defaults = dict(zip(params[len(params) - len(fn.args.defaults):], fn.args.defaults))
            for p_ in params:
                if p_ not in bound:
                    if p_ not in defaults:
                        return None
                    bound[p_] = defaults[p_]
        e = _copy.deepcopy(body_expr(fn))

        class S(ast.NodeTransformer):
            def visit_Name(self, n):
                return _copy.deepcopy(bound[n.id]) if n.id in bound else n
        e = S().visit(e)
        if isinstance(e, ast.Tuple):
            e.elts = [expand(x, depth + 1) or x for x in e.elts]
        else:
            inner = expand(e, depth + 1)
            if inner is not None:
                e = inner
        e = fold(e)
        for x in ast.walk(e):
            ast.copy_location(x, node)
        return e

    class R(ast.NodeTransformer):
        def visit_Call(self, n):
            self.generic_visit(n)
            e = expand(n)
            return e if e is not None else n

        def visit_Attribute(self, n):
            self.generic_visit(n)
            if isinstance(n.ctx, ast.Load):
                e = expand(n)
                if e is not None:
                    return e
            return n

        def visit_FunctionDef(self, n):
            if n.name in readers and readers[n.name][0] is n:
                return n  # the definition itself is kept as written
            self.generic_visit(n)
            return n
    for t in trees:
        R().visit(t)
        ast.fix_missing_locations(t)


def normalise_tree(tree: ast.AST) -> None:
    """Behaviour-preserving normal form applied to every module before any rule looks at it:
    `x = EXPR` immediately followed by `return x` (x a plain local) becomes `return EXPR` (keeps the position of EXPR's statement);
    an equality written with the enum member / literal on the left is turned round;
    statements that only talk to the standard `logging` module are dropped (see `_drop_stdlib_logging`);
    a two-armed `if` / conditional expression whose test is negated (`not c`, `!=`, `is not`, `not in`) gets the positive test and exchanged branches.
    Rules therefore see the same program whether or not a result is named before being returned."""
    # `CONSTANT == x` -> `x == CONSTANT` (equalities with an enum member / literal on one side only): one orientation for the rules to read
    def _constlike(e):
        return isinstance(e, ast.Constant) or (isinstance(e, ast.Attribute) and isinstance(e.value, ast.Name) and e.value.id[:1].isupper() and e.attr.isupper())
    for c in ast.walk(tree):
        if isinstance(c, ast.Compare) and len(c.ops) == 1 and isinstance(c.ops[0], (ast.Eq, ast.NotEq)) and _constlike(c.left) and not _constlike(c.comparators[0]):
            c.left, c.comparators[0] = c.comparators[0], c.left
    _drop_stdlib_logging(tree)
    # two-armed `if` / conditional expression with a negated test (`not c`, `!=`, `is not`, `not in`): positive test, branches exchanged
    _NEG = {ast.NotEq: ast.Eq, ast.IsNot: ast.Is, ast.NotIn: ast.In}

    def _positive(t):
        if isinstance(t, ast.UnaryOp) and isinstance(t.op, ast.Not):
            return t.operand
        if isinstance(t, ast.Compare) and len(t.ops) == 1 and type(t.ops[0]) in _NEG:
            c = ast.Compare(left=t.left, ops=[_NEG[type(t.ops[0])]()], comparators=t.comparators)
            return ast.copy_location(c, t)
        return None
    for n in ast.walk(tree):
        if (isinstance(n, ast.If) and n.orelse and not (len(n.orelse) == 1 and isinstance(n.orelse[0], ast.If))) or isinstance(n, ast.IfExp):
            pt = _positive(n.test)
            if pt is not None:
                n.test = pt
                n.body, n.orelse = n.orelse, n.body
    for fn in ast.walk(tree):
        if not isinstance(fn, (ast.FunctionDef, ast.AsyncFunctionDef)):
            continue
        declared = {n for g in ast.walk(fn) if isinstance(g, (ast.Global, ast.Nonlocal)) for n in g.names}
        captured = {x.id for inner in ast.walk(fn) if isinstance(inner, (ast.FunctionDef, ast.Lambda)) and inner is not fn for x in ast.walk(inner) if isinstance(x, ast.Name)}
        for holder in ast.walk(fn):
            for field in ("body", "orelse", "finalbody"):
                body = getattr(holder, field, None)
                if not isinstance(body, list) or len(body) < 2:
                    continue
                a, r = body[-2], body[-1]
                if isinstance(r, ast.Return) and isinstance(r.value, ast.Name) and isinstance(a, ast.Assign) and len(a.targets) == 1 \
                        and isinstance(a.targets[0], ast.Name) and a.targets[0].id == r.value.id and a.targets[0].id not in declared | captured:
                    nr = ast.Return(value=a.value)
                    ast.copy_location(nr, a)
                    nr.end_lineno, nr.end_col_offset = getattr(a, "end_lineno", None), getattr(a, "end_col_offset", None)
                    body[-2:] = [nr]


class Index:
    def __init__(self, repo: str):
        self.repo = os.path.abspath(repo)
        self.src_root = os.path.join(self.repo, "src")
        self.mods: Dict[str, Module] = {}
        self.classes: Dict[ClassKey, ast.ClassDef] = {}
        self.funcs: Dict[Tuple[str, str], Func] = {}
        self.by_name: Dict[str, List[Func]] = {}
        self._mro_cache: Dict[ClassKey, List[ClassKey]] = {}
        self._subclasses: Optional[Dict[ClassKey, List[ClassKey]]] = None
        self._load()

    # ------------------------------------------------------------------ load
    def _load(self):
        pkg_dir = os.path.join(self.src_root, PKG)
        if not os.path.isdir(pkg_dir):
            raise AnalysisError("E0", f"package directory not found: {pkg_dir}")
        h = hashlib.sha256()
        parsed = []
        for dp, dn, fn in sorted(os.walk(pkg_dir)):
            dn.sort()
            for f in sorted(fn):
                if not f.endswith(".py"):
                    continue
                p = os.path.join(dp, f)
                name = os.path.relpath(p, self.src_root)[:-3].replace(os.sep, ".")
                if name.endswith(".__init__"):
                    name = name[: -len(".__init__")]
                with open(p, encoding="utf-8") as fh:
                    src = fh.read()
                h.update(name.encode())
                h.update(src.encode())
                try:
                    with warnings.catch_warnings():
                        warnings.simplefilter("ignore")
                        tree = ast.parse(src, p)
                except SyntaxError as e:
                    raise AnalysisError("E0", f"{p} does not parse: {e}")
                parsed.append((name, p, src, tree))
        _inline_setting_readers([t for _, _, _, t in parsed])
        for name, p, src, tree in parsed:
            for cls_name, attrs in INLINE_WRITER_HELPERS.get(name, {}).items():
                _inline_private_writers(tree, cls_name, attrs)
            normalise_tree(tree)
            self.mods[name] = Module(name, p, os.path.relpath(p, self.repo), src, tree)
        self.digest = h.hexdigest()[:16]
        Index._serial = getattr(Index, "_serial", 0) + 1
        self.serial = f"#{Index._serial}"  # caches keyed by it never mix objects of two Index instances
        for m in self.mods.values():
            self._index_module(m)

    def _index_module(self, m: Module):
        def scan_body(body):
            for n in body:
                if isinstance(n, (ast.FunctionDef, ast.AsyncFunctionDef, ast.ClassDef)):
                    m.defs[n.name] = n
                elif isinstance(n, ast.Assign):
                    for t in n.targets:
                        if isinstance(t, ast.Name):
                            m.defs[t.id] = n
                elif isinstance(n, ast.AnnAssign) and isinstance(n.target, ast.Name):
                    m.defs[n.target.id] = n
                elif isinstance(n, (ast.If, ast.Try)):
                    # e.g. `if TYPE_CHECKING:` blocks
                    for sub in ("body", "orelse", "finalbody"):
                        scan_body(getattr(n, sub, []) or [])

        scan_body(m.tree.body)
        for n in ast.walk(m.tree):
            if isinstance(n, ast.ImportFrom):
                src = self._resolve_from(m, n.level, n.module)
                for a in n.names:
                    m.imports[a.asname or a.name] = (src, a.name)
            elif isinstance(n, ast.Import):
                for a in n.names:
                    if a.asname:
                        m.imports[a.asname] = (a.name, None)
                    else:
                        m.imports[a.name.split(".")[0]] = (a.name.split(".")[0], None)
        for n in m.tree.body:
            if isinstance(n, (ast.FunctionDef, ast.AsyncFunctionDef)):
                self._add_func(Func(m.name, n.name, n, None))
            elif isinstance(n, ast.ClassDef):
                self.classes[(m.name, n.name)] = n
                for b in n.body:
                    if isinstance(b, (ast.FunctionDef, ast.AsyncFunctionDef)):
                        f = Func(m.name, f"{n.name}.{b.name}", b, (m.name, n.name))
                        # keep the *last* definition under the plain key (property setter after getter
                        # must not hide the getter: getter wins)
                        if f.key in self.funcs and self.funcs[f.key].kind == "property":
                            self.by_name.setdefault(b.name, []).append(f)
                            continue
                        self._add_func(f)

    def _add_func(self, f: Func):
        self.funcs[f.key] = f
        self.by_name.setdefault(f.name, []).append(f)

    @staticmethod
    def _resolve_from(mod: Module, level: int, module: Optional[str]) -> str:
        parts = mod.name.split(".")
        if level:
            base = parts if mod.is_pkg else parts[:-1]
            base = base[: len(base) - (level - 1)]
            return ".".join(base + ([module] if module else []))
        return module or ""

    # --------------------------------------------------------------- lookups
    def lookup(self, modname: str, name: str, _seen=()):
        """Resolve `name` as seen from module `modname`.

        Returns ("def", module, node) | ("mod", module name) | ("ext", dotted name) | None.
        """
        m = self.mods.get(modname)
        if m is None:
            return None
        if name in m.defs:
            return ("def", modname, m.defs[name])
        if name in m.imports:
            src, orig = m.imports[name]
            if orig is None:
                if src in self.mods:
                    return ("mod", src)
                return ("ext", src)
            if (src, orig) in _seen:
                return None
            if src in self.mods:
                r = self.lookup(src, orig, _seen + ((src, orig),))
                if r:
                    return r
                if f"{src}.{orig}" in self.mods:
                    return ("mod", f"{src}.{orig}")
                return None
            return ("ext", f"{src}.{orig}")
        if hasattr(builtins, name):
            return ("ext", f"builtins.{name}")
        return None

    def resolve_class(self, modname: str, expr: ast.AST) -> Optional[ClassKey]:
        """Resolve an expression naming a class (Name or dotted Attribute) to a class key."""
        if isinstance(expr, ast.Subscript):
            expr = expr.value
        if isinstance(expr, ast.Name):
            r = self.lookup(modname, expr.id)
            if r and r[0] == "def" and isinstance(r[2], ast.ClassDef):
                return (r[1], r[2].name)
            return None
        if isinstance(expr, ast.Attribute):
            base = self.resolve_dotted_module(modname, expr.value)
            if base:
                r = self.lookup(base, expr.attr)
                if r and r[0] == "def" and isinstance(r[2], ast.ClassDef):
                    return (r[1], r[2].name)
        return None

    def resolve_dotted_module(self, modname: str, expr: ast.AST) -> Optional[str]:
        if isinstance(expr, ast.Name):
            r = self.lookup(modname, expr.id)
            if r and r[0] == "mod":
                return r[1]
        elif isinstance(expr, ast.Attribute):
            b = self.resolve_dotted_module(modname, expr.value)
            if b and f"{b}.{expr.attr}" in self.mods:
                return f"{b}.{expr.attr}"
        return None

    def bases(self, key: ClassKey) -> List[ClassKey]:
        out = []
        node = self.classes[key]
        for b in node.bases:
            k = self.resolve_class(key[0], b)
            if k is not None:
                out.append(k)
            else:
                bb = b.value if isinstance(b, ast.Subscript) else b
                out.append(("<ext>", ast.unparse(bb)))
        return out

    def mro(self, key: ClassKey) -> List[ClassKey]:
        if key in self._mro_cache:
            return self._mro_cache[key]
        if key[0] == "<ext>" or key not in self.classes:
            return [key]
        bs = self.bases(key)
        seqs = [list(self.mro(b)) for b in bs] + [list(bs)]
        res = [key]
        seqs = [s for s in seqs if s]
        while seqs:
            for s in seqs:
                c = s[0]
                if not any(c in t[1:] for t in seqs):
                    break
            else:
                raise AnalysisError("E0", f"inconsistent MRO for {key}")
            res.append(c)
            for s in seqs:
                if s and s[0] == c:
                    s.pop(0)
            seqs = [s for s in seqs if s]
        self._mro_cache[key] = res
        return res

    def subclasses(self, key: ClassKey) -> List[ClassKey]:
        """All classes (key included) whose MRO contains `key`."""
        if self._subclasses is None:
            self._subclasses = {}
            for k in self.classes:
                for a in self.mro(k):
                    self._subclasses.setdefault(a, []).append(k)
        return self._subclasses.get(key, [key] if key in self.classes else [])

    def is_subclass(self, key: ClassKey, ancestor_name: str) -> bool:
        return any(k[1] == ancestor_name for k in self.mro(key))

    def class_member(self, key: ClassKey, name: str, after: Optional[ClassKey] = None):
        """Find attribute `name` through the MRO: returns (owner key, node) or None.

        node is a FunctionDef, or an Assign/AnnAssign (class attribute).
        """
        chain = self.mro(key)
        if after is not None:
            chain = chain[chain.index(after) + 1 :]
        for k in chain:
            cn = self.classes.get(k)
            if cn is None:
                continue
            found = None
            for n in cn.body:
                if isinstance(n, (ast.FunctionDef, ast.AsyncFunctionDef)) and n.name == name:
                    # getter of a property wins over its setter
                    if found is None:
                        found = n
                elif isinstance(n, ast.Assign):
                    for t in n.targets:
                        if isinstance(t, ast.Name) and t.id == name and found is None:
                            found = n
                elif isinstance(n, ast.AnnAssign) and isinstance(n.target, ast.Name) and n.target.id == name:
                    if n.value is not None and found is None:
                        found = n
            if found is not None:
                return k, found
        return None

    def method(self, key: ClassKey, name: str, after: Optional[ClassKey] = None) -> Optional[Func]:
        r = self.class_member(key, name, after)
        if r and isinstance(r[1], (ast.FunctionDef, ast.AsyncFunctionDef)):
            return self.funcs.get((r[0][0], f"{r[0][1]}.{name}")) or Func(r[0][0], f"{r[0][1]}.{name}", r[1], r[0])
        return None

    def overrides(self, key: ClassKey, name: str) -> List[Func]:
        """Every definition of method `name` that a receiver statically typed `key` may dispatch to."""
        out = []
        seen = set()
        for sub in self.subclasses(key):
            f = self.method(sub, name)
            if f is not None and f.key not in seen:
                seen.add(f.key)
                out.append(f)
        return out

    # -------------------------------------------------------------- accessors
    def find_class(self, name: str, module_hint: Optional[str] = None) -> ClassKey:
        cands = [k for k in self.classes if k[1] == name and (module_hint is None or module_hint in k[0])]
        if len(cands) != 1:
            raise AnalysisError("E0", f"class {name!r} (hint {module_hint!r}) resolves to {cands}")
        return cands[0]

    def func(self, mod: str, qual: str, rule: str = "E0") -> Func:
        f = self.funcs.get((mod, qual))
        if f is None:
            raise AnalysisError(rule, f"anchor vanished: function {mod}:{qual}")
        return f

    def try_func(self, mod: str, qual: str) -> Optional[Func]:
        return self.funcs.get((mod, qual))

    def module(self, name: str, rule: str = "E0") -> Module:
        m = self.mods.get(name)
        if m is None:
            raise AnalysisError(rule, f"anchor vanished: module {name}")
        return m

    def rel(self, modname: str) -> str:
        return self.mods[modname].rel

    def iter_funcs(self) -> Iterator[Func]:
        return iter(self.funcs.values())

    def enum_members(self, key: ClassKey) -> List[Tuple[str, object]]:
        out = []
        for n in self.classes[key].body:
            if isinstance(n, ast.Assign) and len(n.targets) == 1 and isinstance(n.targets[0], ast.Name):
                if isinstance(n.value, ast.Constant):
                    out.append((n.targets[0].id, n.value.value))
                elif isinstance(n.value, ast.Call) and ast.unparse(n.value.func) == "auto":
                    out.append((n.targets[0].id, ("auto", len(out) + 1)))
        return out

    def is_enum(self, key: ClassKey) -> bool:
        return key in self.classes and any(b[1] in ("Enum", "IntEnum", "Flag", "StrEnum") for b in self.mro(key))

    def stats(self) -> dict:
        return {"modules": len(self.mods), "classes": len(self.classes), "functions": len(self.funcs), "digest": self.digest}


# ------------------------------------------------------------------ helpers
def norm(node: ast.AST) -> str:
    """Whitespace/comment-insensitive text of a statement or expression (used in construct keys)."""
    if isinstance(node, (ast.If, ast.While)):
        return f"{type(node).__name__.lower()} {ast.unparse(node.test)}"
    if isinstance(node, ast.For):
        return f"for {ast.unparse(node.target)} in {ast.unparse(node.iter)}"
    if isinstance(node, ast.With):
        return "with " + ", ".join(ast.unparse(i) for i in node.items)
    if isinstance(node, ast.Try):
        return "try"
    if isinstance(node, (ast.FunctionDef, ast.AsyncFunctionDef)):
        return f"def {node.name}"
    if isinstance(node, ast.ClassDef):
        return f"class {node.name}"
    s = ast.unparse(node)
    return " ".join(s.split())


def walk_no_nested(node: ast.AST) -> Iterator[ast.AST]:
    """ast.walk that does not descend into nested function/class definitions or lambdas."""
    todo = list(ast.iter_child_nodes(node))
    while todo:
        n = todo.pop()
        yield n
        if isinstance(n, (ast.FunctionDef, ast.AsyncFunctionDef, ast.ClassDef, ast.Lambda)):
            continue
        todo.extend(ast.iter_child_nodes(n))


def calls_in(node: ast.AST, nested: bool = True) -> List[ast.Call]:
    it = ast.walk(node) if nested else walk_no_nested(node)
    return sorted((n for n in it if isinstance(n, ast.Call)), key=lambda c: (c.lineno, c.col_offset))


def attr_chain(e: ast.AST) -> Optional[List[str]]:
    """`a.b.c` -> ['a','b','c'] (None when the root is not a Name)."""
    parts = []
    while isinstance(e, ast.Attribute):
        parts.append(e.attr)
        e = e.value
    if isinstance(e, ast.Name):
        parts.append(e.id)
        return parts[::-1]
    return None


def root_name(e: ast.AST) -> Optional[str]:
    while isinstance(e, (ast.Attribute, ast.Subscript, ast.Call)):
        e = e.value if not isinstance(e, ast.Call) else e.func
    return e.id if isinstance(e, ast.Name) else None
