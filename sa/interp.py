"""E3 - mini symbolic interpreter over the syntax trees of the repository.

It evaluates the *declarative layer* of leaspy (model `get_variables_specs`
chains, observation-model factories, `ModelParameter.for_*`, `NamedVariables`,
`NamedInputFunction`, `SymbolicDistribution`) directly from the AST, without
importing leaspy or torch.  Repository classes are instantiated symbolically
(`Obj`), external calls (`torch.*`, ...) are delegated to `ext_call`, which
abstract domains (sa/domains) override with their transfer functions; the same
interpreter is therefore also the engine of the abstract interpretations.

Anything outside the supported subset raises `Unsupported` -> analysis error
(exit 2), never a verdict.
"""
from __future__ import annotations

import ast
import operator
from typing import Any, Dict, List, Optional, Tuple

from .index import AnalysisError, ClassKey, Func, Index


class Unsupported(Exception):
    pass


class PyRaise(Exception):
    """The interpreted program raised an exception."""

    def __init__(self, exc_name: str, msg: str = "", node=None):
        super().__init__(f"{exc_name}: {msg}")
        self.exc_name = exc_name
        self.msg = msg
        self.node = node


class _Return(Exception):
    def __init__(self, v):
        self.v = v


class _Break(Exception):
    pass


class _Continue(Exception):
    pass


# ----------------------------------------------------------------- values
class Opaque:
    """A value the interpreter knows nothing about (result of an external call, ...)."""

    def __init__(self, desc: str):
        self.desc = desc

    def __repr__(self):
        return f"?{self.desc}"


class ExtCall(Opaque):
    def __init__(self, name: str, args, kw):
        super().__init__(f"{name}(...)")
        self.name = name
        self.args = args
        self.kw = kw


class Ext:
    """An external (non-repository) module, class or function, by dotted name."""

    def __init__(self, name: str):
        self.name = name

    def __repr__(self):
        return f"ext:{self.name}"

    def __eq__(self, o):
        return isinstance(o, Ext) and o.name == self.name

    def __hash__(self):
        return hash(("Ext", self.name))


class Obj:
    def __init__(self, cls: ClassKey, attrs: Optional[dict] = None):
        self.cls = cls
        self.attrs = attrs if attrs is not None else {}

    def __repr__(self):
        return f"<{self.cls[1]}>"


class ClsRef:
    def __init__(self, key: ClassKey):
        self.key = key

    def __repr__(self):
        return f"cls:{self.key[1]}"

    def __eq__(self, o):
        return isinstance(o, ClsRef) and o.key == self.key

    def __hash__(self):
        return hash(("ClsRef", self.key))


class FuncRef:
    def __init__(self, func: Func, bound=None):
        self.func = func
        self.bound = bound  # instance (method) / ClsRef (classmethod) / None

    @property
    def name(self):
        return self.func.node.name

    def __repr__(self):
        return f"fn:{self.func.qual}"


class Closure:
    def __init__(self, node, env, mod, owner):
        self.node = node
        self.env = env
        self.mod = mod
        self.owner = owner
        self.attrs = {"__name__": node.name, "__qualname__": f"<locals>.{node.name}", "__doc__": ast.get_docstring(node) or ""}

    def __repr__(self):
        return f"closure:{self.attrs.get('__name__')}"


class Lambda:
    def __init__(self, node, env):
        self.node = node
        self.env = env


class EnumMember:
    def __init__(self, key: ClassKey, name: str, value):
        self.key = key
        self.name = name
        self.value = value

    def __eq__(self, o):
        if isinstance(o, EnumMember):
            return (self.key, self.name) == (o.key, o.name)
        return False

    def __hash__(self):
        return hash((self.key, self.name))

    def __repr__(self):
        return f"{self.key[1]}.{self.name}"


class StrEnumMember(EnumMember, str):
    """Member of an Enum that also derives from str (compares equal to its value)."""

    def __new__(cls, key, name, value):
        o = str.__new__(cls, value)
        return o

    def __init__(self, key, name, value):
        EnumMember.__init__(self, key, name, value)

    def __eq__(self, o):
        if isinstance(o, EnumMember):
            return (self.key, self.name) == (o.key, o.name)
        return str.__eq__(self, o)

    def __hash__(self):
        return str.__hash__(self)


class OSet:
    """Insertion-ordered set (deterministic iteration)."""

    def __init__(self, it=(), frozen=False):
        self.d = dict.fromkeys(it)
        self.frozen = frozen

    def add(self, x):
        self.d[x] = None

    def discard(self, x):
        self.d.pop(x, None)

    def __iter__(self):
        return iter(self.d)

    def __len__(self):
        return len(self.d)

    def __contains__(self, x):
        return x in self.d

    def union(self, *o):
        r = OSet(self.d)
        for s in o:
            for x in s:
                r.add(x)
        return r

    def difference(self, *o):
        rm = set()
        for s in o:
            rm |= set(s)
        return OSet(x for x in self.d if x not in rm)

    def intersection(self, o):
        so = set(o)
        return OSet(x for x in self.d if x in so)

    def symmetric_difference(self, o):
        so = set(o)
        return OSet([x for x in self.d if x not in so] + [x for x in o if x not in self.d])

    def issubset(self, o):
        return all(x in o for x in self.d)

    def __le__(self, o):
        return self.issubset(o)

    def __eq__(self, o):
        try:
            return set(self.d) == set(o)
        except TypeError:
            return False

    def __hash__(self):
        return hash(frozenset(self.d))

    def __or__(self, o):
        return self.union(o)

    def __sub__(self, o):
        return self.difference(o)

    def __repr__(self):
        return "{" + ", ".join(map(repr, self.d)) + "}"

    def pop(self):
        k = next(iter(self.d))
        del self.d[k]
        return k


class Super:
    def __init__(self, inst, owner):
        self.inst = inst
        self.owner = owner


class Native:
    """A Python callable provided by the interpreter / a domain."""

    def __init__(self, fn, name=None):
        self.fn = fn
        self.name = name or getattr(fn, "__name__", "native")


class Both:
    """Truth value of a condition that the abstract domain cannot decide."""

    def __repr__(self):
        return "BOTH"


BOTH = Both()

_BINOPS = {
    ast.Add: operator.add, ast.Sub: operator.sub, ast.Mult: operator.mul, ast.Div: operator.truediv,
    ast.Pow: operator.pow, ast.FloorDiv: operator.floordiv, ast.Mod: operator.mod, ast.BitOr: operator.or_,
    ast.BitAnd: operator.and_, ast.MatMult: operator.matmul,
}
_CMPOPS = {
    ast.Eq: operator.eq, ast.NotEq: operator.ne, ast.Lt: operator.lt, ast.LtE: operator.le, ast.Gt: operator.gt,
    ast.GtE: operator.ge, ast.Is: lambda a, b: a is b or (a == b and isinstance(a, (EnumMember, bool, type(None), ClsRef, Ext))),
    ast.IsNot: lambda a, b: not (a is b or (a == b and isinstance(a, (EnumMember, bool, type(None), ClsRef, Ext)))),
    ast.In: lambda a, b: a in b, ast.NotIn: lambda a, b: a not in b,
}
_NATIVE_TYPES = (str, tuple, list, dict, int, float, bool, type(None), OSet, bytes, range)
EXC_NAMES = {"Exception", "ValueError", "TypeError", "KeyError", "NotImplementedError", "AttributeError", "IndexError",
             "RuntimeError", "StopIteration", "AssertionError", "ZeroDivisionError"}
_MAX_DEPTH = 60


class Frame:
    def __init__(self):
        self.pending = []  # return values of abandoned BOTH-branches


class Interp:
    """Concrete evaluator of the declarative subset. Subclass to add an abstract domain."""

    def __init__(self, ix: Index):
        self.ix = ix
        self.depth = 0
        self._const_cache: Dict[Tuple[str, str], Any] = {}
        self.primitives: Dict[Tuple[str, str], Any] = {}  # (module, qualname) -> handler(interp, args, kw)
        self.class_primitives: Dict[ClassKey, Any] = {}  # class key -> constructor handler(interp, args, kw)
        self.frames: List[Frame] = []
        self.trace: List[str] = []

    # ------------------------------------------------------------ domain hooks
    def is_abstract(self, v) -> bool:
        return False

    def ext_call(self, name: str, args, kw):
        return ExtCall(name, args, kw)

    def abs_binop(self, op, a, b):
        return Opaque("binop")

    def abs_unary(self, op, v):
        return Opaque("unary")

    def abs_compare(self, ops, vals):
        return Opaque("cmp")

    def abs_subscript(self, o, k):
        return Opaque("sub")

    def abs_getattr(self, o, name):
        return Opaque(f"{getattr(o, 'desc', o)}.{name}")

    def abs_call(self, f, args, kw):
        return Opaque(f"{getattr(f, 'desc', f)}(...)")

    def abs_truth(self, v):
        raise Unsupported(f"branch on a value the analyser cannot decide: {v!r}")

    def abs_iter(self, v):
        raise Unsupported(f"iteration over an undecidable value: {v!r}")

    def abs_range(self, args):
        raise Unsupported("range over a non-concrete bound")

    def join(self, a, b):
        if a is b:
            return a
        try:
            if type(a) is type(b) and a == b:
                return a
        except Exception:
            pass
        return Opaque("join")

    # ---------------------------------------------------------------- names
    def resolve_name(self, modname: str, name: str):
        r = self.ix.lookup(modname, name)
        if r is None:
            raise Unsupported(f"unresolved name {name!r} in {modname}")
        if r[0] == "ext":
            return Ext(r[1])
        if r[0] == "mod":
            return Ext("module:" + r[1])
        _, m, node = r
        if isinstance(node, ast.ClassDef):
            return ClsRef((m, node.name))
        if isinstance(node, (ast.FunctionDef, ast.AsyncFunctionDef)):
            return FuncRef(self.ix.funcs[(m, node.name)])
        if isinstance(node, (ast.Assign, ast.AnnAssign)):
            ck = (m, name)
            if ck not in self._const_cache:
                if node.value is None:
                    raise Unsupported(f"module-level name without value: {m}.{name}")
                self._const_cache[ck] = self.eval(node.value, {"__mod__": m, "__owner__": None})
            return self._const_cache[ck]
        raise Unsupported(f"cannot resolve {m}.{name}")

    def lookup_var(self, env, name):
        e = env
        while e is not None:
            if name in e:
                return e[name]
            e = e.get("__parent__")
        return self.resolve_name(env_mod(env), name)

    # --------------------------------------------------------------- classes
    def is_enum(self, key):
        return self.ix.is_enum(key)

    def enum_members(self, key) -> List[EnumMember]:
        strlike = any(b == ("<ext>", "str") for b in self.ix.mro(key))
        out = []
        for n, v in self.ix.enum_members(key):
            out.append(StrEnumMember(key, n, v) if strlike and isinstance(v, str) else EnumMember(key, n, v))
        return out

    def dataclass_fields(self, key) -> List[Tuple[str, Optional[ast.AST], bool, ClassKey]]:
        """(name, default expr, init?, owner) for the dataclass chain of `key` (base first)."""
        fields: Dict[str, tuple] = {}
        for k in reversed(self.ix.mro(key)):
            cn = self.ix.classes.get(k)
            if cn is None or not any("dataclass" in ast.unparse(d) for d in cn.decorator_list):
                continue
            for n in cn.body:
                if isinstance(n, ast.AnnAssign) and isinstance(n.target, ast.Name):
                    ann = ast.unparse(n.annotation)
                    if "ClassVar" in ann:
                        continue
                    init = True
                    default = n.value
                    if isinstance(default, ast.Call) and ast.unparse(default.func) in ("field", "dataclasses.field"):
                        kw = {k_.arg: k_.value for k_ in default.keywords}
                        if "init" in kw and isinstance(kw["init"], ast.Constant) and kw["init"].value is False:
                            init = False
                        default = kw.get("default")
                        if default is None and "default_factory" in kw:
                            default = ast.Call(func=kw["default_factory"], args=[], keywords=[])
                    fields[n.target.id] = (n.target.id, default, init, k)
        return list(fields.values())

    def is_dataclass(self, key) -> bool:
        return any(k in self.ix.classes and any("dataclass" in ast.unparse(d) for d in self.ix.classes[k].decorator_list)
                   for k in self.ix.mro(key))

    def dataclass_init(self, obj: Obj, args, kw):
        key = obj.cls
        fields = [f for f in self.dataclass_fields(key)]
        init_fields = [f for f in fields if f[2]]
        if len(args) > len(init_fields):
            raise PyRaise("TypeError", f"too many positional arguments for {key[1]}")
        kw = dict(kw)
        for (fn, default, _, owner), a in zip(init_fields, args):
            obj.attrs[fn] = a
        for fn, default, _, owner in init_fields[len(args):]:
            if fn in kw:
                obj.attrs[fn] = kw.pop(fn)
            elif default is not None:
                obj.attrs[fn] = self.eval(default, {"__mod__": owner[0], "__owner__": owner})
            else:
                raise PyRaise("TypeError", f"missing argument {fn} for {key[1]}")
        if kw:
            raise PyRaise("TypeError", f"unexpected keyword(s) {sorted(kw)} for {key[1]}")
        for fn, default, init, owner in fields:
            if not init and default is not None:
                obj.attrs[fn] = self.eval(default, {"__mod__": owner[0], "__owner__": owner})
        pi = self.ix.method(key, "__post_init__")
        if pi is not None:
            self.call_function(FuncRef(pi, obj), [], {})

    def construct(self, c: ClsRef, args, kw):
        key = c.key
        if key in self.class_primitives:
            return self.class_primitives[key](self, args, kw)
        if self.is_enum(key):
            if len(args) != 1:
                raise Unsupported("enum construction with !=1 argument")
            for m in self.enum_members(key):
                if m == args[0] or m.value == args[0]:
                    return m
            raise PyRaise("ValueError", f"{args[0]!r} is not a valid {key[1]}")
        if any(b[0] == "<ext>" and b[1].split(".")[-1] in EXC_NAMES for b in self.ix.mro(key)):
            return Obj(key, {"args": tuple(args)})
        obj = Obj(key)
        init = self.ix.method(key, "__init__")
        if init is not None:
            self.call_function(FuncRef(init, obj), list(args), dict(kw))
            return obj
        if self.is_dataclass(key):
            self.dataclass_init(obj, args, kw)
            return obj
        if self._has_ext_base(key, "UserDict"):
            self._userdict_init(obj, args, kw)
            return obj
        if args or kw:
            raise Unsupported(f"constructor of {key} with arguments but no __init__")
        return obj

    def _has_ext_base(self, key, name):
        return any(b[0] == "<ext>" and b[1].split(".")[-1] == name for b in self.ix.mro(key))

    # UserDict model (collections.UserDict): data dict + update() going through __setitem__
    def _userdict_init(self, obj, args, kw):
        obj.attrs["data"] = {}
        src = {}
        if args:
            a0 = args[0]
            if a0 is not None:
                src.update(self._as_mapping(a0))
        src.update(kw)
        self._userdict_update(obj, src)

    def _as_mapping(self, m):
        if isinstance(m, dict):
            return m
        if isinstance(m, Obj) and "data" in m.attrs:
            return m.attrs["data"]
        raise Unsupported(f"not a mapping: {m!r}")

    def _userdict_update(self, obj, mapping):
        setter = self.ix.method(obj.cls, "__setitem__")
        for k, v in list(mapping.items()):
            if setter is not None:
                self.call_function(FuncRef(setter, obj), [k, v], {})
            else:
                obj.attrs["data"][k] = v

    # ------------------------------------------------------------ attributes
    def getattr_(self, o, name, env=None):
        if self.is_abstract(o):
            return self.abs_getattr(o, name)
        if isinstance(o, Super):
            return self._super_attr(o, name)
        if isinstance(o, EnumMember) and name in ("value", "name"):
            return o.value if name == "value" else o.name
        if isinstance(o, _NATIVE_TYPES):
            if isinstance(o, dict) and name in ("update", "items", "get", "keys", "values", "pop", "setdefault", "copy"):
                return Native(getattr(o, name))
            if hasattr(o, name):
                return Native(getattr(o, name))
            raise PyRaise("AttributeError", f"{type(o).__name__}.{name}")
        if isinstance(o, Obj):
            if name in o.attrs:
                return o.attrs[name]
            if name == "__class__":
                return ClsRef(o.cls)
            r = self.ix.class_member(o.cls, name)
            if r is None:
                if self._has_ext_base(o.cls, "UserDict"):
                    return self._userdict_attr(o, name)
                if name == "__dict__":
                    return o.attrs
                raise PyRaise("AttributeError", f"{o.cls[1]} has no attribute {name}")
            return self._bind(r[0], r[1], o, ClsRef(o.cls), name)
        if isinstance(o, ClsRef):
            if self.is_enum(o.key):
                for m in self.enum_members(o.key):
                    if m.name == name:
                        return m
            if name == "__name__":
                return o.key[1]
            if name == "__qualname__":
                return o.key[1]
            r = self.ix.class_member(o.key, name)
            if r is None:
                raise PyRaise("AttributeError", f"class {o.key[1]} has no attribute {name}")
            return self._bind(r[0], r[1], None, o, name)
        if isinstance(o, FuncRef):
            if name in ("__name__",):
                return o.func.node.name
            if name == "__qualname__":
                return o.func.qual
            if name == "__doc__":
                return ast.get_docstring(o.func.node) or ""
            raise Unsupported(f"attribute {name} of function {o}")
        if isinstance(o, Native):
            if name in ("__name__", "__qualname__"):
                return o.name
            if name == "__doc__":
                return ""
            raise Unsupported(f"attribute {name} of native callable")
        if isinstance(o, Closure):
            if name in o.attrs:
                return o.attrs[name]
            raise PyRaise("AttributeError", name)
        if isinstance(o, Ext):
            if name == "__name__":
                return o.name.split(".")[-1]
            return Ext(o.name + "." + name)
        if isinstance(o, Opaque):
            return Opaque(f"{o.desc}.{name}")
        raise Unsupported(f"getattr {name} on {o!r}")

    def _userdict_attr(self, o: Obj, name):
        data = o.attrs.setdefault("data", {})
        if name == "update":
            return ("udupdate", o)
        if name in ("items", "keys", "values", "get", "__contains__"):
            # through the class' own __iter__/__getitem__ when defined
            if name == "get":
                return Native(data.get)
            it = self.ix.method(o.cls, "__iter__")
            gi = self.ix.method(o.cls, "__getitem__")
            if it is None and gi is None:
                return Native(getattr(data, name))
            keys = list(self.call_function(FuncRef(it, o), [], {})) if it else list(data)
            if name == "keys":
                return Native(lambda: keys)
            get = (lambda k: self.call_function(FuncRef(gi, o), [k], {})) if gi else data.__getitem__
            if name == "values":
                return Native(lambda: [get(k) for k in keys])
            return Native(lambda: [(k, get(k)) for k in keys])
        raise PyRaise("AttributeError", f"{o.cls[1]} has no attribute {name}")

    def _bind(self, owner: ClassKey, node, inst, clsref: ClsRef, name: str):
        if isinstance(node, (ast.FunctionDef, ast.AsyncFunctionDef)):
            f = self.ix.funcs.get((owner[0], f"{owner[1]}.{name}")) or Func(owner[0], f"{owner[1]}.{name}", node, owner)
            if f.node is not node:
                f = Func(owner[0], f"{owner[1]}.{name}", node, owner)
            k = f.kind
            if k == "property":
                if inst is None:
                    return Opaque(f"property {name}")
                return self.call_function(FuncRef(f, inst), [], {})
            if k == "static":
                return FuncRef(f, None)
            if k == "class":
                return FuncRef(f, clsref)
            if inst is None:
                return FuncRef(f, None)
            return FuncRef(f, inst)
        if node.value is None:
            raise PyRaise("AttributeError", name)
        return self.eval(node.value, {"__mod__": owner[0], "__owner__": owner})

    def _super_attr(self, sup, name):
        inst, owner = sup.inst, sup.owner
        ck = inst.cls if isinstance(inst, Obj) else inst.key
        r = self.ix.class_member(ck, name, after=owner)
        if r is None:
            # fall back on modelled external bases
            if name == "__init__":
                if isinstance(inst, Obj) and self._has_ext_base(ck, "UserDict"):
                    return ("udinit", inst)
                if isinstance(inst, Obj) and self.is_dataclass(ck):
                    return ("dcinit", inst)
                return Native(lambda *a, **k: None)
            if isinstance(inst, Obj) and self._has_ext_base(ck, "UserDict"):
                data = inst.attrs.setdefault("data", {})
                if name == "__setitem__":
                    return Native(data.__setitem__)
                if name == "__getitem__":
                    def _get(k):
                        if k not in data:
                            raise PyRaise("KeyError", repr(k))
                        return data[k]
                    return Native(_get)
                if name == "__len__":
                    return Native(data.__len__)
                if name == "__iter__":
                    return Native(lambda: iter(list(data)))
            raise Unsupported(f"super().{name} not found after {owner} for {ck}")
        return self._bind(r[0], r[1], inst if isinstance(inst, Obj) else None, ClsRef(ck), name)

    def setattr_(self, o, name, v):
        if isinstance(o, (Obj, Closure)):
            o.attrs[name] = v
        elif isinstance(o, Opaque):
            pass
        else:
            raise Unsupported(f"setattr {name} on {o!r}")

    # ----------------------------------------------------------------- calls
    def call(self, f, args, kw):
        if isinstance(f, FuncRef):
            return self.call_function(f, args, kw)
        if isinstance(f, Closure):
            return self.call_closure(f, args, kw)
        if isinstance(f, Lambda):
            env = {"__parent__": f.env}
            self._bind_params(f.node.args, list(args), dict(kw), env, f.env)
            return self.eval(f.node.body, env)
        if isinstance(f, ClsRef):
            return self.construct(f, args, kw)
        if isinstance(f, Native):
            try:
                return f.fn(*args, **kw)
            except (PyRaise, Unsupported):
                raise
            except KeyError as e:
                raise PyRaise("KeyError", str(e))
            except (TypeError, ValueError, IndexError, AttributeError) as e:
                raise PyRaise(type(e).__name__, str(e))
        if isinstance(f, tuple) and f:
            tag = f[0]
            if tag == "dcinit":
                self.dataclass_init(f[1], args, kw)
                return None
            if tag == "udinit":
                self._userdict_init(f[1], args, kw)
                return None
            if tag == "udupdate":
                src = {}
                if args:
                    src.update(self._as_mapping(args[0]))
                src.update(kw)
                self._userdict_update(f[1], src)
                return None
        if isinstance(f, Obj):
            m = self.ix.method(f.cls, "__call__")
            if m is None:
                raise PyRaise("TypeError", f"{f} is not callable")
            return self.call_function(FuncRef(m, f), args, kw)
        if isinstance(f, Ext):
            return self.call_ext(f.name, args, kw)
        if self.is_abstract(f) or isinstance(f, Opaque):
            return self.abs_call(f, args, kw)
        raise Unsupported(f"call of {f!r}")

    def call_ext(self, n, args, kw):
        b = n[len("builtins."):] if n.startswith("builtins.") else None
        if b is not None:
            return self.call_builtin(b, args, kw)
        if n == "object.__setattr__":
            self.setattr_(args[0], args[1], args[2])
            return None
        if n in ("copy.deepcopy", "copy.copy"):
            return args[0]
        if n in ("warnings.warn",):
            return None
        if n.startswith("operator.") and n.split(".")[1] in ("add", "sub", "mul", "truediv", "pow", "matmul") and len(args) == 2:
            op = {"add": ast.Add(), "sub": ast.Sub(), "mul": ast.Mult(), "truediv": ast.Div(), "pow": ast.Pow(), "matmul": ast.MatMult()}[n.split(".")[1]]
            return self.binop(op, args[0], args[1])
        if n in ("functools.reduce", "reduce"):
            it = list(self.iterate(args[1]))
            if len(args) > 2:
                acc = args[2]
            elif it:
                acc, it = it[0], it[1:]
            else:
                raise PyRaise("TypeError", "reduce() of empty iterable with no initial value")
            for x in it:
                acc = self.call(args[0], [acc, x], {})
            return acc
        if n in ("inspect.signature", "signature"):
            raise Unsupported("inspect.signature (summarised through get_named_parameters)")
        return self.ext_call(n, args, kw)

    def call_builtin(self, b, args, kw):
        a0 = args[0] if args else None
        if b == "object.__setattr__":
            self.setattr_(args[0], args[1], args[2])
            return None
        if any(self.is_abstract(a) for a in args) and b not in ("isinstance", "len", "dict", "tuple", "list", "getattr", "hasattr", "type", "str", "repr", "print", "id", "super", "zip", "enumerate", "set", "frozenset", "sorted", "iter", "next", "map", "any", "all", "sum", "max", "min"):
            return self.abs_call(Ext("builtins." + b), args, kw)
        if b == "len":
            if isinstance(a0, Obj):
                m = self.ix.method(a0.cls, "__len__")
                if m:
                    return self.call_function(FuncRef(m, a0), [], {})
            if isinstance(a0, Opaque) or self.is_abstract(a0):
                return self.abs_call(Ext("builtins.len"), args, kw)
            return len(a0)
        if b == "isinstance":
            return self.isinstance_(a0, args[1])
        if b == "issubclass":
            c = args[1]
            cs = c if isinstance(c, tuple) else (c,)
            return isinstance(a0, ClsRef) and any(isinstance(ci, ClsRef) and ci.key in self.ix.mro(a0.key) for ci in cs)
        if b in ("tuple", "list"):
            it = self.iterate(a0) if args else []
            return tuple(it) if b == "tuple" else list(it)
        if b == "dict":
            d = {}
            if args:
                if isinstance(a0, (dict,)) or (isinstance(a0, Obj)):
                    d.update(self._as_mapping(a0) if not isinstance(a0, dict) else a0)
                else:
                    d.update(dict(self.iterate(a0)))
            d.update(kw)
            return d
        if b in ("set", "frozenset"):
            return OSet(self.iterate(a0) if args else (), frozen=(b == "frozenset"))
        if b == "str":
            return self.str_(a0) if args else ""
        if b == "repr":
            return self.str_(a0)
        if b in ("int", "float", "bool"):
            if isinstance(a0, (int, float, bool, str)):
                return {"int": int, "float": float, "bool": bool}[b](a0)
            if isinstance(a0, Opaque):
                return Opaque(f"{b}({a0.desc})")
            return bool(self.truth(a0)) if b == "bool" else Opaque(b)
        if b == "sorted":
            return sorted(self.iterate(a0), **{k: v for k, v in kw.items() if k == "reverse"})
        if b == "getattr":
            try:
                return self.getattr_(a0, args[1])
            except PyRaise as e:
                if e.exc_name == "AttributeError" and len(args) > 2:
                    return args[2]
                raise
        if b == "hasattr":
            try:
                self.getattr_(a0, args[1])
                return True
            except PyRaise as e:
                if e.exc_name == "AttributeError":
                    return False
                raise
        if b == "setattr":
            self.setattr_(a0, args[1], args[2])
            return None
        if b == "range":
            if all(isinstance(a, int) for a in args):
                return range(*args)
            return self.abs_range(args)
        if b == "zip":
            return list(zip(*[list(self.iterate(a)) for a in args]))
        if b == "enumerate":
            return list(enumerate(self.iterate(a0), *args[1:]))
        if b == "iter":
            return iter(list(self.iterate(a0)))
        if b == "next":
            try:
                return next(a0)
            except StopIteration:
                if len(args) > 1:
                    return args[1]
                raise PyRaise("StopIteration")
        if b == "any":
            return any(self.truth(x) for x in self.iterate(a0))
        if b == "all":
            return all(self.truth(x) for x in self.iterate(a0))
        if b in ("max", "min", "sum", "abs", "round"):
            vals = list(self.iterate(a0)) if len(args) == 1 and not isinstance(a0, (int, float)) else list(args)
            if all(isinstance(v, (int, float)) for v in vals):
                return {"max": max, "min": min, "sum": sum, "abs": lambda v: abs(v[0]), "round": lambda v: round(*v)}[b](vals)
            if b == "sum":
                acc = vals[0]
                for v in vals[1:]:
                    acc = self.binop(ast.Add(), acc, v)
                return acc
            return self.abs_call(Ext("builtins." + b), args, kw)
        if b == "type":
            if isinstance(a0, Obj):
                return ClsRef(a0.cls)
            if isinstance(a0, EnumMember):
                return ClsRef(a0.key)
            return Ext("builtins." + type(a0).__name__) if isinstance(a0, _NATIVE_TYPES) else Opaque("type")
        if b == "print":
            return None
        if b == "id":
            return id(a0)
        if b == "map":
            return [self.call(a0, [x], {}) for x in self.iterate(args[1])]
        if b == "callable":
            return isinstance(a0, (FuncRef, Closure, Lambda, ClsRef, Ext, Native)) or (isinstance(a0, Obj) and self.ix.method(a0.cls, "__call__") is not None)
        if b in EXC_NAMES:
            return Obj(("<ext>", b), {"args": tuple(args)})
        if b == "object":
            return Obj(("<ext>", "object"))
        if b == "vars":
            return a0.attrs
        raise Unsupported(f"builtin {b}")

    def str_(self, v):
        if isinstance(v, (str, int, float, bool, type(None), tuple, list, dict)):
            if isinstance(v, EnumMember) and not isinstance(v, str):
                return f"{v.key[1]}.{v.name}"
            return str(v)
        if isinstance(v, EnumMember):
            return f"{v.key[1]}.{v.name}"
        if isinstance(v, Obj):
            m = self.ix.method(v.cls, "__str__") or self.ix.method(v.cls, "__repr__")
            if m is not None:
                return self.call_function(FuncRef(m, v), [], {})
            if self.is_dataclass(v.cls):
                parts = [f"{fn}={self.str_(v.attrs.get(fn))}" for fn, _, _, _ in self.dataclass_fields(v.cls) if fn in v.attrs]
                return f"{v.cls[1]}({', '.join(parts)})"
            return f"<{v.cls[1]} object>"
        if isinstance(v, ClsRef):
            return f"<class '{v.key[0]}.{v.key[1]}'>"
        if isinstance(v, Ext):
            return f"<{v.name}>"
        if isinstance(v, OSet):
            return repr(v)
        return repr(v)

    def isinstance_(self, v, c) -> bool:
        cs = c if isinstance(c, tuple) else (c,)
        for ci in cs:
            if isinstance(ci, Ext):
                n = ci.name
                short = n.split(".")[-1]
                if n.startswith("builtins."):
                    py = {"int": int, "str": str, "float": float, "tuple": tuple, "list": list, "dict": dict, "bool": bool}.get(short)
                    if py is not None and isinstance(v, py) and not (py is int and isinstance(v, bool) and False):
                        return True
                    if short in ("set", "frozenset") and isinstance(v, OSet):
                        return True
                    continue
                r = self.ext_isinstance(v, n)
                if r:
                    return True
                if isinstance(v, Obj) and any(b == ("<ext>", short) or b[1] == n for b in self.ix.mro(v.cls)):
                    return True
            elif isinstance(ci, ClsRef):
                if isinstance(v, Obj) and ci.key in self.ix.mro(v.cls):
                    return True
                if isinstance(v, EnumMember) and ci.key == v.key:
                    return True
                r = self.cls_isinstance(v, ci.key)
                if r:
                    return True
        return False

    def ext_isinstance(self, v, extname) -> bool:
        return False

    def cls_isinstance(self, v, key) -> bool:
        return False

    def _bind_params(self, a: ast.arguments, args: list, kw: dict, env: dict, defenv: dict):
        params = [p.arg for p in a.posonlyargs + a.args]
        n_def = len(a.defaults)
        defaults = dict(zip(params[len(params) - n_def:], a.defaults)) if n_def else {}
        for i, p in enumerate(params):
            if i < len(args):
                if p in kw:
                    raise PyRaise("TypeError", f"multiple values for argument {p}")
                env[p] = args[i]
            elif p in kw:
                env[p] = kw.pop(p)
            elif p in defaults:
                env[p] = self.eval(defaults[p], defenv)
            else:
                raise PyRaise("TypeError", f"missing argument {p}")
        if a.vararg:
            env[a.vararg.arg] = tuple(args[len(params):])
        elif len(args) > len(params):
            raise PyRaise("TypeError", "too many positional arguments")
        for p, d in zip(a.kwonlyargs, a.kw_defaults):
            if p.arg in kw:
                env[p.arg] = kw.pop(p.arg)
            elif d is not None:
                env[p.arg] = self.eval(d, defenv)
            else:
                raise PyRaise("TypeError", f"missing keyword-only argument {p.arg}")
        if a.kwarg:
            env[a.kwarg.arg] = dict(kw)
        elif kw:
            raise PyRaise("TypeError", f"unexpected keyword argument(s) {sorted(kw)}")

    def call_function(self, f: FuncRef, args, kw):
        fn = f.func
        h = self.primitives.get(fn.key)
        if h is not None:
            return h(self, f, list(args), dict(kw))
        if any(d in ("abstractmethod", "abc.abstractmethod") for d in fn.decorators) and _is_trivial_body(fn.node):
            raise PyRaise("NotImplementedError", f"abstract {fn.qual}")
        env = {"__mod__": fn.mod, "__owner__": fn.cls}
        args = list(args)
        if fn.kind in ("method", "class", "property") and f.bound is not None:
            args = [f.bound] + args
        self._bind_params(fn.node.args, args, dict(kw), env, {"__mod__": fn.mod, "__owner__": fn.cls})
        return self._run_body(fn.node, env, fn.qual)

    def call_closure(self, c: Closure, args, kw):
        env = {"__mod__": c.mod, "__owner__": c.owner, "__parent__": c.env}
        self._bind_params(c.node.args, list(args), dict(kw), env, env)
        return self._run_body(c.node, env, c.attrs.get("__name__", "closure"))

    def _run_body(self, node, env, label):
        self.depth += 1
        if self.depth > _MAX_DEPTH:
            self.depth -= 1
            raise Unsupported(f"call depth exceeded in {label}")
        fr = Frame()
        self.frames.append(fr)
        try:
            try:
                self.exec_block(node.body, env)
                result = None
                returned = False
            except _Return as r:
                result = r.v
                returned = True
            if fr.pending:
                vals = list(fr.pending) + ([result] if returned else [None])
                acc = vals[0]
                for v in vals[1:]:
                    acc = self.join(acc, v)
                return acc
            return result
        finally:
            self.frames.pop()
            self.depth -= 1

    # ------------------------------------------------------------ statements
    def exec_block(self, stmts, env):
        for st in stmts:
            self.exec(st, env)

    def exec(self, st, env):
        if isinstance(st, ast.Expr):
            if isinstance(st.value, ast.Constant):
                return
            self.eval(st.value, env)
        elif isinstance(st, ast.Assign):
            v = self.eval(st.value, env)
            for t in st.targets:
                self.assign(t, v, env)
        elif isinstance(st, ast.AnnAssign):
            if st.value is not None:
                self.assign(st.target, self.eval(st.value, env), env)
        elif isinstance(st, ast.AugAssign):
            cur = self.eval(_as_load(st.target), env)
            v = self.eval(st.value, env)
            self.assign(st.target, self.binop(st.op, cur, v), env)
        elif isinstance(st, ast.Return):
            raise _Return(self.eval(st.value, env) if st.value is not None else None)
        elif isinstance(st, ast.If):
            c = self.truth(self.eval(st.test, env))
            if c is BOTH:
                self._exec_both(st, env)
            else:
                self.exec_block(st.body if c else st.orelse, env)
        elif isinstance(st, (ast.For,)):
            broke = False
            for x in self.iterate(self.eval(st.iter, env)):
                self.assign(st.target, x, env)
                try:
                    self.exec_block(st.body, env)
                except _Break:
                    broke = True
                    break
                except _Continue:
                    continue
            if not broke:
                self.exec_block(st.orelse, env)
        elif isinstance(st, ast.While):
            n = 0
            while True:
                c = self.truth(self.eval(st.test, env))
                if c is BOTH:
                    raise Unsupported("while loop on an undecidable condition")
                if not c:
                    break
                n += 1
                if n > 10000:
                    raise Unsupported("while loop does not terminate in the interpreter")
                try:
                    self.exec_block(st.body, env)
                except _Break:
                    break
                except _Continue:
                    continue
        elif isinstance(st, ast.Raise):
            raise self._make_raise(st, env)
        elif isinstance(st, ast.Try):
            try:
                try:
                    self.exec_block(st.body, env)
                except PyRaise as e:
                    for h in st.handlers:
                        if self._handler_matches(h, e, env):
                            if h.name:
                                env[h.name] = Obj(("<ext>", e.exc_name), {"args": (e.msg,), "__pyraise__": e})
                            self.exec_block(h.body, env)
                            break
                    else:
                        raise
                else:
                    self.exec_block(st.orelse, env)
            finally:
                self.exec_block(st.finalbody, env)
        elif isinstance(st, ast.With):
            for item in st.items:
                v = self.eval(item.context_expr, env)
                if item.optional_vars is not None:
                    self.assign(item.optional_vars, v, env)
            self.exec_block(st.body, env)
        elif isinstance(st, (ast.Pass, ast.Import, ast.ImportFrom, ast.Global, ast.Nonlocal)):
            if isinstance(st, (ast.Import, ast.ImportFrom)):
                self._local_import(st, env)
        elif isinstance(st, ast.Assert):
            c = self.truth(self.eval(st.test, env))
            if c is not BOTH and not c:
                raise PyRaise("AssertionError", ast.unparse(st.test), st)
        elif isinstance(st, (ast.FunctionDef,)):
            env[st.name] = Closure(st, env, env_mod(env), env.get("__owner__"))
        elif isinstance(st, ast.Break):
            raise _Break()
        elif isinstance(st, ast.Continue):
            raise _Continue()
        elif isinstance(st, ast.Delete):
            for t in st.targets:
                if isinstance(t, ast.Subscript):
                    o = self.eval(t.value, env)
                    k = self.eval(t.slice, env)
                    if isinstance(o, dict):
                        o.pop(k, None)
                    else:
                        raise Unsupported("del on non-dict")
                elif isinstance(t, ast.Name):
                    env.pop(t.id, None)
        else:
            raise Unsupported(f"statement {type(st).__name__}: {ast.unparse(st)[:80]}")

    def _local_import(self, st, env):
        mod = self.ix.mods.get(env_mod(env))
        if isinstance(st, ast.ImportFrom):
            src = Index._resolve_from(mod, st.level, st.module) if mod else (st.module or "")
            for a in st.names:
                nm = a.asname or a.name
                if src in self.ix.mods:
                    env[nm] = self.resolve_name(src, a.name)
                else:
                    env[nm] = Ext(f"{src}.{a.name}")
        else:
            for a in st.names:
                env[a.asname or a.name.split(".")[0]] = Ext(a.name if a.asname else a.name.split(".")[0])

    def _exec_both(self, st: ast.If, env):
        fr = self.frames[-1] if self.frames else None
        envs = []
        for body in (st.body, st.orelse):
            e2 = dict(env)
            try:
                self.exec_block(body, e2)
                envs.append(e2)
            except _Return as r:
                if fr is None:
                    raise
                fr.pending.append(r.v)
            except PyRaise:
                pass  # this side aborts: the other side carries on
        if not envs:
            # both sides returned / raised
            if fr is not None and fr.pending:
                v = fr.pending.pop()
                raise _Return(v)
            raise PyRaise("Exception", "both branches raise")
        if len(envs) == 1:
            env.update(envs[0])
            return
        a, b = envs
        for k in set(a) | set(b):
            if k.startswith("__"):
                continue
            if k in a and k in b:
                env[k] = self.join(a[k], b[k])
            else:
                env[k] = a.get(k, b.get(k))

    def _make_raise(self, st: ast.Raise, env) -> PyRaise:
        if st.exc is None:
            return PyRaise("Exception", "re-raise", st)
        e = st.exc
        name = None
        if isinstance(e, ast.Call):
            fn = e.func
            name = fn.id if isinstance(fn, ast.Name) else (fn.attr if isinstance(fn, ast.Attribute) else None)
            if isinstance(fn, ast.Call):  # type(e)(...)
                name = "Exception"
        elif isinstance(e, ast.Name):
            name = e.id
            v = None
            try:
                v = self.lookup_var(env, e.id)
            except Exception:
                pass
            if isinstance(v, Obj):
                name = v.cls[1]
        return PyRaise(name or "Exception", ast.unparse(st)[:120], st)

    def _handler_matches(self, h: ast.ExceptHandler, e: PyRaise, env) -> bool:
        if h.type is None:
            return True
        types = h.type.elts if isinstance(h.type, ast.Tuple) else [h.type]
        for t in types:
            tn = t.id if isinstance(t, ast.Name) else (t.attr if isinstance(t, ast.Attribute) else None)
            if tn in ("Exception", "BaseException") or tn == e.exc_name:
                return True
            # repo exception hierarchy
            k = self.ix.resolve_class(env_mod(env), t)
            if k is not None:
                for ck in self.ix.classes:
                    if ck[1] == e.exc_name and k in self.ix.mro(ck):
                        return True
            else:
                for ck in self.ix.classes:
                    if ck[1] == e.exc_name and any(b[1].split(".")[-1] == tn for b in self.ix.mro(ck)):
                        return True
        return False

    def assign(self, t, v, env):
        if isinstance(t, ast.Name):
            env[t.id] = v
        elif isinstance(t, ast.Attribute):
            self.setattr_(self.eval(t.value, env), t.attr, v)
        elif isinstance(t, ast.Subscript):
            o = self.eval(t.value, env)
            k = self.eval(t.slice, env)
            if isinstance(o, Obj):
                m = self.ix.method(o.cls, "__setitem__")
                if m is None:
                    raise Unsupported(f"item assignment on {o}")
                self.call_function(FuncRef(m, o), [k, v], {})
            elif isinstance(o, (dict, list)):
                o[k] = v
            elif self.is_abstract(o) or isinstance(o, Opaque):
                self.abs_setitem(o, k, v)
            else:
                raise Unsupported(f"item assignment on {o!r}")
        elif isinstance(t, (ast.Tuple, ast.List)):
            if isinstance(v, Opaque):
                for tt in t.elts:
                    self.assign(tt, Opaque(f"{v.desc}[i]"), env)
                return
            vals = list(self.iterate(v))
            if any(isinstance(x, ast.Starred) for x in t.elts):
                raise Unsupported("starred assignment")
            if len(vals) != len(t.elts):
                raise PyRaise("ValueError", "unpacking mismatch")
            for tt, vv in zip(t.elts, vals):
                self.assign(tt, vv, env)
        else:
            raise Unsupported(f"assignment target {type(t).__name__}")

    def abs_setitem(self, o, k, v):
        raise Unsupported(f"item assignment on abstract value {o!r}")

    # ----------------------------------------------------------- expressions
    def truth(self, v):
        if self.is_abstract(v) or isinstance(v, Opaque):
            return self.abs_truth(v)
        if isinstance(v, Obj):
            m = self.ix.method(v.cls, "__bool__") or self.ix.method(v.cls, "__len__")
            if m is not None:
                return bool(self.call_function(FuncRef(m, v), [], {}))
            return True
        if isinstance(v, (ClsRef, FuncRef, Closure, Ext, Lambda, Native)):
            return True
        return bool(v)

    def iterate(self, v):
        if isinstance(v, Obj):
            m = self.ix.method(v.cls, "__iter__")
            if m is not None:
                return self.iterate(self.call_function(FuncRef(m, v), [], {}))
            if "data" in v.attrs:
                return list(v.attrs["data"])
            raise Unsupported(f"iteration over {v}")
        if isinstance(v, ClsRef) and self.is_enum(v.key):
            return self.enum_members(v.key)
        if self.is_abstract(v) or isinstance(v, Opaque):
            return self.abs_iter(v)
        if isinstance(v, dict):
            return list(v)
        try:
            return list(v) if not hasattr(v, "__next__") else v
        except TypeError:
            raise Unsupported(f"iteration over {v!r}")

    def binop(self, op, a, b):
        if self.is_abstract(a) or self.is_abstract(b) or isinstance(a, Opaque) or isinstance(b, Opaque):
            return self.abs_binop(op, a, b)
        fn = _BINOPS.get(type(op))
        if fn is None:
            raise Unsupported(f"operator {type(op).__name__}")
        if isinstance(a, OSet) and isinstance(op, (ast.BitOr, ast.Sub, ast.BitAnd)):
            return {ast.BitOr: a.union, ast.Sub: a.difference, ast.BitAnd: a.intersection}[type(op)](b)
        try:
            return fn(a, b)
        except ZeroDivisionError:
            raise PyRaise("ZeroDivisionError", "")
        except TypeError as e:
            raise Unsupported(f"binop {type(op).__name__} on {a!r}, {b!r}: {e}")

    def eval(self, e, env):
        m = getattr(self, "eval_" + type(e).__name__, None)
        if m is None:
            raise Unsupported(f"expression {type(e).__name__}: {ast.unparse(e)[:80]}")
        return m(e, env)

    def eval_Constant(self, e, env):
        return e.value

    def eval_Name(self, e, env):
        return self.lookup_var(env, e.id)

    def eval_Attribute(self, e, env):
        return self.getattr_(self.eval(e.value, env), e.attr, env)

    def eval_Call(self, e, env):
        # super()
        if isinstance(e.func, ast.Name) and e.func.id == "super" and not e.args:
            inst = None
            x = env
            while x is not None and inst is None:
                inst = x.get("self", x.get("cls"))
                x = x.get("__parent__")
            return Super(inst, env_owner(env))
        f = self.eval(e.func, env)
        args = []
        kw = {}
        for a in e.args:
            if isinstance(a, ast.Starred):
                args.extend(self.iterate(self.eval(a.value, env)))
            else:
                args.append(self.eval(a, env))
        for k in e.keywords:
            if k.arg is None:
                v = self.eval(k.value, env)
                kw.update(self._as_mapping(v) if not isinstance(v, dict) else v)
            else:
                kw[k.arg] = self.eval(k.value, env)
        return self.call(f, args, kw)

    def eval_Tuple(self, e, env):
        out = []
        for x in e.elts:
            if isinstance(x, ast.Starred):
                out.extend(self.iterate(self.eval(x.value, env)))
            else:
                out.append(self.eval(x, env))
        return tuple(out)

    def eval_List(self, e, env):
        return list(self.eval_Tuple(e, env))

    def eval_Set(self, e, env):
        return OSet(self.eval_Tuple(e, env))

    def eval_Dict(self, e, env):
        d = {}
        for k, v in zip(e.keys, e.values):
            if k is None:
                m = self.eval(v, env)
                d.update(m if isinstance(m, dict) else self._as_mapping(m))
            else:
                d[self.eval(k, env)] = self.eval(v, env)
        return d

    def eval_JoinedStr(self, e, env):
        out = []
        for v in e.values:
            if isinstance(v, ast.FormattedValue):
                out.append(self.str_(self.eval(v.value, env)))
            else:
                out.append(str(v.value))
        return "".join(out)

    def eval_BinOp(self, e, env):
        return self.binop(e.op, self.eval(e.left, env), self.eval(e.right, env))

    def eval_UnaryOp(self, e, env):
        v = self.eval(e.operand, env)
        if isinstance(e.op, ast.Not):
            t = self.truth(v)
            return BOTH if t is BOTH else (not t)
        if self.is_abstract(v) or isinstance(v, Opaque):
            return self.abs_unary(e.op, v)
        if isinstance(e.op, ast.USub):
            return -v
        if isinstance(e.op, ast.UAdd):
            return +v
        if isinstance(e.op, ast.Invert):
            return ~v
        raise Unsupported("unary op")

    def eval_BoolOp(self, e, env):
        is_or = isinstance(e.op, ast.Or)
        last = None
        undecided = False
        for x in e.values:
            last = self.eval(x, env)
            t = self.truth(last)
            if t is BOTH:
                undecided = True
                continue
            if is_or and t:
                return BOTH if undecided else last
            if not is_or and not t:
                return BOTH if undecided else last
        return BOTH if undecided else last

    def eval_Compare(self, e, env):
        vals = [self.eval(e.left, env)] + [self.eval(c, env) for c in e.comparators]
        res = True
        for op, l, r in zip(e.ops, vals, vals[1:]):
            if l is BOTH or r is BOTH:
                return BOTH
            if isinstance(op, (ast.In, ast.NotIn)) and isinstance(r, Obj):
                m = self.ix.method(r.cls, "__contains__")
                if m is not None:
                    c = self.truth(self.call_function(FuncRef(m, r), [l], {}))
                elif "data" in r.attrs:
                    c = l in r.attrs["data"]
                else:
                    it = self.iterate(r)
                    c = l in list(it)
                c = c if isinstance(op, ast.In) else not c
            elif (self.is_abstract(l) or self.is_abstract(r) or isinstance(l, Opaque) or isinstance(r, Opaque)) and not (
                    isinstance(op, (ast.Is, ast.IsNot)) and (l is None or r is None)):
                if isinstance(op, (ast.In, ast.NotIn)) and isinstance(r, (tuple, list, dict, OSet, str)) and not isinstance(l, Opaque) and not self.is_abstract(l):
                    c = _CMPOPS[type(op)](l, r)
                else:
                    return self.abs_compare(e.ops, vals)
            else:
                try:
                    c = _CMPOPS[type(op)](l, r)
                except TypeError:
                    raise Unsupported(f"comparison {ast.unparse(e)[:60]}")
            if not c:
                return False
        return res

    def eval_IfExp(self, e, env):
        c = self.truth(self.eval(e.test, env))
        if c is BOTH:
            return self.join(self.eval(e.body, env), self.eval(e.orelse, env))
        return self.eval(e.body if c else e.orelse, env)

    def eval_Subscript(self, e, env):
        o = self.eval(e.value, env)
        k = self.eval(e.slice, env)
        return self.subscript(o, k)

    def subscript(self, o, k):
        if isinstance(o, Obj):
            m = self.ix.method(o.cls, "__getitem__")
            if m is not None:
                return self.call_function(FuncRef(m, o), [k], {})
            if "data" in o.attrs:
                if k not in o.attrs["data"]:
                    raise PyRaise("KeyError", repr(k))
                return o.attrs["data"][k]
            raise Unsupported(f"subscript of {o}")
        if self.is_abstract(o) or isinstance(o, Opaque):
            return self.abs_subscript(o, k)
        if isinstance(o, (Ext, ClsRef)):
            return o  # typing generics: Optional[...] etc.
        try:
            return o[k]
        except KeyError:
            raise PyRaise("KeyError", repr(k))
        except IndexError:
            raise PyRaise("IndexError", repr(k))
        except TypeError as ex:
            raise Unsupported(f"subscript {o!r}[{k!r}]: {ex}")

    def eval_Slice(self, e, env):
        return slice(self.eval(e.lower, env) if e.lower else None, self.eval(e.upper, env) if e.upper else None,
                     self.eval(e.step, env) if e.step else None)

    def eval_Starred(self, e, env):
        return self.eval(e.value, env)

    def eval_NamedExpr(self, e, env):
        v = self.eval(e.value, env)
        self.assign(e.target, v, env)
        return v

    def eval_Lambda(self, e, env):
        return Lambda(e, env)

    def _comp(self, e, env, kind):
        out = []

        def rec(gens, env2):
            if not gens:
                if kind == "dict":
                    out.append((self.eval(e.key, env2), self.eval(e.value, env2)))
                else:
                    out.append(self.eval(e.elt, env2))
                return
            g = gens[0]
            for x in self.iterate(self.eval(g.iter, env2)):
                env3 = {"__parent__": env2}
                self.assign(g.target, x, env3)
                ok = True
                for c in g.ifs:
                    t = self.truth(self.eval(c, env3))
                    if t is BOTH:
                        raise Unsupported("comprehension filter on undecidable condition")
                    if not t:
                        ok = False
                        break
                if ok:
                    rec(gens[1:], env3)

        rec(e.generators, env)
        return out

    def eval_ListComp(self, e, env):
        return self._comp(e, env, "list")

    def eval_GeneratorExp(self, e, env):
        return self._comp(e, env, "list")

    def eval_SetComp(self, e, env):
        return OSet(self._comp(e, env, "list"))

    def eval_DictComp(self, e, env):
        return dict(self._comp(e, env, "dict"))


def env_mod(env):
    e = env
    while e is not None:
        if "__mod__" in e:
            return e["__mod__"]
        e = e.get("__parent__")
    raise Unsupported("environment without module")


def env_owner(env):
    e = env
    while e is not None:
        if "__owner__" in e:
            return e["__owner__"]
        e = e.get("__parent__")
    return None


def _as_load(t):
    import copy

    t2 = copy.deepcopy(t)
    for n in ast.walk(t2):
        if hasattr(n, "ctx"):
            n.ctx = ast.Load()
    return t2


def _is_trivial_body(node) -> bool:
    body = node.body
    if body and isinstance(body[0], ast.Expr) and isinstance(body[0].value, ast.Constant) and isinstance(body[0].value.value, str):
        body = body[1:]
    if not body:
        return True
    if len(body) == 1:
        b = body[0]
        if isinstance(b, ast.Pass):
            return True
        if isinstance(b, ast.Raise):
            return True
        if isinstance(b, ast.Expr) and isinstance(b.value, ast.Constant):
            return True
    return False
