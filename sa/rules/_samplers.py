"""Facts about the `sample` methods of leaspy.samplers shared by C02 / C03 / C07."""
from __future__ import annotations

import ast
from typing import Dict, List, Optional, Tuple

import networkx as nx

from ..astq import Inliner, U, call_name, kwarg, statements, store_targets
from ..cfg import CFG, header_walk
from ..index import AnalysisError, Func, Index, walk_no_nested

SAMPLERS_MODS = ("leaspy.samplers.gibbs", "leaspy.samplers.base")
POP_BASE = "AbstractPopulationSampler"
IND_BASE = "AbstractIndividualSampler"
STEP_FUNS = {"_metropolis_step": "scalar", "_group_metropolis_step": "group"}


class SampleFacts:
    def __init__(self, ix: Index, f: Func):
        self.ix = ix
        self.f = f
        self.node = f.node
        self.cfg = CFG(f.node)
        self.inl = Inliner(f.node)
        a = f.node.args
        sp = [p.arg for p in a.args if p.annotation is not None and U(p.annotation).strip("'\"") == "State"]
        if not sp:
            sp = [p.arg for p in a.args if p.arg == "state"]
        if len(sp) != 1:
            raise AnalysisError("C02.R2", f"cannot identify the State parameter of {f.qual}")
        self.state = sp[0]
        mro = [k[1] for k in ix.mro(f.cls)]
        self.kind = "population" if POP_BASE in mro else ("individual" if IND_BASE in mro else "unknown")
        # concrete classes dispatching to this definition
        self.classes = [k for k in ix.subclasses(f.cls) if ix.method(k, "sample") is not None and ix.method(k, "sample").key == f.key]
        self.closures: Dict[str, ast.FunctionDef] = {n.name: n for n in f.node.body if isinstance(n, ast.FunctionDef)}
        self._collect()

    # ------------------------------------------------------------------
    def _is_state(self, e) -> bool:
        return isinstance(e, ast.Name) and e.id == self.state

    def _collect(self):
        c = self.cfg
        self.writes: List[Tuple[int, ast.AST, str]] = []  # (cfg node, syntax node, how)
        self.reverts: List[Tuple[int, ast.Call]] = []
        self.decisions: List[Tuple[int, ast.Call, str, Optional[str]]] = []  # node, call, step kind, accepted var
        self.reads: List[Tuple[int, ast.AST]] = []  # cfg node, expression reading the state
        self.helper_calls: Dict[int, Func] = {}
        for n, st in c.stmt.items():
            if st is None or isinstance(st, (ast.FunctionDef, ast.ClassDef)):
                continue
            for x in header_walk(st):
                if isinstance(x, ast.Call) and isinstance(x.func, ast.Attribute) and self._is_state(x.func.value):
                    m = x.func.attr
                    if m == "put":
                        self.writes.append((n, x, "put"))
                    elif m == "revert":
                        self.reverts.append((n, x))
                    elif m in ("get_tensor_value", "get_tensor_values", "__getitem__"):
                        self.reads.append((n, x))
                    elif m in ("put_population_latent_variables", "put_individual_latent_variables", "clear", "__setitem__"):
                        self.writes.append((n, x, m))
                if isinstance(x, ast.Subscript) and self._is_state(x.value):
                    if isinstance(x.ctx, ast.Store):
                        self.writes.append((n, x, "setitem"))
                    else:
                        self.reads.append((n, x))
                if isinstance(x, ast.Call) and isinstance(x.func, ast.Attribute) and U(x.func.value) == "self" and x.func.attr in STEP_FUNS:
                    var = None
                    if isinstance(st, ast.Assign) and len(st.targets) == 1 and isinstance(st.targets[0], ast.Name) and st.value is x:
                        var = st.targets[0].id
                    self.decisions.append((n, x, STEP_FUNS[x.func.attr], var))
                # calls of local closures that read the state
                if isinstance(x, ast.Call) and isinstance(x.func, ast.Name) and x.func.id in self.closures:
                    self.reads.append((n, x))
                # a method of the sampler handed the state: what it reads from it is read here
                if isinstance(x, ast.Call) and isinstance(x.func, ast.Attribute) and U(x.func.value) in ("self", "cls") and x.func.attr not in STEP_FUNS \
                        and any(self._is_state(a) for a in list(x.args) + [k.value for k in x.keywords]):
                    hm = self.ix.method(self.f.cls, x.func.attr) if self.f.cls is not None else None
                    if hm is not None and self.helper_reads(hm, x):
                        self.helper_calls[id(x)] = hm
                        self.reads.append((n, x))

    def closure_reads(self, name: str) -> List[ast.AST]:
        """Expressions naming the state variables read by local closure `name` (string templates)."""
        fn = self.closures[name]
        out = []
        for x in ast.walk(fn):
            if isinstance(x, ast.Subscript) and self._is_state(x.value):
                out.append(x.slice)
            if isinstance(x, ast.Call) and isinstance(x.func, ast.Attribute) and self._is_state(x.func.value) and x.func.attr in (
                    "get_tensor_value", "get_tensor_values") and x.args:
                a0 = x.args[0]
                if isinstance(a0, (ast.Tuple, ast.List)):
                    out.extend(a0.elts)
                else:
                    out.append(a0)
        return out

    def helper_reads(self, hm: Func, call: ast.Call) -> List[ast.AST]:
        """variable-name expressions a helper method reads from the state parameter it is handed (constant names only are meaningful to the callers)"""
        params = [a.arg for a in hm.node.args.args]
        if params and params[0] in ("self", "cls"):
            params = params[1:]
        spar = None
        for i, a in enumerate(call.args):
            if self._is_state(a) and i < len(params):
                spar = params[i]
        for k in call.keywords:
            if self._is_state(k.value) and k.arg:
                spar = k.arg
        if spar is None:
            return []
        out = []
        for x in ast.walk(hm.node):
            if isinstance(x, ast.Subscript) and isinstance(x.value, ast.Name) and x.value.id == spar and isinstance(x.ctx, ast.Load):
                out.append(x.slice)
            if isinstance(x, ast.Call) and isinstance(x.func, ast.Attribute) and isinstance(x.func.value, ast.Name) and x.func.value.id == spar and x.func.attr in (
                    "get_tensor_value", "get_tensor_values", "__getitem__") and x.args:
                a0 = x.args[0]
                out.extend(a0.elts if isinstance(a0, (ast.Tuple, ast.List)) else [a0])
        return out

    def read_templates(self, cfg_node: int) -> List[ast.AST]:
        """All variable-name expressions read from the state at a CFG node."""
        out = []
        for n, x in self.reads:
            if n != cfg_node:
                continue
            if isinstance(x, ast.Subscript):
                out.append(x.slice)
            elif id(x) in self.helper_calls:
                out.extend(self.helper_reads(self.helper_calls[id(x)], x))
            elif isinstance(x.func, ast.Name):
                out.extend(self.closure_reads(x.func.id))
            elif x.args:
                a0 = x.args[0]
                out.extend(a0.elts if isinstance(a0, (ast.Tuple, ast.List)) else [a0])
        return out

    def loop_header_of(self, n: int) -> Optional[int]:
        """Innermost loop header whose body contains CFG node n."""
        best = None
        for h, k in self.cfg.kind.items():
            if k != "loop":
                continue
            st = self.cfg.stmt[h]
            inner = {id(s) for b in st.body for s in ast.walk(b)}
            if id(self.cfg.stmt[n]) in inner:
                if best is None or self.cfg.stmt[best].lineno < st.lineno:
                    best = h
        return best

    def ends_for(self, n: int) -> List[int]:
        h = self.loop_header_of(n)
        return [self.cfg.exit] + ([h] if h is not None else [])


def sample_functions(ix: Index, rule: str) -> List[SampleFacts]:
    out = []
    for f in ix.iter_funcs():
        if f.mod in SAMPLERS_MODS and f.cls is not None and f.name == "sample":
            if any(d in ("abstractmethod", "abc.abstractmethod") for d in f.decorators):
                continue
            out.append(SampleFacts(ix, f))
    if len(out) < 2:
        raise AnalysisError(rule, f"anchor vanished: expected >= 2 concrete `sample` definitions in leaspy.samplers, found {len(out)}")
    return out


def branch_paths_pass(cfg: CFG, guard: int, label: bool, targets, end: int) -> bool:
    """Every path that leaves `guard` through its `label` edge and reaches `end` passes through `targets`."""
    g = cfg.g.copy()
    for _, v, d in list(g.out_edges(guard, data=True)):
        if d.get("label") != label:
            g.remove_edge(guard, v)
    targets = set(targets)
    g.remove_nodes_from([t for t in targets if t not in (guard, end)])
    if guard not in g or end not in g:
        return True
    # leave guard at least once: look at successors
    for s in list(g.successors(guard)):
        if s == end or nx.has_path(g, s, end):
            return False
    return True


def branch_reaches(cfg: CFG, guard: int, label: bool, target: int, stop: List[int]) -> bool:
    """`target` reachable from the `label` edge of guard without passing `stop` nodes."""
    g = cfg.g.copy()
    for _, v, d in list(g.out_edges(guard, data=True)):
        if d.get("label") != label:
            g.remove_edge(guard, v)
    g.remove_nodes_from([s for s in stop if s not in (guard, target)])
    for s in list(g.successors(guard)) if guard in g else []:
        if s == target or (s in g and target in g and nx.has_path(g, s, target)):
            return True
    return False


def negation_of(e: ast.AST, var: str) -> bool:
    """Is expression e the (tensor) negation of local `var` ?"""
    if isinstance(e, ast.UnaryOp) and isinstance(e.op, (ast.Invert, ast.Not)) and isinstance(e.operand, ast.Name) and e.operand.id == var:
        return True
    if isinstance(e, ast.Call):
        f = U(e.func)
        if f in ("torch.logical_not",) and e.args and U(e.args[0]) == var:
            return True
        if f == f"{var}.logical_not" and not e.args:
            return True
    if isinstance(e, ast.Compare) and len(e.ops) == 1 and U(e.left) == var and isinstance(e.ops[0], ast.Eq) and U(e.comparators[0]) in ("False", "0"):
        return True
    return False
