"""C03 - every sampler step is a Metropolis-Hastings transition for the documented target."""
from __future__ import annotations

import ast

import sympy as sp

from ..astq import Inliner, U, call_name, kwarg, local_defs, statements, store_targets
from ..cfg import CFG, header_walk
from ..index import AnalysisError, walk_no_nested
from ..interp import Obj
from ..normalform import F, NFUnsupported, Normalizer, equal, sym
from ..selftest import V
from ._samplers import SAMPLERS_MODS, sample_functions

PROP = "C03"
LEVEL_TEXT = (
    "Static shape check of the Metropolis-Hastings step: (R1) in every `sample`, alpha = exp(E) and the algebraic normal form of E over the atoms "
    "{attachment, regularity read before / after the proposal, temperature_inv} equals -(dA) - temperature_inv*(dR) (sympy expand, no solving), the "
    "atoms being bound to state reads located on the right side of the proposal; (R2) `_metropolis_step`/`_group_metropolis_step` draw torch.rand on "
    "every path, compare `rand < alpha`, and each proposal is followed by exactly one such decision; (R3) the proposal is std[...]*randn(shape) "
    "(zero-mean product, only the adaptive std and the optional mask as other factors) put with accumulate=True on the targeted block only; "
    "(R4) for each latent variable of each shipped model configuration, every primitive likelihood term (dist.nll / dist.regularization node) that "
    "depends on the variable is an ancestor-or-self of a term the sampler reads; (R5) the individual sampler's reads keep the individual axis "
    "(axis-0 domain) so each decision sees the individual's own change only. NOT decided: that exp/rand/randn are what they say, stationarity, numerics."
)


def _roles(sf):
    """Map local names holding state reads to (role, when): role in {'A','R'}, when in {'prev','new'} + mixture re-weighting idiom."""
    cfg = sf.cfg
    puts = [n for n, x, how in sf.writes]
    if len(puts) != 1:
        raise AnalysisError("C03.R1", f"{sf.f.qual}: expected exactly one proposal write, found {len(puts)}")
    put = puts[0]
    roles = {}
    reweighted = {}
    for n, st in cfg.stmt.items():
        if not isinstance(st, ast.Assign) or len(st.targets) != 1:
            continue
        t = st.targets[0]
        v = st.value
        names = None
        if isinstance(v, ast.Call) and isinstance(v.func, ast.Name) and v.func.id in sf.closures:
            names = sf.closure_reads(v.func.id)
        elif isinstance(v, ast.Call) and isinstance(v.func, ast.Attribute) and U(v.func.value) == sf.state and v.func.attr == "get_tensor_values":
            names = list(v.args[0].elts) if v.args and isinstance(v.args[0], (ast.Tuple, ast.List)) else None
        elif isinstance(v, ast.Subscript) and U(v.value) == sf.state:
            names = [v.slice]
        if names is None:
            continue
        when = "new" if (cfg.reachable(put, n) and not cfg.reachable(n, put)) or (cfg.reachable(put, n) and sf.loop_header_of(n) is not None and _after_in_body(sf, put, n)) else "prev"
        tgts = list(t.elts) if isinstance(t, ast.Tuple) else [t]
        if len(tgts) != len(names):
            continue
        for tt, nm in zip(tgts, names):
            if not isinstance(tt, ast.Name):
                continue
            txt = U(nm)
            role = "A" if "nll_attach" in txt else ("R" if "nll_regul" in txt else None)
            if role:
                roles[tt.id] = (role, when, nm)
    return put, roles


def _after_in_body(sf, put, n):
    """Inside a loop body both nodes reach each other through the back edge: order by position in the body."""
    return sf.cfg.stmt[n].lineno > sf.cfg.stmt[put].lineno


def r1_exponent(ctx):
    ctx.rule("C03.R1", "acceptance exponent: alpha = exp(-(dAttach) - temperature_inv * dRegul)", 2)
    for sf in sample_functions(ctx.ix, "C03.R1"):
        f = sf.f
        put, roles = _roles(sf)
        # alpha
        alphas = [st for st in statements(f.node) if isinstance(st, ast.Assign) and isinstance(st.value, ast.Call) and U(st.value.func) == "torch.exp"
                  and len(st.targets) == 1 and isinstance(st.targets[0], ast.Name)]
        dec_args = {U(c.args[0]) for _, c, _, _ in sf.decisions if c.args}
        alphas = [a for a in alphas if a.targets[0].id in dec_args]
        direct = [c.args[0] for _, c, _, _ in sf.decisions if c.args and isinstance(c.args[0], ast.Call) and U(c.args[0].func) == "torch.exp" and c.args[0].args]
        helper_alpha = None
        if len(alphas) == 1:
            E, anchor = alphas[0].value.args[0], alphas[0]
        elif len(direct) == 1 and not alphas:
            E, anchor = direct[0].args[0], direct[0]
        else:
            # the probability may be computed by a helper method of the sampler: `alpha = self._ratio(dA, dR, temperature_inv=...)`
            cand = [st for st in statements(f.node) if isinstance(st, ast.Assign) and len(st.targets) == 1 and isinstance(st.targets[0], ast.Name) and st.targets[0].id in dec_args
                    and isinstance(st.value, ast.Call) and isinstance(st.value.func, ast.Attribute) and U(st.value.func.value) in ("self", "cls")]
            if len(cand) != 1:
                raise AnalysisError("C03.R1", f"{f.qual}: cannot find `torch.exp(E)` feeding the decision")
            helper_alpha, anchor, E = cand[0].value, cand[0], None
        alphas = [anchor]
        temp = [p.arg for p in f.node.args.kwonlyargs + f.node.args.args if "temperature" in p.arg]
        if len(temp) != 1:
            raise AnalysisError("C03.R1", f"{f.qual}: inverse temperature parameter not found")
        T = sp.Symbol("T", real=True)
        S = {("A", "prev"): sp.Symbol("A_prev", real=True), ("A", "new"): sp.Symbol("A_new", real=True),
             ("R", "prev"): sp.Symbol("R_prev", real=True), ("R", "new"): sp.Symbol("R_new", real=True)}
        env = {temp[0]: T}
        for name, (role, when, _) in roles.items():
            env[name] = S[(role, when)]
        missing = [k for k in S if k not in {(r, w) for r, w, _ in roles.values()}]
        if missing:
            ctx.violation("C03.R1", f, alphas[0], f"no state read bound to {missing}: the decision does not compare the values before and after the proposal")
            continue
        try:
            # augmented assignments on a term between its read and the exponent (x *= a is x = x * a for the value compared)
            for st in sorted(statements(f.node), key=lambda x: (x.lineno, x.col_offset)):
                if isinstance(st, ast.AugAssign) and isinstance(st.target, ast.Name) and st.target.id in roles and st.lineno < anchor.lineno:
                    env[st.target.id] = Normalizer(env)(ast.BinOp(left=ast.Name(id=st.target.id, ctx=ast.Load()), op=st.op, right=st.value))
            if helper_alpha is not None:
                from ..normalform import method_inline_hook
                hm = ctx.ix.method(f.cls, helper_alpha.func.attr)
                if hm is None:
                    raise NFUnsupported(f"helper {U(helper_alpha.func)} not found")
                # shape of the computation: one exponential of the whole exponent. A product / quotient of exponentials has the same
                # real value but its factors overflow and underflow separately in single precision (inf * 0 = NaN: never accepted)
                rets_h = [s_ for s_ in statements(hm.node) if isinstance(s_, ast.Return) and s_.value is not None]
                from ..astq import Inliner as _Inl
                shape = _Inl(hm.node).resolve(rets_h[0].value) if len(rets_h) == 1 else None
                n_exp = sum(1 for x_ in ast.walk(shape) if isinstance(x_, ast.Call) and U(x_.func) in ("torch.exp", "math.exp", "np.exp")) if shape is not None else 0
                top_exp = isinstance(shape, ast.Call) and U(shape.func) == "torch.exp"
                if not (top_exp and n_exp == 1):
                    ctx.violation("C03.R1", hm, rets_h[0] if rets_h else hm.node, f"the acceptance probability is `{U(shape)[:90] if shape is not None else '?'}`, not a single exponential of -D: "
                                  "its factors overflow / underflow separately (exp(148) * exp(-150) = inf * 0 = NaN in single precision), so a proposal with a finite, even favourable, D is rejected "
                                  "(or one with D > 0 always accepted)", construct="single exponential of the exponent")
                    continue
                got_alpha = Normalizer(env, call_hook=method_inline_hook(ctx.ix, f.cls))(helper_alpha)
                got = sp.log(got_alpha) if not (got_alpha.func == F["exp"]) else got_alpha.args[0]
            else:
                got = Normalizer(env)(E)
        except NFUnsupported as e:
            ctx.unknown("C03.R1", f, alphas[0], f"exponent not in the supported expression subset: {e}")
            continue
        ref = -(S[("A", "new")] - S[("A", "prev")]) - T * (S[("R", "new")] - S[("R", "prev")])
        extra = got.free_symbols - set(S.values()) - {T}
        if extra:
            ctx.violation("C03.R1", f, alphas[0], f"acceptance exponent depends on {sorted(map(str, extra))}, which is neither a likelihood term read around the proposal nor the inverse temperature")
            continue
        ctx.check(equal(got, ref), "C03.R1", f, alphas[0], "normal form equals -(A_new - A_prev) - T*(R_new - R_prev)",
                  f"acceptance exponent is {sp.expand(got)}, documented -(A_new-A_prev) - T*(R_new-R_prev) = {sp.expand(ref)}")
        # re-weighting idiom (mixture): any re-assignment of a role variable must be applied identically to prev and new
        defs = local_defs(f.node)
        rew = {}
        for name, (role, when, _) in roles.items():
            others = [v for v in defs.get(name, [])[1:] if v is not None]
            txts = []
            for v in others:
                t = U(v).replace(name, "<X>")
                txts.append(t)
            rew[(role, when)] = txts
        for role in ("A", "R"):
            same = rew.get((role, "prev"), []) == rew.get((role, "new"), [])
            ctx.check(same, "C03.R1", f, f.node, f"{'attachment' if role == 'A' else 'regularity'}: same post-processing of the value read before and after the proposal "
                      f"({rew.get((role, 'prev')) or 'none'})",
                      f"the {'attachment' if role == 'A' else 'regularity'} read before the proposal is post-processed as {rew.get((role, 'prev'))} but the one read after as {rew.get((role, 'new'))}",
                      construct=f"post-processing of role {role}")


def r1c_no_inplace(ctx):
    """The likelihood terms compared by the decision are the State's cached tensors (and the fork's): tempering / re-weighting them in
    place changes what later steps (and the revert of this one) read."""
    from ._shared import inplace_on_state_values
    ctx.rule("C03.R1c", "the terms read from the state for the decision are never modified in place", 2)
    funcs = [sf.f for sf in sample_functions(ctx.ix, "C03.R1c")]
    sites, holders = inplace_on_state_values(ctx, funcs)
    for fn, node, desc in sites:
        ctx.violation("C03.R1c", fn, node, desc + ": the cached likelihood term (and the reference kept for rejection) is altered, so later decisions use a stale, modified value")
    for fn, names in holders:
        ctx.ok("C03.R1c", fn, fn.node, f"terms {names} alias State values and are only combined out of place", construct=f"def {fn.name}")


def r2_draw(ctx):
    ctx.rule("C03.R2", "a fresh uniform draw for every decision, compared as rand < alpha", 4)
    ix = ctx.ix
    for name, shape_ok in (("_metropolis_step", lambda a, p: U(a) in ("()", "[]", "1", "(1,)", "torch.Size([])") ),
                           ("_group_metropolis_step", lambda a, p: U(a) in (f"{p}.shape", f"{p}.size()", f"{p}.shape[0]"))):
        f = ix.func("leaspy.samplers.base", f"AbstractSampler.{name}", "C03.R2")
        inl = Inliner(f.node)
        alpha = [p.arg for p in f.node.args.args][1]
        rets = [st for st in statements(f.node) if isinstance(st, ast.Return)]
        if not rets:
            ctx.violation("C03.R2", f, f.node, "decision function returns nothing", construct=f"def {name}")
        cfg = CFG(f.node)
        for st in rets:
            v = inl.resolve(st.value) if st.value is not None else None
            good = False
            why = "decision is not the comparison `torch.rand(...) < alpha`"
            if isinstance(v, ast.Compare) and len(v.ops) == 1:
                l, r, op = v.left, v.comparators[0], v.ops[0]
                if isinstance(op, (ast.Gt, ast.GtE)):
                    l, r, op = r, l, (ast.Lt() if isinstance(op, ast.Gt) else ast.LtE())
                if isinstance(l, ast.Call) and U(l.func) in ("torch.rand", "torch.rand_like"):
                    if U(r) == alpha:
                        arg_ok = U(l.func) == "torch.rand_like" and U(l.args[0]) == alpha or (l.args and shape_ok(l.args[0], alpha))
                        if isinstance(op, ast.Lt) and arg_ok:
                            good = True
                        elif not arg_ok:
                            why = f"the uniform draw has shape `{U(l.args[0]) if l.args else ''}`: not one draw per decision"
                        else:
                            why = "comparison is not strict `<`"
                    else:
                        why = f"the draw is compared with `{U(r)}`, not with the acceptance probability"
                elif isinstance(r, ast.Call) and U(r.func) == "torch.rand" and U(l) == alpha:
                    why = "comparison is reversed: accepts when alpha < u"
            # the return must not be guarded by a condition on alpha (a draw is consumed for every decision)
            n = cfg.node_of(st)
            guarded = bool(cfg.if_guards(n)) if n is not None else False
            if good and guarded:
                good, why = False, "the decision is taken on a conditional path: some decisions consume no draw"
            others = [x for x in rets if x is not st]
            if good and others:
                good, why = False, "another return path decides without drawing"
            ctx.check(good, "C03.R2", f, st, "returns torch.rand(shape) < alpha unconditionally", why)
    for sf in sample_functions(ix, "C03.R2"):
        cfg = sf.cfg
        for pn, px, how in sf.writes:
            ends = sf.ends_for(pn)
            ds = [d[0] for d in sf.decisions]
            one = bool(ds) and all(cfg.all_paths_pass(pn, ds, end=e) for e in ends)
            # exactly one: no path passes two decisions between proposals
            two = False
            for d1 in ds:
                for d2 in ds:
                    if d1 != d2 and cfg.reachable(d1, d2) and not any(cfg.all_paths_pass(d1, [w for w, _, _ in sf.writes], end=d2) for _ in (0,)):
                        two = True
            want = "_metropolis_step" if sf.kind == "population" else "_group_metropolis_step"
            kinds = {U(c.func) for _, c, _, _ in sf.decisions}
            right_kind = kinds == {f"self.{want}"}
            ctx.check(one and not two and right_kind, "C03.R2", sf.f, px, f"exactly one self.{want}(alpha) after the proposal on every path",
                      "proposal not followed by exactly one acceptance draw" if right_kind else
                      f"{sf.kind} sampler decides with {sorted(kinds)}: " + ("one global draw for all individuals" if sf.kind == "individual" else "unexpected decision function"))
            # alpha argument
            for _, c, _, _ in sf.decisions:
                ctx.check(len(c.args) == 1 and (isinstance(c.args[0], ast.Name) or (isinstance(c.args[0], ast.Call) and U(c.args[0].func) == "torch.exp")), "C03.R2", sf.f, c, "decision takes alpha (R1 decides what alpha is)",
                          "decision does not take the acceptance probability")


def _product_factors(e, inl):
    e = inl.resolve(e)
    out = []

    def rec(x):
        if isinstance(x, ast.BinOp) and isinstance(x.op, ast.Mult):
            rec(x.left)
            rec(x.right)
        else:
            out.append(x)
    rec(e)
    return out


def r3_proposal(ctx):
    ctx.rule("C03.R3", "proposal = std[...] * randn(shape) (zero mean), put with accumulate=True on the targeted block", 4)
    ix = ctx.ix
    for sf in sample_functions(ix, "C03.R3"):
        f = sf.f
        for pn, px, how in sf.writes:
            if how != "put":
                ctx.violation("C03.R3", f, px, "proposal written by plain assignment, not as an accumulating perturbation of the current value")
                continue
            acc = kwarg(px, "accumulate")
            name_ok = px.args and U(px.args[0]) == "self.name"
            idx = kwarg(px, "indices")
            val = px.args[1] if len(px.args) > 1 else kwarg(px, "variable_value")
            ctx.check(name_ok, "C03.R3", f, px, "perturbs the sampler's own variable", "the proposal is written into another variable than self.name", construct="put target")
            ctx.check(isinstance(acc, ast.Constant) and acc.value is True, "C03.R3", f, px, "accumulate=True: perturbation around the current value",
                      "state.put without accumulate=True: the 'proposal' replaces the value by the perturbation itself (not a random walk)", construct="put accumulate")
            if sf.kind == "population":
                loop = sf.loop_header_of(pn)
                lv = U(sf.cfg.stmt[loop].target) if loop is not None else None
                ctx.check(idx is not None and U(idx) == lv, "C03.R3", f, px, f"indices={lv}: only the targeted block is changed",
                          "population proposal is not restricted to the block being sampled (`indices=idx` of the iteration)", construct="put indices")
            else:
                ctx.check(idx is None, "C03.R3", f, px, "all individuals perturbed at once (separable target)", "individual proposal restricted to indices", construct="put indices")
            # the proposal function
            if not (isinstance(val, ast.Call) and isinstance(val.func, ast.Attribute) and U(val.func.value) == "self"):
                ctx.unknown("C03.R3", f, px, "proposal value is not a call of a method of the sampler")
                continue
            for k in sf.classes:
                m = ix.method(k, val.func.attr)
                if m is None:
                    ctx.unknown("C03.R3", f, px, f"{k[1]}.{val.func.attr} not found")
                    continue
                ctx.analysed(m)
                inl = Inliner(m.node)
                rets = [st for st in statements(m.node) if isinstance(st, ast.Return)]
                for st in rets:
                    # follow simple re-assignment chains of the returned name (x = a*b ; if c: x = x * mask ; return x)
                    exprs = []
                    if isinstance(st.value, ast.Name):
                        defs = local_defs(m.node).get(st.value.id, [])
                        exprs = [d for d in defs if d is not None]
                    else:
                        exprs = [st.value]
                    ok, why = True, ""
                    n_randn = 0
                    for ex in exprs:
                        if any(isinstance(x, ast.BinOp) and isinstance(x.op, (ast.Add, ast.Sub)) for x in ast.walk(ex) if not _inside_call_args(ex, x)):
                            ok, why = False, f"proposal `{U(ex)}` has an additive term: it is not a zero-mean perturbation"
                            break
                        for fac in _product_factors(ex, Inliner(ast.parse("def _(): pass").body[0])):
                            t = U(fac)
                            if isinstance(fac, ast.Call) and U(fac.func) == "torch.randn":
                                n_randn += 1
                            elif isinstance(fac, ast.Name) and fac.id == getattr(st.value, "id", None):
                                pass
                            elif t.startswith("self.std[") or t == "self.std":
                                pass
                            elif t.startswith("self.mask[") and t.endswith(".float()"):
                                pass
                            else:
                                ok, why = False, f"unexpected factor `{t}` in the proposal (only the adaptive std and the optional mask may scale the Gaussian draw)"
                    if ok and n_randn != 1:
                        ok, why = False, f"{n_randn} Gaussian draws in the proposal (expected exactly one torch.randn factor)"
                    ctx.check(ok, "C03.R3", m, st, f"std[...] * torch.randn(shape) [{k[1]}]", why, instance=k[1])


def _inside_call_args(root, node):
    """Is `node` located inside the argument list of a call / a subscript index within `root` (shape arithmetic is fine)."""
    for x in ast.walk(root):
        if isinstance(x, ast.Call):
            for a in list(x.args) + [k.value for k in x.keywords]:
                if any(y is node for y in ast.walk(a)):
                    return True
        if isinstance(x, ast.Subscript):
            if any(y is node for y in ast.walk(x.slice)):
                return True
    return False


def r4_terms(ctx):
    from ..specgraph import graphs, nif_chain
    from ..interp import FuncRef

    ctx.rule("C03.R4", "the decision sees every primitive likelihood term that depends on the sampled variable", 30)
    sfs = {sf.kind: sf for sf in sample_functions(ctx.ix, "C03.R4")}
    for g in graphs(ctx):
        I = g.interp
        prim = set()
        for n in g.by_kind("LinkedVariable"):
            chain = nif_chain(I, n.var.attrs["f"])
            base = chain[0][0]
            if isinstance(base, FuncRef) and base.func.cls is not None and base.func.name in ("nll", "regularization") and \
                    "distributions" in base.func.mod:
                prim.add(n.name)
        if not prim:
            raise AnalysisError("C03.R4", f"no primitive likelihood node recognised in {g.cfg.name}")
        for kind, vkind in (("population", "PopulationLatentVariable"), ("individual", "IndividualLatentVariable")):
            sf = sfs.get(kind)
            if sf is None:
                raise AnalysisError("C03.R4", f"no {kind} sampler")
            put, roles = _roles(sf)
            templates = [nm for _, (role, when, nm) in roles.items() if when == "new"]
            for v in [n.name for n in g.by_kind(vkind)]:
                read = set()
                bad_names = []
                for t in templates:
                    name = I.eval(t, {"__mod__": sf.f.mod, "__owner__": sf.f.cls, "self": Obj(sf.f.cls, {"name": v})})
                    if name not in g.nodes:
                        bad_names.append(name)
                        continue
                    read |= {name} | g.ancestors(name)
                if bad_names:
                    ctx.violation("C03.R4", sf.f, sf.f.node, f"sampler of `{v}` reads {bad_names}, not a variable of {g.cfg.name}", construct=f"terms read for {v}", instance=g.cfg.name)
                    continue
                dep = {p for p in prim if v in g.ancestors(p)}
                missing = sorted(dep - read)
                ctx.check(not missing, "C03.R4", sf.f, sf.f.node, f"{g.cfg.name}: terms depending on `{v}` = {sorted(dep)} all seen by the decision",
                          f"{g.cfg.name}: likelihood term(s) {missing} depend on `{v}` but are not part of what the {kind} sampler compares "
                          f"(reads {sorted(n for n in read if n.startswith('nll_'))[:6]})", construct=f"terms read for {v}", instance=g.cfg.name)


def r5_individual(ctx):
    from ..domains.axis import axis_of_graph
    from ..specgraph import graphs

    ctx.rule("C03.R5", "per-individual decisions: everything the individual sampler compares keeps the individual axis", 8)
    sfs = [sf for sf in sample_functions(ctx.ix, "C03.R5") if sf.kind == "individual"]
    if not sfs:
        raise AnalysisError("C03.R5", "individual sampler not found")
    sf = sfs[0]
    put, roles = _roles(sf)
    for g in graphs(ctx):
        axes = axis_of_graph(ctx, g)
        for v in [n.name for n in g.by_kind("IndividualLatentVariable")]:
            for lname, (role, when, t) in roles.items():
                if when != "new":
                    continue
                name = g.interp.eval(t, {"__mod__": sf.f.mod, "__owner__": sf.f.cls, "self": Obj(sf.f.cls, {"name": v})})
                ax = axes.get(name, "missing")
                if str(ax).startswith("UNKNOWN"):
                    ctx.unknown("C03.R5", sf.f, t, f"{g.cfg.name}: the axis-0 domain could not evaluate `{name}` ({str(ax)[:120]})", instance=f"{g.cfg.name}:{v}")
                    continue
                ctx.check(ax == "IND", "C03.R5", sf.f, t, f"{g.cfg.name}: `{name}` is per-individual",
                          f"{g.cfg.name}: `{name}` compared by the individual sampler of `{v}` is {ax}: a decision would depend on other individuals", instance=f"{g.cfg.name}:{v}")


def _reduces_over_individuals(node) -> list:
    """calls in `node` that reduce / normalise over axis 0 (the individual axis of per-individual values) or over all axes"""
    out = []
    for c in ast.walk(node):
        if not isinstance(c, ast.Call):
            continue
        name = c.func.attr if isinstance(c.func, ast.Attribute) else U(c.func).split(".")[-1]
        if name not in ("sum", "mean", "prod", "max", "min", "amax", "amin", "logsumexp", "softmax", "Softmax", "std", "var", "median", "cumsum", "norm"):
            continue
        d = kwarg(c, "dim") if kwarg(c, "dim") is not None else kwarg(c, "axis")
        pos = [a for a in c.args if isinstance(a, ast.Constant) and isinstance(a.value, int)]
        dim = U(d) if d is not None else (str(pos[0].value) if pos and isinstance(c.func, ast.Attribute) else None)
        is_tensor_call = isinstance(c.func, ast.Attribute) or U(c.func).startswith(("torch.", "np."))
        if not is_tensor_call:
            continue
        full_function = dim is None and name in ("sum", "mean", "prod", "max", "min", "std", "var", "median", "norm") and not c.args[1:] and isinstance(c.func, ast.Attribute) is False
        # method form without any argument: `x.max()`, `x.sum()` ... reduce over every axis, the individual one included
        full_method = dim is None and isinstance(c.func, ast.Attribute) and not c.args and not c.keywords and name in ("sum", "mean", "prod", "max", "min", "amax", "amin", "std", "var", "median", "norm") \
            and U(c.func.value) not in ("torch", "np", "math")
        if dim in ("0", "LVL_IND", "(0,)", "[0]") or full_function or full_method:
            out.append(c)
    return out


def r5b_no_cross_individual_weights(ctx, rid="C03.R5b"):
    """Whatever the individual sampler multiplies its per-individual terms with (cluster responsibilities of the mixture model ...) must be
    per-individual too: a quantity reduced over the individual axis makes D_i depend on the other individuals' values."""
    ctx.rule(rid, "the individual sampler uses no quantity reduced over the individual axis (directly or through a helper fed with the state)", 1)
    sfs = [sf for sf in sample_functions(ctx.ix, rid) if sf.kind == "individual"]
    if not sfs:
        raise AnalysisError(rid, "individual sampler not found")
    sf = sfs[0]
    f = sf.f
    for c in _reduces_over_individuals(f.node):
        ctx.violation(rid, f, c, f"`{U(c)[:70]}` reduces over the individual axis inside the individual sampler: every individual's decision then depends on the others")
    helpers = []
    for c in ast.walk(f.node):
        if isinstance(c, ast.Call) and any(isinstance(a, ast.Name) and a.id == sf.state for a in list(c.args) + [k.value for k in c.keywords]) \
                and not (isinstance(c.func, ast.Attribute) and U(c.func.value) in (sf.state, "self")):
            nm = U(c.func).split(".")[-1]
            cands = [g for g in ctx.ix.iter_funcs() if g.name == nm and g.cls is None]
            helpers.append((c, nm, cands))
    for c, nm, cands in helpers:
        if not cands:
            ctx.unknown(rid, f, c, f"`{U(c)[:60]}` hands the state to `{nm}`, which is not a function of the repository")
            continue
        red = [r for g in cands for r in _reduces_over_individuals(g.node)]
        ctx.check(not red, rid, f, c, f"helper `{nm}` keeps the individual axis",
                  f"`{U(c)[:60]}`: `{nm}` computes `{U(red[0])[:60] if red else ''}`, a quantity reduced over the individuals; used as a weight of the per-individual terms it makes each "
                  "individual's acceptance depend on the other individuals' current and proposed values")
    ctx.ok(rid, f, f.node, f"{len(helpers)} helper call(s) fed with the state; no reduction over the individual axis in the sampler", construct="def sample (individual)")


def r2b_outcome_used_as_drawn(ctx, rid="C03.R2b"):
    """'accepted exactly when a fresh uniform draw is below exp(-D)': what the sampler acts on (revert, acceptance statistics) is the outcome
    the decision function returned - the name it is bound to is bound once, and never rewritten (re-assignment, item store, in-place method)
    before it is used.  A 'guard' that replaces the outcome for the whole cohort makes one individual's ratio decide for the others."""
    ctx.rule(rid, "the outcome of the acceptance decision is bound once and never rewritten before it is acted upon", 2)
    for sf in sample_functions(ctx.ix, rid):
        for dn, dc, dkind, dvar in sf.decisions:
            if dvar is None:
                continue  # thrown-away outcomes are C02.R2's business
            rewrites = []
            for st in statements(sf.f.node):
                if sf.cfg.node_of(st) == dn:
                    continue
                for t in store_targets(st):
                    base = t
                    while isinstance(base, (ast.Subscript, ast.Attribute)):
                        base = base.value
                    if isinstance(base, ast.Name) and base.id == dvar:
                        rewrites.append(st)
                for c in header_walk(st):
                    if isinstance(c, ast.Call) and isinstance(c.func, ast.Attribute) and isinstance(c.func.value, ast.Name) and c.func.value.id == dvar \
                            and c.func.attr.endswith("_") and not c.func.attr.endswith("__"):
                        rewrites.append(st)
            if rewrites:
                g = [U(sf.cfg.stmt[h].test)[:60] for h, _ in sf.cfg.if_guards(sf.cfg.node_of(rewrites[0]))] if sf.cfg.node_of(rewrites[0]) is not None else []
                ctx.violation(rid, sf.f, rewrites[0], f"`{U(rewrites[0])[:80]}` rewrites the outcome `{dvar}` of `{U(dc)[:50]}`" + (f" when `{g[0]}`" if g else "") +
                              ": what is reverted / counted is no longer `u < exp(-D)` for each decision" + (" - a condition reduced over all individuals decides for every one of them" if dkind != "scalar" and g else ""),
                              construct=f"outcome {dvar} of {dc.func.attr}")
            else:
                ctx.ok(rid, sf.f, dc, f"`{dvar}` is bound by `{U(dc)[:50]}` only and never rewritten", construct=f"outcome {dvar} of {dc.func.attr}")


def r9_weights_of_the_state_they_weigh(ctx):
    """Mixture models: the per-cluster regularity of an individual is averaged with that individual's cluster responsibilities *in the state
    the regularity was read from* - the responsibilities of the proposed state for the proposed regularity.  Weights computed once before the
    proposal and re-used after it make D another quantity than the change of the (responsibility-weighted) regularity."""
    ctx.rule("C03.R9", "cluster responsibilities weighting a regularity are read from the same state as that regularity (no proposal in between)", 2)
    n = 0
    for sf in sample_functions(ctx.ix, "C03.R9"):
        if sf.kind != "individual":
            continue
        cfg = sf.cfg
        puts = [pn for pn, px, how in sf.writes]
        order = sorted((st.lineno, nid) for nid, st in cfg.stmt.items() if st is not None)
        for nid, st in cfg.stmt.items():
            if not (isinstance(st, ast.Assign) and len(st.targets) == 1 and isinstance(st.targets[0], ast.Name)):
                continue
            v = st.value
            # X = (W * X).sum(dim=1)
            if not (isinstance(v, ast.Call) and isinstance(v.func, ast.Attribute) and v.func.attr == "sum" and isinstance(v.func.value, ast.BinOp) and isinstance(v.func.value.op, ast.Mult)):
                continue
            ops = [v.func.value.left, v.func.value.right]
            tgt = st.targets[0].id
            w = [o for o in ops if isinstance(o, ast.Name) and o.id != tgt]
            if len(w) != 1 or not any(isinstance(o, ast.Name) and o.id == tgt for o in ops):
                continue
            n += 1
            wdefs = [(ln, k) for ln, k in order if ln < st.lineno and isinstance(cfg.stmt[k], ast.Assign) and any(isinstance(t, ast.Name) and t.id == w[0].id for t in cfg.stmt[k].targets)]
            if not wdefs:
                ctx.unknown("C03.R9", sf.f, st, f"definition of the weights `{w[0].id}` not found", construct=f"weights of {tgt}")
                continue
            wd = wdefs[-1][1]
            between = [p_ for p_ in puts if cfg.reachable(wd, p_) and cfg.reachable(p_, nid) and p_ not in (wd, nid)]
            ctx.check(not between, "C03.R9", sf.f, st, f"`{w[0].id}` is computed from the state `{tgt}` was read from",
                      f"`{U(st)[:70]}` weighs the regularity read after the proposal with responsibilities `{w[0].id}` computed before it (`{U(cfg.stmt[wd])[:60]}`): D is not the change of the "
                      "responsibility-weighted regularity between the current and the proposed state", construct=f"weights of {tgt}")
    if n < 2:
        ctx.unknown("C03.R9", ("leaspy.samplers.gibbs", "IndividualGibbsSampler.sample"), None, f"only {n} responsibility-weighted regularity found (2 confirmed)", construct="responsibility weights")


def rules(ctx):
    r1_exponent(ctx)
    r1c_no_inplace(ctx)
    r2_draw(ctx)
    r2b_outcome_used_as_drawn(ctx)
    r9_weights_of_the_state_they_weigh(ctx)
    r3_proposal(ctx)
    r4_terms(ctx)
    r5_individual(ctx)
    r5b_no_cross_individual_weights(ctx)
    # "kept exactly when u < exp(-D)": a rejected proposal is really gone only if the write of the proposal did not rewrite, in place, the tensor
    # the snapshot was (or will be) taken from - State.put is out-of-place (same rule as C01.R4a / C02.R6)
    from .c01 import state_put_out_of_place
    state_put_out_of_place(ctx, rid="C03.R6", why="the snapshot a rejection restores is taken from (or shares) that tensor: the rejected proposal is kept although u >= exp(-D)")
    # "a rejected proposal is removed": the revert the samplers call restores every forked entry and refuses to run without a snapshot
    # (a silent no-op would keep every rejected proposal) - same rule as C02.R3
    from .c02 import r3_revert_structure
    r3_revert_structure(ctx, rid="C03.R7", title="State.revert restores the snapshot (full and per-individual branch) and raises when there is none")
    # ... and what a rejected individual gets back is its old value, selected - an arithmetic blend turns a non-finite proposed value into NaN in the
    # cache, and the decisions taken from it afterwards are no longer `u < exp(-D)` (same rule as C02.R4)
    from .c02 import r4_selection
    r4_selection(ctx, rid="C03.R8")
    ctx.trust("torch.exp / torch.rand / torch.randn semantics; sympy expand")


G = "src/leaspy/samplers/gibbs.py"
B = "src/leaspy/samplers/base.py"
VARIANTS = [
    V("temp-on-attachment-pop", G, "                    (new_regularity - previous_regularity) * temperature_inv\n                    + (new_attachment - previous_attachment)",
      "                    (new_regularity - previous_regularity)\n                    + (new_attachment - previous_attachment) * temperature_inv", "C03.R1"),
    V("temp-on-attachment-ind", G, "                (new_regularity - previous_regularity) * temperature_inv\n                + (new_attachment - previous_attachment)\n            )\n        )\n        accepted = self._group",
      "                (new_regularity - previous_regularity)\n                + (new_attachment - previous_attachment) * temperature_inv\n            )\n        )\n        accepted = self._group", "C03.R1"),
    V("sign-flipped", G, "            alpha = torch.exp(\n                -1\n", "            alpha = torch.exp(\n                1\n", "C03.R1"),
    V("no-temperature", G, "(new_regularity - previous_regularity) * temperature_inv\n                    +", "(new_regularity - previous_regularity)\n                    +", "C03.R1"),
    V("draw-only-if-needed", B, "        return torch.rand(()) < alpha", "        if alpha >= 1:\n            return True\n        return torch.rand(()) < alpha", "C03.R2"),
    V("single-draw-for-group", B, "accepted = torch.rand(alpha.shape) < alpha", "accepted = torch.rand(()) < alpha", "C03.R2"),
    V("reversed-compare", B, "accepted = torch.rand(alpha.shape) < alpha", "accepted = torch.rand(alpha.shape) > alpha", "C03.R2"),
    V("biased-proposal", G, "change_idx = self.std[idx] * torch.randn(shape_idx)", "change_idx = self.std[idx] * torch.randn(shape_idx) + 0.001", "C03.R3"),
    V("no-accumulate", G, "            self._proposed_change(),\n            accumulate=True,  # out-of-place addition\n", "            self._proposed_change(),\n", "C03.R3"),
    V("whole-var-proposal", G, "                indices=idx,\n", "", "C03.R3"),
    V("ind-reads-total-attach", G, "(\"nll_attach_ind\", f\"nll_regul_{self.name}_ind\")", "(\"nll_attach\", f\"nll_regul_{self.name}_ind\")", "C03.R5"),
    V("pop-forgets-regularity", G, "return state[\"nll_attach\"], state[f\"nll_regul_{self.name}\"]", "return state[\"nll_attach\"], state[\"nll_regul_ind_sum\"]", "C03.R4"),
    V("joint-attach-forgets-event", "src/leaspy/models/joint.py", "nll_attach_ind=LinkedVariable(\n                Sum(\"nll_attach_y_ind\", \"nll_attach_event_ind\")\n            ),",
      "nll_attach_ind=LinkedVariable(\n                Sum(\"nll_attach_y_ind\")\n            ),", "C03.R4"),
    V("reweight-only-new", G, "            previous_regularity = (probs_ind * previous_regularity).sum(dim=1)", "            previous_regularity = previous_regularity.sum(dim=1)", "C03.R1"),
    # silent
    V("silent-refactored-exponent", G, "                -1\n                * (\n                    (new_regularity - previous_regularity) * temperature_inv\n                    + (new_attachment - previous_attachment)\n                )",
      "                (previous_attachment - new_attachment)\n                + temperature_inv * (previous_regularity - new_regularity)", None),
    V("silent-alpha-gt", B, "        return torch.rand(()) < alpha", "        return alpha > torch.rand(())", None),
    V("silent-rename-previous", "src/leaspy/samplers/gibbs.py", "previous_attachment", "old_attachment", None, count=4),
]
