"""Per-run caches shared by the effect-based rules (C07, C09, C11, C13, C18)."""
from __future__ import annotations

import ast
from typing import Dict, List, Set, Tuple

from ..astq import U
from ..effects import CallGraph, StateWrites
from ..index import AnalysisError, Func
from ..interp import FuncRef

_CG: Dict[str, CallGraph] = {}
_SW: Dict[str, StateWrites] = {}
_PS: Dict[str, dict] = {}


def _key(ctx):
    return ctx.ix.digest + ctx.ix.repo


def callgraph(ctx) -> CallGraph:
    k = _key(ctx)
    if k not in _CG:
        linked, rules = [], []
        try:
            from ..specgraph import QUICK_CONFIGS, base_functions, graphs

            saved = dict(ctx.extra)
            for g in graphs(ctx, QUICK_CONFIGS):
                for n in g.by_kind("LinkedVariable"):
                    for c in base_functions(g.interp, n.var):
                        if isinstance(c, FuncRef) and c.func not in linked:
                            linked.append(c.func)
                for n in g.by_kind("ModelParameter"):
                    for which in ("update_rule", "update_rule_burn_in"):
                        r = n.var.attrs.get(which)
                        if r is None:
                            continue
                        from ..specgraph import nif_chain

                        for c, _ in nif_chain(g.interp, r):
                            if isinstance(c, FuncRef) and c.func not in rules:
                                rules.append(c.func)
            ctx.extra.clear()
            ctx.extra.update(saved)
        except AnalysisError:
            raise
        _CG[k] = CallGraph(ctx.ix, linked=linked, update_rules=rules)
    return _CG[k]


def state_writes(ctx) -> StateWrites:
    k = _key(ctx)
    if k not in _SW:
        _SW[k] = StateWrites(callgraph(ctx))
    return _SW[k]


SAMPLES_LITERALS = {"LatentVariableInitType.PRIOR_SAMPLES", "'samples'", '"samples"'}
NO_SAMPLES_LITERALS = {"LatentVariableInitType.PRIOR_MODE", "LatentVariableInitType.PRIOR_MEAN", "None", "'mode'", "'mean'", '"mode"', '"mean"'}


def prior_sampling_sites(ctx, cg: CallGraph) -> Dict[Tuple[str, str], List[ast.Call]]:
    """Call sites that (may) draw from a prior: requests of an initialisation function with method PRIOR_SAMPLES.

    Seed: the only creator of sampling functions is `LatentVariable._get_init_func_generic` under
    `method is LatentVariableInitType.PRIOR_SAMPLES` (anchor checked).  `draws_if[f]` = parameters of f that, when they may be
    PRIOR_SAMPLES, make f draw; propagated bottom-up through the call graph with the literal passed at each call site."""
    k = _key(ctx)
    if k in _PS:
        return _PS[k]
    ix = ctx.ix
    gen = ix.func("leaspy.variables.specs", "LatentVariable._get_init_func_generic", "C11.prior-sampling")
    src = ast.unparse(gen.node)
    if "get_func_sample" not in src or "method is LatentVariableInitType.PRIOR_SAMPLES" not in src:
        raise AnalysisError("C11.prior-sampling", "anchor changed: _get_init_func_generic no longer requests `get_func_sample` exactly under `method is PRIOR_SAMPLES`")
    # every other user of get_func_sample / get_func('sample') is a direct draw site
    result: Dict[Tuple[str, str], List[ast.Call]] = {}
    for f in ix.iter_funcs():
        if f.key == gen.key or f.mod == "leaspy.variables.distributions":
            continue
        for c in ast.walk(f.node):
            if isinstance(c, ast.Call) and isinstance(c.func, ast.Attribute) and (c.func.attr in ("get_func_sample", "get_func_sample_multivariate")
                                                                                   or (c.func.attr == "get_func" and c.args and U(c.args[0]) in ("'sample'", '"sample"'))):
                result.setdefault(f.key, []).append(c)
    draws_if: Dict[Tuple[str, str], Set[str]] = {gen.key: {"method"}}
    changed = True
    from ..effects import StateWrites

    while changed:
        changed = False
        for f in ix.iter_funcs():
            a = f.node.args
            own = {p.arg for p in a.posonlyargs + a.args + a.kwonlyargs}
            for s in cg.sites[f.key]:
                if s.kind not in ("exact", "typed", "indirect", "byname"):
                    continue
                for t in s.targets:
                    ps = draws_if.get(t.key)
                    if not ps:
                        continue
                    bound = dict(StateWrites._bind_args(s.node, t))
                    for p in ps:
                        arg = bound.get(p)
                        if arg is None:
                            # default value of the callee's parameter
                            continue
                        txt = U(arg)
                        if txt in SAMPLES_LITERALS:
                            if s.node not in result.get(f.key, []):
                                result.setdefault(f.key, []).append(s.node)
                                changed = True
                        elif txt in NO_SAMPLES_LITERALS:
                            continue
                        elif isinstance(arg, ast.Name) and arg.id in own:
                            if arg.id not in draws_if.setdefault(f.key, set()):
                                draws_if[f.key].add(arg.id)
                                changed = True
                        else:
                            if s.node not in result.get(f.key, []):
                                result.setdefault(f.key, []).append(s.node)
                                changed = True
    _PS[k] = result
    ctx.extra["prior_sampling_forwarders"] = sorted(f"{k[1]}({','.join(sorted(v))})" for k, v in draws_if.items())
    return result
