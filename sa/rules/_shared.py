"""Per-run caches shared by the effect-based rules (C07, C09, C11, C13, C18)."""
from __future__ import annotations

import ast
from typing import Dict, List, Set, Tuple

from ..astq import U, statements, store_targets
from ..effects import CallGraph, StateWrites
from ..index import AnalysisError, Func
from ..interp import FuncRef

_CG: Dict[str, CallGraph] = {}
_SW: Dict[str, StateWrites] = {}
_PS: Dict[str, dict] = {}


def _key(ctx):
    return ctx.ix.digest + ctx.ix.repo + ctx.ix.serial


def callgraph(ctx) -> CallGraph:
    k = _key(ctx)
    if k not in _CG:
        linked, rules = [], []
        try:
            from ..specgraph import QUICK_CONFIGS, base_functions, graphs

            saved = dict(ctx.extra)
            for g in graphs(ctx, QUICK_CONFIGS):
                for n in g.by_kind("LinkedVariable"):
                    for c in base_functions(g.interp, n.var):
                        if isinstance(c, FuncRef) and c.func not in linked:
                            linked.append(c.func)
                for n in g.by_kind("ModelParameter"):
                    for which in ("update_rule", "update_rule_burn_in"):
                        r = n.var.attrs.get(which)
                        if r is None:
                            continue
                        from ..specgraph import nif_chain

                        for c, _ in nif_chain(g.interp, r):
                            if isinstance(c, FuncRef) and c.func not in rules:
                                rules.append(c.func)
            ctx.extra.clear()
            ctx.extra.update(saved)
        except AnalysisError:
            raise
        _CG[k] = CallGraph(ctx.ix, linked=linked, update_rules=rules)
    return _CG[k]


def state_writes(ctx) -> StateWrites:
    k = _key(ctx)
    if k not in _SW:
        _SW[k] = StateWrites(callgraph(ctx))
    return _SW[k]


SAMPLES_LITERALS = {"LatentVariableInitType.PRIOR_SAMPLES", "'samples'", '"samples"'}
NO_SAMPLES_LITERALS = {"LatentVariableInitType.PRIOR_MODE", "LatentVariableInitType.PRIOR_MEAN", "None", "'mode'", "'mean'", '"mode"', '"mean"'}


def prior_sampling_sites(ctx, cg: CallGraph) -> Dict[Tuple[str, str], List[ast.Call]]:
    """Call sites that (may) draw from a prior: requests of an initialisation function with method PRIOR_SAMPLES.

    Seed: the only creator of sampling functions is `LatentVariable._get_init_func_generic` under
    `method is LatentVariableInitType.PRIOR_SAMPLES` (anchor checked).  `draws_if[f]` = parameters of f that, when they may be
    PRIOR_SAMPLES, make f draw; propagated bottom-up through the call graph with the literal passed at each call site."""
    k = _key(ctx)
    if k in _PS:
        return _PS[k]
    ix = ctx.ix
    gen = ix.func("leaspy.variables.specs", "LatentVariable._get_init_func_generic", "C11.prior-sampling")
    src = ast.unparse(gen.node)
    if "get_func_sample" not in src or "method is LatentVariableInitType.PRIOR_SAMPLES" not in src:
        raise AnalysisError("C11.prior-sampling", "anchor changed: _get_init_func_generic no longer requests `get_func_sample` exactly under `method is PRIOR_SAMPLES`")
    # every other user of get_func_sample / get_func('sample') is a direct draw site
    result: Dict[Tuple[str, str], List[ast.Call]] = {}
    for f in ix.iter_funcs():
        if f.key == gen.key or f.mod == "leaspy.variables.distributions":
            continue
        for c in ast.walk(f.node):
            if isinstance(c, ast.Call) and isinstance(c.func, ast.Attribute) and (c.func.attr in ("get_func_sample", "get_func_sample_multivariate")
                                                                                   or (c.func.attr == "get_func" and c.args and U(c.args[0]) in ("'sample'", '"sample"'))):
                result.setdefault(f.key, []).append(c)
    draws_if: Dict[Tuple[str, str], Set[str]] = {gen.key: {"method"}}
    changed = True
    from ..effects import StateWrites

    while changed:
        changed = False
        for f in ix.iter_funcs():
            a = f.node.args
            own = {p.arg for p in a.posonlyargs + a.args + a.kwonlyargs}
            for s in cg.sites[f.key]:
                if s.kind not in ("exact", "typed", "indirect", "byname"):
                    continue
                for t in s.targets:
                    ps = draws_if.get(t.key)
                    if not ps:
                        continue
                    bound = dict(StateWrites._bind_args(s.node, t))
                    for p in ps:
                        arg = bound.get(p)
                        if arg is None:
                            # default value of the callee's parameter
                            continue
                        txt = U(arg)
                        if txt in SAMPLES_LITERALS:
                            if s.node not in result.get(f.key, []):
                                result.setdefault(f.key, []).append(s.node)
                                changed = True
                        elif txt in NO_SAMPLES_LITERALS:
                            continue
                        elif isinstance(arg, ast.Name) and arg.id in own:
                            if arg.id not in draws_if.setdefault(f.key, set()):
                                draws_if[f.key].add(arg.id)
                                changed = True
                        else:
                            if s.node not in result.get(f.key, []):
                                result.setdefault(f.key, []).append(s.node)
                                changed = True
    _PS[k] = result
    ctx.extra["prior_sampling_forwarders"] = sorted(f"{k[1]}({','.join(sorted(v))})" for k, v in draws_if.items())
    return result


NOCOPY_FUNCS = {"np.asarray", "numpy.asarray", "np.asanyarray", "numpy.asanyarray", "torch.as_tensor", "torch.from_numpy", "np.ravel", "numpy.ravel", "np.atleast_1d", "np.atleast_2d",
                "np.squeeze", "np.transpose"}
INPLACE_FREE = {"requires_grad_", "share_memory_", "retain_grad"}  # in-place only on autograd / storage flags, not on values


def inplace_on_state_values(ctx, funcs=None):
    """[(func, node, description)]: in-place modification of a tensor that (may) alias a value held by a State.

    A State hands out its cached tensors (and its fork keeps the same objects): `v = state[name]` followed by `v *= a`, `v[m] = b`,
    `v.clamp_(...)`, `torch.f(..., out=v)` rewrites the cache (and the fork used by revert) behind the State's back.
    Aliases followed (flow-insensitively, per function): names bound to `S[...]`, `S.get_tensor_value(...)`, `<alias>.value`, another
    alias, tuple-unpacking of a local closure returning aliases; any arithmetic / call result is fresh."""
    import ast as _ast
    from ..astq import U as _U, statements as _st
    sw = state_writes(ctx)
    ix = ctx.ix
    out = []
    holders = []  # functions in which at least one local aliases a State value (vacuity guard of the callers)
    for f in (funcs if funcs is not None else ix.iter_funcs()):
        if f.cls == sw.state_cls:
            continue
        prov = sw.provenance(f)
        tainted = set()
        closures = {n.name: n for n in _ast.walk(f.node) if isinstance(n, _ast.FunctionDef) and n is not f.node}

        def is_read(e) -> bool:
            if isinstance(e, _ast.Subscript) and sw._is_state_expr(e.value, f, prov):
                return True
            if isinstance(e, _ast.Call) and isinstance(e.func, _ast.Attribute) and e.func.attr in ("get_tensor_value", "get_tensor_values", "__getitem__") and sw._is_state_expr(e.func.value, f, prov):
                return True
            # `<model>.parameters[name]` / `.hyperparameters[name]`: the properties hand out the State's own tensors ({p: self._state[p] ...})
            if isinstance(e, _ast.Subscript) and isinstance(e.value, _ast.Attribute) and e.value.attr in ("parameters", "hyperparameters") \
                    and not (isinstance(e.value.value, _ast.Name) and e.value.value.id in ("settings", "algo_settings", "algorithm_settings", "outputs")) \
                    and not (isinstance(e.value.value, _ast.Attribute) and e.value.value.attr in ("settings", "algo_settings")):
                return True
            return False

        def alias(e) -> bool:
            if is_read(e):
                return True
            if isinstance(e, _ast.Name):
                return e.id in tainted
            if isinstance(e, _ast.Attribute) and e.attr in ("value", "weight", "data", "T"):
                return alias(e.value)
            if isinstance(e, _ast.Subscript):
                return alias(e.value)  # basic indexing gives a view
            if isinstance(e, _ast.Call) and isinstance(e.func, _ast.Attribute) and e.func.attr in ("view", "reshape", "squeeze", "unsqueeze", "expand", "t", "detach", "flatten", "transpose", "permute", "numpy", "view_as", "expand_as", "narrow", "select", "unbind", "ravel",
                                                                                                  # conversions that return the tensor itself when nothing has to change
                                                                                                  "float", "double", "to", "type_as", "contiguous", "cpu", "requires_grad_"):
                return alias(e.func.value)
            if isinstance(e, _ast.IfExp):
                return alias(e.body) or alias(e.orelse)
            if isinstance(e, _ast.Call) and _U(e.func) in NOCOPY_FUNCS and e.args:
                return alias(e.args[0])  # np.asarray / torch.as_tensor ... return their argument when nothing has to be converted
            if isinstance(e, _ast.Call) and isinstance(e.func, _ast.Name) and e.func.id in closures:
                return any(alias(r) or (isinstance(r, _ast.Tuple) and any(alias(x) for x in r.elts)) for r in closure_ret(e.func.id) or [])
            return False

        def closure_ret(name):
            fn = closures.get(name)
            if fn is None:
                return None
            rets = [s.value for s in _ast.walk(fn) if isinstance(s, _ast.Return) and s.value is not None]
            return rets

        for _ in range(4):
            before = len(tainted)
            for st in _ast.walk(f.node):
                if not isinstance(st, _ast.Assign) or len(st.targets) != 1:
                    continue
                t, v = st.targets[0], st.value
                if isinstance(t, _ast.Name) and alias(v):
                    tainted.add(t.id)
                elif isinstance(t, _ast.Tuple) and not isinstance(v, _ast.Tuple) and alias(v) and not (isinstance(v, _ast.Call) and isinstance(v.func, _ast.Name) and v.func.id in closures
                                                                                                      and any(isinstance(r, _ast.Tuple) for r in closure_ret(v.func.id) or [])):
                    for a in t.elts:  # unpacking a tuple of State values
                        if isinstance(a, _ast.Name):
                            tainted.add(a.id)
                elif isinstance(t, _ast.Tuple) and isinstance(v, _ast.Tuple) and len(t.elts) == len(v.elts):
                    for a, b in zip(t.elts, v.elts):
                        if isinstance(a, _ast.Name) and alias(b):
                            tainted.add(a.id)
                elif isinstance(t, _ast.Tuple) and isinstance(v, _ast.Call) and isinstance(v.func, _ast.Name) and v.func.id in closures:
                    for r in closure_ret(v.func.id) or []:
                        if isinstance(r, _ast.Tuple) and len(r.elts) == len(t.elts):
                            for a, b in zip(t.elts, r.elts):
                                if isinstance(a, _ast.Name) and alias(b):
                                    tainted.add(a.id)
                elif isinstance(t, _ast.Name) and isinstance(v, _ast.Call) and isinstance(v.func, _ast.Name) and v.func.id in closures:
                    if any(alias(r) for r in closure_ret(v.func.id) or []):
                        tainted.add(t.id)
            if len(tainted) == before:
                break
        if tainted:
            holders.append((f, sorted(tainted)))
        for n in _ast.walk(f.node):
            if isinstance(n, _ast.AugAssign):
                tg = n.target
                base = tg.value if isinstance(tg, _ast.Subscript) else tg
                if alias(base) or is_read(tg):
                    out.append((f, n, f"`{_U(n)[:70]}` modifies in place a tensor read from the State"))
            elif isinstance(n, _ast.Assign):
                for tg in n.targets:
                    if isinstance(tg, _ast.Subscript) and (alias(tg.value)) and not sw._is_state_expr(tg.value, f, prov):
                        out.append((f, n, f"`{_U(n)[:70]}` writes into a tensor read from the State"))
            elif isinstance(n, _ast.Call):
                if isinstance(n.func, _ast.Attribute) and n.func.attr.endswith("_") and not n.func.attr.endswith("__") and n.func.attr not in INPLACE_FREE and alias(n.func.value):
                    out.append((f, n, f"`{_U(n)[:70]}` calls an in-place tensor method on a value read from the State"))
                for k in n.keywords:
                    if k.arg == "out" and alias(k.value):
                        out.append((f, n, f"`{_U(n)[:70]}` writes its result into a tensor read from the State"))
    return out, holders


def branch_always_raises(if_node) -> bool:
    """Every path through the true branch of `if_node` ends in a raise (so taking the false branch loses no refusal)."""
    import ast as _ast

    def ends(body):
        if not body:
            return False
        last = body[-1]
        if isinstance(last, _ast.Raise):
            return True
        if isinstance(last, _ast.If):
            return ends(last.body) and ends(last.orelse)
        return False
    return isinstance(if_node, _ast.If) and ends(if_node.body)


def refusal_side_conditions(cfg, raise_node, is_own, text, context=()):
    """Conditions under which a refusal (a `raise`) is reached, other than its own test.
    Returns [(if_stmt, canonical test, 'requires' | 'skipped when')]: a test that must hold as well (the refusal fires for fewer
    inputs), or a test that must fail whose branch does not itself refuse (inputs taking that branch are accepted).
    `context`: confirmed side conditions, as `<test>` / `not:<test>`."""
    out = []
    for h, lab in cfg.if_guards(raise_node):
        g = text(cfg.stmt[h].test)
        if is_own(g):
            continue
        if lab and g not in context:
            out.append((cfg.stmt[h], g, "requires"))
        elif not lab and ("not:" + g) not in context and not branch_always_raises(cfg.stmt[h]):
            out.append((cfg.stmt[h], g, "skipped when"))
    return out


NOCOPY_METHODS = {"reshape", "ravel", "view", "squeeze", "transpose", "swapaxes", "numpy", "to_numpy", "detach", "unsqueeze", "expand", "view_as", "t", "flatten_view",
                  # conversions that return `self` when there is nothing to convert
                  "to", "float", "double", "type", "type_as", "contiguous", "cpu", "cuda", "astype_nocopy", "requires_grad_", "as_subclass", "flatten",
                  "narrow", "select", "permute", "expand_as", "unbind", "real"}
NOCOPY_ATTRS = {"values", "T", "data", "real", "value", "weight", "mT"}


DATA_TENSOR_ATTRS = {
    "Dataset": {"values", "mask", "timepoints", "event_time", "event_bool", "covariates", "L2_norm_per_ft", "n_observations_per_ft"},
    "IndividualData": {"timepoints", "observations"},
}


def inplace_on_argument_views(ctx, funcs=None):
    """[(func, node, description)]: a local obtained from a *parameter* through conversions that do not (always) copy - np.asarray,
    torch.as_tensor, .reshape(), .ravel(), .values, .to_numpy(), .numpy(), .T ... - is modified in place (`x -= a`, `x[i] = v`, `x.f_()`,
    `out=x`): when the caller passed an array of the right type the caller's own data is rewritten."""
    import ast as _ast
    from ..astq import U as _U
    out, holders = [], []
    for f in (funcs if funcs is not None else ctx.ix.iter_funcs()):
        a = f.node.args
        params = {p.arg for p in a.posonlyargs + a.args + a.kwonlyargs} - {"self", "cls"}
        # data containers handed in by the caller: their tensors are inputs too (reading methods must not rewrite them through a view)
        self_attrs = DATA_TENSOR_ATTRS.get(f.cls[1], set()) if f.cls is not None else set()
        if not params and not self_attrs:
            continue
        tainted = {}

        def view_of(e):
            """name of the parameter `e` may be a view of (None otherwise); a bare parameter is not a view by itself"""
            if isinstance(e, _ast.Name):
                return tainted.get(e.id)
            if isinstance(e, _ast.Call):
                fn = _U(e.func)
                if fn in NOCOPY_FUNCS and e.args:
                    src = e.args[0]
                    if isinstance(src, _ast.Name) and src.id in params and src.id not in tainted:
                        return src.id
                    return view_of(src)
                if fn in ("np.array", "numpy.array") and e.args and any(k.arg == "copy" and _U(k.value) == "False" for k in e.keywords):
                    src = e.args[0]
                    return src.id if isinstance(src, _ast.Name) and src.id in params else view_of(src)
                if isinstance(e.func, _ast.Attribute) and e.func.attr in NOCOPY_METHODS:
                    return view_of(e.func.value)
            if isinstance(e, _ast.Attribute) and e.attr in NOCOPY_ATTRS:
                b = e.value
                if isinstance(b, _ast.Name) and b.id in params and b.id not in tainted:
                    return b.id
                if isinstance(b, _ast.Name) and b.id == "self" and self_attrs:
                    return f"self.{e.attr}"
                return view_of(b)
            if isinstance(e, _ast.Attribute) and isinstance(e.value, _ast.Name) and e.value.id == "self" and self_attrs and e.attr in self_attrs:
                return f"self.{e.attr}"  # a tensor / array held by the object itself (e.g. Dataset.values)
            if isinstance(e, _ast.Subscript):
                return view_of(e.value)
            return None
        for _ in range(3):
            for st in _ast.walk(f.node):
                if isinstance(st, _ast.Assign) and len(st.targets) == 1 and isinstance(st.targets[0], _ast.Name):
                    src = view_of(st.value)
                    if src is not None:
                        tainted[st.targets[0].id] = src
        if tainted:
            holders.append((f, dict(tainted)))
        for n in _ast.walk(f.node):
            if isinstance(n, _ast.AugAssign):
                tg = n.target
                base = tg.value if isinstance(tg, _ast.Subscript) else tg
                src = view_of(base)
                if src is not None:
                    out.append((f, n, f"`{_U(n)[:60]}` modifies in place a (possible) view of the argument `{src}`"))
            elif isinstance(n, _ast.Assign):
                for tg in n.targets:
                    if isinstance(tg, _ast.Subscript):
                        src = view_of(tg.value)
                        if src is not None and not (src.startswith("self.") and _U(tg.value).startswith("self.")):
                            out.append((f, n, f"`{_U(n)[:60]}` writes into a (possible) view of the argument `{src}`"))
            elif isinstance(n, _ast.Call):
                if isinstance(n.func, _ast.Attribute) and n.func.attr.endswith("_") and not n.func.attr.endswith("__") and len(n.func.attr) > 1 and n.func.attr not in INPLACE_FREE:
                    src = view_of(n.func.value)
                    if src is not None:
                        out.append((f, n, f"`{_U(n)[:60]}` calls an in-place method on a (possible) view of the argument `{src}`"))
                for k in n.keywords:
                    if k.arg == "out":
                        src = view_of(k.value)
                        if src is not None:
                            out.append((f, n, f"`{_U(n)[:60]}` writes its result into a (possible) view of the argument `{src}`"))
    return out, holders


# ---------------------------------------------------------------- the weighted-tensor helper functions (primitives of the abstract domains)
WT_UTILS = "leaspy.utils.weighted_tensor._utils"
WT_HELPER_FORMS = {
    # name: (confirmed canonical bodies, essential parts, what goes wrong)
    "sum_dim": ({"$k1 = _get_dim($0, dim=$k1, but_dim=$k2); if isinstance($0, WeightedTensor); return $0.sum(fill_value=$k0, dim=$k1, **$kwargs); return $0.sum(dim=$k1, **$kwargs)",
                 "$k1 = _get_dim($0, dim=$k1, but_dim=$k2); return $0.sum(dim=$k1, **$kwargs)"},
                ["_get_dim($0, dim=$k1, but_dim=$k2)", "$0.sum(", "dim=$k1"],
                "sum_dim no longer sums its argument (through WeightedTensor.sum when it is weighted) over the axes selected by dim / but_dim"),
    "wsum_dim": ({"$k1 = _get_dim($0, dim=$k1, but_dim=$k2); return $0.wsum(fill_value=$k0, dim=$k1, **$kwargs)"},
                 ["_get_dim($0, dim=$k1, but_dim=$k2)", "$0.wsum(", "dim=$k1"],
                 "wsum_dim no longer returns WeightedTensor.wsum over the axes selected by dim / but_dim"),
    "wsum_dim_return_weighted_sum_only": ({"return wsum_dim($0, fill_value=$k0, dim=$k1, but_dim=$k2, **$kwargs)[0]"}, ["wsum_dim($0,", "dim=$k1", "but_dim=$k2", ")[0]"],
                                          "the 'weighted sum only' helper no longer returns the first component (the weighted sum) of wsum_dim"),
    "wsum_dim_return_sum_of_weights_only": ({"return wsum_dim($0, fill_value=$k0, dim=$k1, but_dim=$k2, **$kwargs)[1]"}, ["wsum_dim($0,", "dim=$k1", "but_dim=$k2", ")[1]"],
                                            "the 'sum of weights only' helper no longer returns the second component (the number of observed entries) of wsum_dim"),
    "_get_dim": ({"if $k0 is not None and $k1 is not None; raise ValueError('`dim` and `but_dim` should not be both defined.'); if $k1 is not None; %0 = $0.ndim; if isinstance($k1, int); $k1 = {$k1}; "
                  "$k1 = {%1 if %1 >= 0 else $0.ndim + %1 for %1 in $k1}; assert all((%1 >= 0 for %1 in $k1)), $k1; $k0 = tuple((%1 for %1 in range($0.ndim) if %1 not in $k1)); if $k0 is None; $k0 = (); return $k0"},
                 ["%1 if %1 >= 0 else $0.ndim + %1", "for %1 in range($0.ndim) if %1 not in $k1", "return $k0"],
                 "_get_dim no longer turns `but_dim` into the complementary set of axes (negative axes counted from the end)"),
}


def weighted_helper_forms(ctx, rid):
    """The abstract domains treat sum_dim / wsum_dim(...) as primitives with their documented meaning; their (tiny) bodies are compared
    with the confirmed canonical forms here, so that a change inside them is not invisible to the graph-level rules."""
    from ..astq import canon_lines
    for name, (confirmed, essential, bad) in WT_HELPER_FORMS.items():
        f = ctx.ix.func(WT_UTILS, name, rid)
        text = "; ".join(canon_lines(f.node, True, True))
        ctx.form(rid, f, f.node, text, confirmed, essential, f"{name}: documented body", bad, construct=f"def {name}")


# ---------------------------------------------------------------- memoised readers of external state
MEMO_DECORATORS = {"lru_cache", "cache", "cached_property", "memoize", "memoized"}
IO_CALLS = {"open", "json.load", "json.loads", "pd.read_csv", "pandas.read_csv", "pd.read_json", "np.load", "np.loadtxt", "np.genfromtxt", "torch.load", "pickle.load", "os.path.getmtime", "os.stat", "os.listdir"}
IO_METHODS = {"read_text", "read_bytes", "open", "read", "readlines"}


def memoised_readers(ctx):
    """[(function, decorator node, I/O call node)]: functions decorated with a memoising decorator whose body reads the file system.
    Whatever the key of the memo (a path, a modification time ...), what they return afterwards is what the file held at the first call."""
    out = []
    for f in ctx.ix.iter_funcs():
        decos = [d for d in getattr(f.node, "decorator_list", []) if (U(d.func) if isinstance(d, ast.Call) else U(d)).split(".")[-1] in MEMO_DECORATORS]
        if not decos:
            continue
        for c in ast.walk(f.node):
            if isinstance(c, ast.Call) and (U(c.func) in IO_CALLS or (isinstance(c.func, ast.Attribute) and c.func.attr in IO_METHODS and U(c.func.value) not in ("self",))):
                out.append((f, decos[0], c))
                break
    return out


# ---------------------------------------------------------------- the read-only API of the models stores nothing on the model
READ_API = ("estimate", "compute_individual_trajectory", "compute_individual_tensorized", "compute_prior_trajectory", "compute_mean_traj", "compute_mode_traj")


def model_stores_in_read_api(ctx):
    """[(function, statement, attribute)]: stores `self.<attr> = ...` / `setattr(self, ...)` made by methods of the model classes that are
    reachable from estimate / compute_*_trajectory.  Those calls are documented as reading the model only: whatever one of them remembers
    on the model object (a memo of its inputs, a scratch state ...) is served to the next call."""
    ix = ctx.ix
    cg = callgraph(ctx)
    roots = [f for f in ix.iter_funcs() if f.name in READ_API and f.mod.startswith("leaspy.models") and f.cls is not None]
    region = cg.reach(roots)
    out = []
    for k in sorted(region):
        f = ix.funcs[k]
        if not f.mod.startswith("leaspy.models") or f.cls is None or f.name == "__init__":
            continue
        for st in statements(f.node):
            if isinstance(st, (ast.Assign, ast.AugAssign, ast.AnnAssign)):
                for t in store_targets(st):
                    base = t
                    while isinstance(base, ast.Subscript):
                        base = base.value
                    if isinstance(base, ast.Attribute) and isinstance(base.value, ast.Name) and base.value.id == "self" and (st.value is not None if isinstance(st, ast.AnnAssign) else True):
                        out.append((f, st, base.attr))
            elif isinstance(st, ast.Expr) and isinstance(st.value, ast.Call) and U(st.value.func) in ("setattr", "object.__setattr__") and st.value.args and U(st.value.args[0]) == "self":
                out.append((f, st, U(st.value.args[1]) if len(st.value.args) > 1 else "?"))
    return out, len(region)


def named_parameters_form(ctx, rid, why):
    """`get_named_parameters` is what turns the keyword-only parameters of a function into the parents of a derived variable (and what the
    variable-graph extractor summarises): it returns *every* parameter name - one left out (because it has a default, say) is neither an edge
    of the graph nor passed at evaluation."""
    from ..astq import Canon
    ctx.rule(rid, "get_named_parameters returns every keyword-only parameter of the function (none filtered out)", 1)
    f = ctx.ix.func("leaspy.utils.functional._utils", "get_named_parameters", rid)
    ctx.analysed(f)
    L = [ln for ln in Canon(f.node).lines(False, True) if not ln.startswith("from ")]
    text = "; ".join(L)
    confirmed = {"if isinstance($0, NamedInputFunction); return $0.parameters; %0 = signature($0).parameters; %1 = [%2 for %2, %3 in %0.items() if %3.kind is not %3.KEYWORD_ONLY]; "
                 "if len(%1); raise ValueError(%1); return tuple(%0)"}
    ctx.form(rid, f, f.node, text, confirmed, ["signature($0).parameters", "KEYWORD_ONLY", "return tuple("], "all parameter names returned",
             "get_named_parameters no longer returns every parameter of the function: " + why,
             forbidden=[r"\.default\b", r"\.empty\b", r"return tuple\(.* for .* if ", r"return tuple\(\[.* if "], construct="every parameter is a named input")
