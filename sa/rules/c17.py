"""C17 - personalization returns one aligned estimate per subject (decided: order provenance, burn-in gating, axis agreement, objective wiring)."""
from __future__ import annotations

import ast

from ..astq import Canon, Inliner, U, kwarg, statements, store_targets, unify
from ..cfg import CFG, header_walk
from ..index import AnalysisError, walk_no_nested
from ..selftest import V

PROP = "C17"
LEVEL_TEXT = (
    "Static alignment check of the personalisation algorithms: (R1) order provenance - scipy_minimize builds its jobs by iterating a dictionary filled in "
    "dataset.indices order and zips the results with dataset.indices (no sorted/set in between, identifiers stringified), the sampling-based algorithms return "
    "IndividualParameters.from_pytorch(dataset.indices, ...); (R2) the three sample histories are appended only under `not self._is_burn_in()` and each kept "
    "iteration appends to all of them (same length); (R3) axis agreement - histories are stacked on a new axis 0, the mean is taken over dim=0, the best draw is "
    "argmin(attachment + regularity_factor * regularity, dim=0) gathered with arange(n_individuals) on the matching axes; (R4) objective wiring of scipy_minimize - "
    "the objective writes the unscaled point into the per-subject state and returns nll_attach + regularity_factor * nll_regul_ind_sum, the start point is the "
    "scaling of the state's current individual values, the returned point is the unscaling of the optimiser's result, scaling and unscaling are inverse affine maps "
    "(normal form). NOT decided: finiteness of the estimates, that the optimiser never returns a worse point than its start, joblib's ordering (trusted)."
)

SC = "leaspy.algo.personalize.scipy_minimize"
MC = "leaspy.algo.personalize.mcmc"


def _find_line_node(fn, cn, line_text, shared_inline=False):
    return fn.node


def r1_order(ctx, rid="C17.R1", title="results keyed by the input identifiers in input order"):
    ctx.rule(rid, title, 4)
    ix = ctx.ix
    # the cohort keeps the order it was given in: nothing between the caller's table and the algorithm asks the reader to sort the individuals
    gd = ix.func("leaspy.models.base", "BaseModel._get_dataset", rid)
    n_conv = 0
    for f_ in ix.iter_funcs():
        if not f_.mod.startswith(("leaspy.models", "leaspy.algo", "leaspy.api")):
            continue
        for c in ast.walk(f_.node):
            if isinstance(c, ast.Call) and any(k.arg == "sort_index" for k in c.keywords):
                v = kwarg(c, "sort_index")
                n_conv += 1
                ctx.check(U(v) == "False", rid, f_, c, "the reader is not asked to sort the individuals", f"`{U(c)[:70]}` sorts the table by identifier before the algorithm sees it: "
                          "the estimates come back in sorted order, not in the order the subjects were given", construct="cohort order kept on ingestion")
    conv = [c for c in ast.walk(gd.node) if isinstance(c, ast.Call) and U(c.func).endswith("from_dataframe")]
    ctx.anchor(bool(conv), rid, gd, gd.node, "a table is converted by Data.from_dataframe with its default (unsorted) reading", "conversion of a table in _get_dataset", construct="table conversion")
    f = ix.func(SC, "ScipyMinimizeAlgorithm._compute_individual_parameters", rid)
    cn = Canon(f.node)
    L = cn.lines(False, True)
    par = [c for c in ast.walk(f.node) if isinstance(c, ast.Call) and isinstance(c.func, ast.Call) and U(c.func.func) == "Parallel"]
    if not par:
        raise AnalysisError(rid, "anchor vanished: joblib Parallel call in scipy_minimize")
    # states filled in dataset.indices order, in a plain (insertion-ordered) dict
    b = unify(L, ["?states = {}", "for ($2.indices, ?id)", "?states[?id] = ..."])
    ctx.check(b is not None, rid, f, f.node, "per-subject states created by iterating dataset.indices into a plain dict",
              "per-subject states are not created in the order of dataset.indices (or not kept in an insertion-ordered dict)", construct="states filled in input order")
    b = b or {}
    # the Parallel generator iterates states.items(); each job gets the state of its subject
    b2 = unify(L, ["?res = Parallel(...)((delayed(...)(?st, ...patient_id=?pid...) for ?k, (?pid, ?st) in enumerate(?states.items())))"], {k: v for k, v in b.items() if k == "states"})
    gen = [g for g in ast.walk(par[0]) if isinstance(g, ast.GeneratorExp)]
    it = U(gen[0].generators[0].iter) if gen else "?"
    ctx.check(b2 is not None, rid, f, par[0], "jobs generated in the order of the states dictionary, each with the state and identifier of its own subject",
              f"jobs iterate `{it}` / do not receive the state and identifier of the subject they iterate: not the insertion order of the per-subject states", construct="jobs in states order")
    b2 = b2 or {}
    b3 = unify(L, ["for (zip($2.indices, ?res), (?rid, ?r))"], {k: v for k, v in b2.items() if k == "res"})
    ctx.check(b3 is not None, rid, f, par[0], "results zipped with dataset.indices", "results are not re-associated with dataset.indices in order", construct="results zipped with indices")
    if b3 is not None:
        b4 = unify(L, ["?ips.add_individual_parameters(str(?rid), ?r)", "return ?ips"], b3) or unify(L, ["?ips.add_individual_parameters(?rid, ?r)", "return ?ips"], b3)
        ctx.check(b4 is not None, rid, f, f.node, "each result stored under its own identifier", "a result is stored under another subject's identifier", construct="add_individual_parameters(id, result)")
    states_name = cn.real_name(b.get("states", "")) or "\0"
    for bad in ast.walk(f.node):
        if isinstance(bad, ast.Call) and U(bad.func) in ("sorted", "set", "frozenset", "reversed") and any(
                (isinstance(n, ast.Attribute) and n.attr == "indices") or (isinstance(n, ast.Name) and n.id == states_name) for a in bad.args for n in ast.walk(a)):
            ctx.violation(rid, f, bad, "identifiers are re-ordered (sorted / set) between input and output")
    g = ix.func(MC, "McmcPersonalizeAlgorithm._get_individual_parameters", rid)
    gl = Canon(g.node).lines(False, True)
    ok = unify(gl, ["return IndividualParameters.from_pytorch($2.indices, ?x)"]) is not None
    rets = [s for s in statements(g.node) if isinstance(s, ast.Return)]
    ctx.check(ok, rid, g, rets[0] if rets else g.node, "from_pytorch(dataset.indices, ...)", "the sampling-based personalisation does not key its result by dataset.indices")
    init = ix.func(MC, "McmcPersonalizeAlgorithm._initialize_algo", rid)
    ci = Canon(init.node)
    ok = any(isinstance(c, ast.Call) and U(c.func).endswith("put_individual_latent_variables") and any(k.arg == "n_individuals" and ci.text(k.value) == "$2.n_individuals" for k in c.keywords) for c in ast.walk(init.node))
    ctx.check(ok, rid, init, init.node, "one latent row per individual of the dataset", "latent variables are not initialised with one row per individual of the dataset", construct="n_individuals")


HIST = ["?names = ...$1.dag.sorted_variables_by_type[IndividualLatentVariable]...", "for (?names, ?n)", "?vh[?n].append(?st[?n])",
        "?a.append(?st.get_tensor_value('nll_attach_ind'))", "?r.append(?st.get_tensor_value('nll_regul_ind_sum_ind'))"]


def r5_per_subject_shapes(ctx):
    """'shaped as the model expects': the optimiser's point of one subject is handed back as {variable: value without the leading subject axis,
    as a list} - the same conversion whatever the size of the variable (a one-source `sources` stays a list of length 1)."""
    import re as _re
    ctx.rule("C17.R5", "scipy_minimize: each variable is returned as `v.squeeze(0).tolist()`, whatever its size", 1)
    f = ctx.ix.func(SC, "ScipyMinimizeAlgorithm._get_individual_parameters_patient_master", "C17.R5")
    rets = [ln for ln in Canon(f.node).lines(True, True) if ln.startswith("return ")]
    text = "; ".join(rets)
    ok = len(rets) == 1 and _re.fullmatch(r"return \{(%\d+): (%\d+)\.detach\(\)\.squeeze\(0\)\.tolist\(\) for \1, \2 in (%\d+)\.items\(\)\}", rets[0]) is not None
    ctx.form("C17.R5", f, f.node, text, {text} if ok else set(), [".squeeze(0)", ".tolist()"], "uniform conversion of every variable",
             "the conversion of a subject's values depends on their size / is no longer `squeeze(0).tolist()`: a variable with one entry (a single source) loses its axis and the model refuses it later",
             forbidden=[r"\.item\(\)", r"numel\(\)", r"\.squeeze\(\)", r"if len\("], construct="per-subject conversion")


def r2_burn_in(ctx, rid="C17.R2", title="histories appended only after burn-in, all three at every kept iteration"):
    ctx.rule(rid, title, 3)
    g = ctx.ix.func(MC, "McmcPersonalizeAlgorithm._get_individual_parameters", rid)
    cfg = CFG(g.node)
    apps = [(n, c) for n, st in cfg.stmt.items() if st is not None for c in header_walk(st) if isinstance(c, ast.Call) and isinstance(c.func, ast.Attribute) and c.func.attr == "append"]
    if len(apps) < 3:
        ctx.violation(rid, g, g.node, f"only {len(apps)} history append(s) found (values, attachments, regularities expected)", construct="def _get_individual_parameters")
        return
    guard_nodes = set()
    for n, c in apps:
        ok = False
        for h, lab in cfg.if_guards(n):
            t = U(cfg.stmt[h].test)
            if (t == "not self._is_burn_in()" and lab) or (t == "self._is_burn_in()" and not lab):
                ok = True
                guard_nodes.add((h, lab))
        part = [U(cfg.stmt[h].test) for h, lab in cfg.if_guards(n) if "_is_burn_in()" in U(cfg.stmt[h].test)]
        if not ok and part:
            ctx.violation(rid, g, c, f"`{U(c)[:50]}` is recorded under `{part[0][:90]}`: whether a draw is kept depends on more than the iteration count (e.g. on the state of the whole cohort), "
                          "so the samples averaged for one subject depend on the other subjects' chains")
        else:
            ctx.check(ok, rid, g, c, "kept only when not in burn-in", f"`{U(c)[:60]}` also records burn-in iterations: the returned mean / best draw includes samples taken before convergence")
    # the histories are the draws of THIS run: the containers appended to are created empty inside the function (an attribute of the algorithm
    # object, a module-level list ... would still hold the draws of the previous run of the same object)
    from ..astq import local_defs
    defs_ = local_defs(g.node)

    def fresh(e):
        if isinstance(e, (ast.List, ast.Dict)) and not (getattr(e, "elts", None) or getattr(e, "keys", None)):
            return True
        if isinstance(e, ast.DictComp):
            return fresh(e.value)
        if isinstance(e, ast.ListComp):
            return fresh(e.elt)
        if isinstance(e, ast.Call) and U(e.func) in ("list", "dict", "defaultdict", "collections.defaultdict") and all(U(a) in ("list", "dict") for a in e.args) and not e.keywords:
            return True
        return False
    seen_roots = set()
    for n, c in apps:
        recv = c.func.value
        root = recv
        while isinstance(root, (ast.Subscript, ast.Attribute)):
            root = root.value
        rn = root.id if isinstance(root, ast.Name) else None
        if rn is None or rn in seen_roots:
            continue
        seen_roots.add(rn)
        if rn in ("self", "cls"):
            ctx.violation(rid, g, c, f"`{U(recv)[:50]}` lives on the algorithm object: the draws of an earlier run of the same object are still in it, and are averaged / compared with the new ones",
                          construct=f"history container {rn}")
            continue
        ds = defs_.get(rn, [])
        stale = [d for d in ds if d is not None and not fresh(d)]
        if ds and not stale:
            ctx.ok(rid, g, c, f"`{rn}` is created empty in this function", construct=f"history container {rn}")
        elif stale and any(isinstance(x, ast.Attribute) and isinstance(x.value, ast.Name) and x.value.id in ("self", "cls") for d in stale for x in ast.walk(d)):
            ctx.violation(rid, g, c, f"the history `{rn}` is `{U(stale[0])[:50]}`, an attribute of the algorithm object that is not emptied here: a second run of the same object returns the mean / "
                          "best draw over the samples of both runs", construct=f"history container {rn}")
        else:
            ctx.unknown(rid, g, c, f"cannot tell whether the history `{rn}` (`{U(stale[0])[:50] if stale else 'parameter'}`) is empty at the beginning of a run", construct=f"history container {rn}")
    # ... and "burn-in" means the configured number of iterations, nothing else: the kept draws are those of iterations n_burn_in_iter+1 .. n_iter
    from ..astq import canon_lines
    bi = ctx.ix.func("leaspy.algo.algo_with_samplers", "AlgorithmWithSamplersMixin._is_burn_in", rid)
    bl = canon_lines(bi.node, True, True)
    B_OK = {"return $0.current_iteration <= $0.algo_parameters['n_burn_in_iter']", "return not $0.current_iteration > $0.algo_parameters['n_burn_in_iter']",
            "return $0.algo_parameters['n_burn_in_iter'] >= $0.current_iteration"}
    ctx.form(rid, bi, bi.node, "; ".join(bl), B_OK, ["$0.current_iteration", "$0.algo_parameters['n_burn_in_iter']"], "burn-in <=> iteration <= configured n_burn_in_iter",
             "the burn-in test no longer compares the iteration number with the configured `n_burn_in_iter`", forbidden=[r"\bif\b", r"\bor\b", r"\band\b", r"max\(", r"min\(", r"<\s(?!=)", r"annealing"],
             construct="def _is_burn_in")
    ctx.check(len(guard_nodes) == 1, rid, g, g.node, "all histories appended under the same test (equal lengths)", "the histories are appended under different tests: their lengths can differ",
              construct="same guard for all histories")
    # what is appended
    gl = Canon(g.node).lines(False, True)
    ok = unify(gl, HIST) is not None
    ctx.check(ok, rid, g, g.node, "per-individual attachment, total individual regularity and every individual variable are recorded",
              "the recorded quantities are no longer (each individual variable, nll_attach_ind, nll_regul_ind_sum_ind)", construct="recorded quantities")
    # the sampling step precedes the recording in each iteration
    samples = [n for n, st in cfg.stmt.items() if st is not None and any(isinstance(c, ast.Call) and isinstance(c.func, ast.Attribute) and c.func.attr == "sample" for c in header_walk(st))]
    ok = bool(samples) and all(cfg.stmt[s].lineno < cfg.stmt[n].lineno for s in samples for n, _ in apps)
    ctx.check(ok, rid, g, g.node, "values recorded after the iteration's sampling sweep", "values are recorded before the sampling sweep of the iteration", construct="record after sampling")


def r3_axes(ctx, rid="C17.R3"):
    ctx.rule(rid, "stack axis 0 == reduction axis 0; best draw gathered per individual", 5)
    ix = ctx.ix
    g = ix.func(MC, "McmcPersonalizeAlgorithm._get_individual_parameters", rid)
    stacks = [c for c in ast.walk(g.node) if isinstance(c, ast.Call) and U(c.func) == "torch.stack"]
    for c in stacks:
        d = kwarg(c, "dim") or (c.args[1] if len(c.args) > 1 else None)
        ctx.check(d is None or U(d) == "0", rid, g, c, "draws stacked on a new leading axis", f"draws stacked on axis {U(d)}: the posterior mean / argmin over axis 0 then mixes individuals instead of draws")
    if len(stacks) < 3:
        ctx.violation(rid, g, g.node, "the three histories are not all stacked", construct="stacks")
    call = [c for c in ast.walk(g.node) if isinstance(c, ast.Call) and U(c.func) == "self._compute_individual_parameters_from_samples_torch"]
    cg_ = Canon(g.node)
    gl = cg_.lines(False, True)
    b = unify(gl, HIST[2:])
    ok = False
    if b is not None and call and len(call[0].args) == 3 and not call[0].keywords:
        import re as _re
        from ..astq import local_defs
        defs = local_defs(g.node)

        def one(e):  # a name bound once stands for its definition
            vs = defs.get(e.id, []) if isinstance(e, ast.Name) else []
            return vs[0] if len(vs) == 1 and vs[0] is not None else e
        a0, a1, a2 = (cg_.text(one(x), False, cg_.last_order) for x in call[0].args)
        ST = r"torch\.stack\(%s(, dim=0|, 0)?\)"
        ok = bool(_re.fullmatch(ST % _re.escape(b["a"]), a1)) and bool(_re.fullmatch(ST % _re.escape(b["r"]), a2)) \
            and bool(_re.fullmatch(r"\{(%\d+): torch\.stack\((%\d+)(, dim=0|, 0)?\) for \1, \2 in " + _re.escape(b["vh"]) + r"\.items\(\)\}", a0))
        # a stacked history re-cast on the way: the joint models record a finite pseudo-infinite penalty in double precision
        CAST = r"\.(to|type|float|half|bfloat16|int|long)\(.*\)"
        for which, h, a in (("attachment", b["a"], a1), ("regularity", b["r"], a2)):
            if _re.fullmatch((ST % _re.escape(h)) + CAST, a):
                ctx.violation(rid, g, call[0], f"the {which} history is re-cast (`{a[:70]}`) before it reaches the estimator: a penalty recorded in double precision (the joint model's 1e307) "
                              "overflows to inf in single precision, so the draws compared / averaged are no longer the recorded ones", construct=f"{which} history re-cast")
                ok = True  # reported under its own construct
    ctx.check(ok, rid, g, call[0] if call else g.node, "(values, attachments, regularities) handed over in this order", "attachment and regularity histories are swapped / not handed to the estimator")
    m = ix.func("leaspy.algo.personalize.mean_posterior", "MeanPosteriorAlgorithm._compute_individual_parameters_from_samples_torch", rid)
    rets = [s for s in statements(m.node) if isinstance(s, ast.Return)]
    ml = Canon(m.node).lines(True, True)
    ok = len(rets) == 1 and (unify(ml, ["return {?k: ?v.mean(dim=0) for ?k, ?v in $1.items()}"]) or unify(ml, ["return {?k: torch.mean(?v, dim=0) for ?k, ?v in $1.items()}"])) is not None
    ctx.check(ok, rid, m, rets[0] if rets else m.node, "mean over the draw axis (dim=0) of every variable", "the posterior mean is not the mean over the draw axis of each kept variable")
    mo = ix.func("leaspy.algo.personalize.mode_posterior", "ModePosteriorAlgorithm._compute_individual_parameters_from_samples_torch", rid)
    am = [c for c in ast.walk(mo.node) if isinstance(c, ast.Call) and U(c.func) == "torch.argmin"]
    cmo = Canon(mo.node)
    ok = len(am) == 1 and cmo.text(am[0].args[0]) in ("$2 + $0.regularity_factor * $3", "$0.regularity_factor * $3 + $2") and U(kwarg(am[0], "dim")) == "0"
    ctx.check(ok, rid, mo, am[0] if am else mo.node, "best draw = argmin over draws of attachment + factor * regularity",
              f"the best draw is `{U(am[0]) if am else '?'}`: not the argmin over the draw axis of attachment + regularity_factor * regularity")
    rets = [s for s in statements(mo.node) if isinstance(s, ast.Return)]
    BEST = cmo.text(am[0]) if am else "?"
    ok = len(rets) == 1 and cmo.text(rets[0].value) == "{%0: %1[" + BEST + ", torch.arange(len(" + BEST + "))] for %0, %1 in $1.items()}"
    ctx.check(ok, rid, mo, rets[0] if rets else mo.node, "gathered as value[best draw of i, i] for every individual i", "the best draw is not gathered per individual (value[best_i, i])")


def r4_objective(ctx):
    import sympy as sp
    from ..normalform import Normalizer, equal, NFUnsupported

    import re as _re
    ctx.rule("C17.R4", "scipy objective and scaling wiring", 5)
    ix = ctx.ix
    o = ix.func(SC, "ScipyMinimizeAlgorithm.obj_no_jac", "C17.R4")
    co = Canon(o.node)
    loops = [l for l in ast.walk(o.node) if isinstance(l, ast.For)]
    ol = co.lines(True, True)
    bw = unify(ol, ["for ($3.unscaling($1).items(), (?k, ?v))", "$2[?k] = ?v"])
    ctx.check(bw is not None, "C17.R4", o, loops[0] if loops else o.node, "the candidate point is unscaled and written into the per-subject state", "the objective no longer evaluates the state at the (unscaled) candidate point",
              construct="objective writes the point")
    OBJ = ["$2['nll_attach'] + $0.regularity_factor * $2['nll_regul_ind_sum']", "$0.regularity_factor * $2['nll_regul_ind_sum'] + $2['nll_attach']"]
    bo = None
    for ob in OBJ:
        bo = bo or unify(ol, [f"?o = {ob}", "return ?o.item()"]) or unify(ol, [f"return ({ob}).item()"])
    os_ = " ".join(ol)
    if bo is not None:
        ctx.check(bw is None or bw["#1"] < bo["#0"], "C17.R4", o, o.node, "objective = nll_attach + regularity_factor * nll_regul_ind_sum, read after the point was written",
                  "the objective value is read before the candidate point is written into the state: the optimiser sees the value of the previous point", construct="objective value")
    elif "'nll_attach'" in os_ and "'nll_regul_ind_sum'" in os_:
        ctx.unknown("C17.R4", o, o.node, "the objective is neither the confirmed form nor lacks an essential part: cannot decide statically", construct="objective value")
    else:
        ctx.violation("C17.R4", o, o.node, "the objective is no longer the attachment plus the (weighted) individual regularity: the optimiser minimises something else than the posterior", construct="objective value")
    p = ix.func(SC, "ScipyMinimizeAlgorithm._get_individual_parameters_patient", "C17.R4")
    cp = Canon(p.node)
    pl = cp.lines(True, True)
    START = "{?n: $1.get_tensor_value(?n)[0] for ?n in $1.dag.individual_variable_names}"
    MIN = f"minimize($0.obj_with_jac if $k1 else $0.obj_no_jac, jac=$k1, x0=$k0.scaling({START}), args=($1, $k0), **$0.scipy_minimize_params)"
    ok = unify(pl, [f"?res = {MIN}", f"?ip = $k0.unscaling({MIN}.x)", f"?loss = $0.obj_no_jac({MIN}.x, $1, $k0)", "return (?ip, ?loss)"]) is not None \
        or unify(pl, [f"?res = {MIN}", "?ip = $k0.unscaling(?res.x)", "?loss = $0.obj_no_jac(?res.x, $1, $k0)", "return (?ip, ?loss)"]) is not None \
        or unify(pl, [f"return ($k0.unscaling({MIN}.x), $0.obj_no_jac({MIN}.x, $1, $k0))"]) is not None
    ps = " ".join(pl)
    if ok:
        ctx.ok("C17.R4", p, p.node, "start = scaled current individual values of this state; result = unscaled optimiser output for the same state and scaling", construct="start and returned point")
    elif any(_re.search(r"unscaling\((?!.*\.x\b)", ln) for ln in pl if "unscaling(" in ln) or any(ln.startswith("if ") and ".success" in ln and not ("logger" in ln) for ln in pl):
        # the point handed back is not (always) the optimiser's last iterate `res.x`: a replacement chosen when the solver reports failure
        # (prior mode, start point ...) can score worse than the start, which the solver's own iterate never does
        ctx.violation("C17.R4", p, p.node, "the returned point is not the optimiser's last iterate on every path (it is replaced when the solver reports failure / a non-finite value): "
                      "the replacement can be worse than the start", construct="start and returned point")
    elif all(t in ps for t in ("$k0.unscaling(", "x0=$k0.scaling(", "args=($1, $k0)")):
        ctx.unknown("C17.R4", p, p.node, "the optimiser call is neither the confirmed form nor lacks an essential part: cannot decide statically", construct="start and returned point")
    else:
        ctx.violation("C17.R4", p, p.node, "the optimisation is not started from / evaluated on / mapped back with this subject's state and scaling", construct="start and returned point")
    # scaling / unscaling inverse affine maps
    un = ix.func(SC, "_AffineScalings1D.unscaling", "C17.R4")
    sc = ix.func(SC, "_AffineScalings1D.scaling", "C17.R4")
    x, loc, scale = sp.symbols("x loc scale", real=True)

    def elt(fn):
        for c in ast.walk(fn.node):
            if isinstance(c, ast.ListComp) and len(c.generators) == 1 and U(c.generators[0].iter) == "self.scalings.items()" and isinstance(c.generators[0].target, ast.Tuple):
                return c.elt, U(c.generators[0].target.elts[1])
        return None, None
    (eu, su), (es, ss) = elt(un), elt(sc)
    try:
        def nz(sname):
            class Nz(Normalizer):
                def tosym(self, e):
                    t = U(e)
                    if t == f"{sname}.loc":
                        return loc
                    if t == f"{sname}.scale":
                        return scale
                    if isinstance(e, ast.Subscript) and "self.slices[" in U(e.slice):
                        return x
                    return super().tosym(e)
            return Nz({})
        fu, fs = nz(su)(eu), nz(ss)(es)
        inverse = equal(fu.subs(x, fs), x) and equal(fu, loc + scale * x)
    except (NFUnsupported, AttributeError, TypeError) as e:
        inverse = None
    if inverse is None:
        ctx.unknown("C17.R4", un, un.node, "scaling expressions outside the supported subset")
    else:
        ctx.check(inverse, "C17.R4", un, eu, "unscaling(x) = loc + scale*x and unscaling(scaling(v)) = v", "scaling and unscaling are not inverse affine maps: the optimiser's start / result are mis-mapped")
    fs_ = ix.func(SC, "_AffineScalings1D.from_state", "C17.R4")
    ok = unify(Canon(fs_.node).lines(True, True), ["return $0({?k: _AffineScaling.from_latent_variable(?v, $1) for ?k, ?v in $1.dag.sorted_variables_by_type[$2].items()})"]) is not None
    fl = ix.func(SC, "_AffineScaling.from_latent_variable", "C17.R4")
    ll = Canon(fl.node).lines(False, True)
    ok = ok and unify(ll, ["?m = $1.prior.mode.call($2)", "?s = $1.prior.stddev.call($2)", "return $0(?m, ?s)"]) is not None
    ctx.check(ok, "C17.R4", fl, fl.node, "coordinates standardised by the prior mode and standard deviation of each individual variable", "scalings are not the prior mode / standard deviation of each individual variable", construct="prior-standardised coordinates")


def rules(ctx):
    r5_per_subject_shapes(ctx)
    r1_order(ctx)
    r2_burn_in(ctx)
    r3_axes(ctx)
    r4_objective(ctx)
    # the kept draws hold the very tensors the state computed: the per-individual revert run between two draws selects out of place - it never
    # rewrites a cached or snapshot tensor that a history may reference (same rule as C02.R4)
    from .c02 import r4_selection
    r4_selection(ctx, rid="C17.R6")
    # "one aligned estimate per subject": the per-subject optimisations share nothing - a memo of objective values kept on the algorithm object
    # hands one subject the losses (hence the optimum) of another (same rule as C07.R3)
    from .c07 import r3_job_effects
    r3_job_effects(ctx, rid="C17.R7", title="the per-subject jobs store nothing on the shared algorithm object and draw nothing")
    ctx.trust("joblib.Parallel returns results in the order of the generator; dict insertion order; torch.stack / argmin / advanced indexing semantics")


S = "src/leaspy/algo/personalize/scipy_minimize.py"
M = "src/leaspy/algo/personalize/mcmc.py"
VARIANTS = [
    V("sorted-ids", S, "        for id_pat, ind_params_pat in zip(dataset.indices, ind_p_all):", "        for id_pat, ind_params_pat in zip(sorted(dataset.indices), ind_p_all):", "C17.R1"),
    V("keep-burn-in-samples", M, "                if not self._is_burn_in():\n", "                if True:\n", "C17.R2"),
    V("attach-history-always", M, "                    attachment_history.append(state.get_tensor_value(\"nll_attach_ind\"))\n", "", "C17.R2"),
    V("stack-wrong-axis", M, "            torch_attachments = torch.stack(attachment_history)", "            torch_attachments = torch.stack(attachment_history, dim=1)", "C17.R3"),
    V("mean-wrong-axis", "src/leaspy/algo/personalize/mean_posterior.py", "value_var.mean(dim=0)", "value_var.mean(dim=1)", "C17.R3"),
    V("argmax", "src/leaspy/algo/personalize/mode_posterior.py", "indices_iter_best = torch.argmin(", "indices_iter_best = torch.argmax(", "C17.R3"),
    V("mode-ignores-regularity", "src/leaspy/algo/personalize/mode_posterior.py", "attachments + self.regularity_factor * regularities", "attachments", "C17.R3"),
    V("silent-rename-obj-local", S, "        ips = scaling.unscaling(x)\n        for ip, ip_val in ips.items():", "        unscaled = scaling.unscaling(x)\n        for ip, ip_val in unscaled.items():", None),
    V("start-from-zero", S, "x0=scaling.scaling(initial_point),", "x0=np.zeros(len(scaling)),", "C17.R4"),
    V("objective-without-prior", S, "state[\"nll_attach\"] + self.regularity_factor * state[\"nll_regul_ind_sum\"]", "state[\"nll_attach\"]", "C17.R4"),
    V("unscaling-not-inverse", S, "scaling.loc + scaling.scale * x[self.slices[n]]", "scaling.loc + x[self.slices[n]]", "C17.R4"),
]
