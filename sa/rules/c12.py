"""C12 - a fitted model is self-consistent and survives save/load unchanged."""
from __future__ import annotations

import ast

from ..astq import Inliner, U, kwarg, statements, store_targets
from ..cfg import CFG, header_walk
from ..index import AnalysisError, walk_no_nested
from ..selftest import V

PROP = "C12"
LEVEL_TEXT = (
    "Static writer/reader agreement of the model file: (R1) the value written under \"name\" flows from the table of kinds the model factory dispatches on "
    "(get_model_name), that table agrees member by member with model_factory, and the instance name travels under a key model_factory accepts; "
    "(R2) for each of the 7 model kinds: every key written by the to_dict chain and forwarded by ModelSettings is consumed by the constructor chain (named "
    "parameter, kwargs lookup, _load_hyperparameters), strict chains list it as expected, and every constructor-set attribute that shapes get_variables_specs / "
    "the trajectory is written back by to_dict; (R3) at the end of a fit the state handed to the model had its population variables reset to the prior mode inside "
    "auto_fork(None), and load_parameters resets them after the last parameter store; (R4) parameters are written through tensor_to_list and read through "
    "val_to_tensor with the declared shape of the same variable; (R5) rank domain: every update rule returns a tensor of the rank its parameter declares, so a re-save "
    "reproduces the file. NOT decided: single-precision tolerances, byte-identical JSON formatting."
)

BASE = "leaspy.models.base"
FACT = "leaspy.models.factory"
DROPPED = {"name", "parameters", "hyperparameters", "leaspy_version"}


def _factory_table(ctx):
    f = ctx.ix.func(FACT, "model_factory", "C12.R1")
    table = {}
    for st in statements(f.node):
        if isinstance(st, ast.If) and isinstance(st.test, ast.Compare) and U(st.test.left) == "name" and isinstance(st.test.ops[0], ast.Eq):
            member = U(st.test.comparators[0])
            for b in st.body:
                if isinstance(b, ast.Return) and isinstance(b.value, ast.Call):
                    table[member] = (U(b.value.func), b.value)
    return f, table


def r1_name(ctx):
    ctx.rule("C12.R1", "\"name\" written = kind the factory dispatches on; kind table == factory table", 9)
    ix = ctx.ix
    td = ix.func(BASE, "BaseModel.to_dict", "C12.R1")
    inl = Inliner(td.node)
    ret = [s for s in statements(td.node) if isinstance(s, ast.Return) and isinstance(s.value, ast.Dict)]
    if not ret:
        raise AnalysisError("C12.R1", "anchor vanished: dict literal returned by BaseModel.to_dict")
    d = ret[0].value
    keys = {k.value: v for k, v in zip(d.keys, d.values) if isinstance(k, ast.Constant)}
    if "name" not in keys:
        ctx.violation("C12.R1", td, d, "no \"name\" entry is written: the file cannot be dispatched on load", construct="'name'")
        return
    v = inl.resolve(keys["name"])
    txt = U(v)
    from_kind = "get_model_name(self)" in txt and ".value" in txt
    ctx.check(from_kind, "C12.R1", td, keys["name"], "\"name\" holds the factory key of the model's class (instance name only as a fallback for unknown classes)",
              f"\"name\" is written from `{txt[:80]}`: BaseModel.load hands it to model_factory, which dispatches the model KIND on it - a model built with a custom "
              "instance name saves a file that cannot be loaded", construct="'name'")
    # instance name travels under a key the factory accepts
    f, table = _factory_table(ctx)
    fparams = [a.arg for a in f.node.args.args]
    extra = [U(k.value) if not isinstance(k, ast.Constant) else k.value for k in d.keys if k is not None]
    spread = [inl.resolve(vv) for kk, vv in zip(d.keys, d.values) if kk is None]
    inst_keys = set()
    for s in spread:
        for x in ast.walk(s):
            if isinstance(x, ast.Dict):
                inst_keys |= {k.value for k in x.keys if isinstance(k, ast.Constant)}
    for k in inst_keys:
        ctx.check(k in fparams, "C12.R1", td, d, f"`{k}` is a parameter of model_factory", f"to_dict writes `{k}`, which model_factory does not accept", construct=f"'{k}'")
    # tables
    gm = ix.try_func(FACT, "get_model_name")
    enum = ix.find_class("ModelName")
    members = [f"ModelName.{n}" for n, _ in ix.enum_members(enum)]
    for m in members:
        ctx.check(m in table, "C12.R1", f, f.node, f"{m} constructed by the factory", f"{m} has no branch in model_factory: a file of that kind cannot be loaded", construct=f"factory branch {m}")
    if gm is None:
        if from_kind:
            raise AnalysisError("C12.R1", "anchor vanished: get_model_name")
        return
    kinds = {}
    for x in ast.walk(gm.node):
        if isinstance(x, ast.Dict) and x.keys and all(U(k).startswith("ModelName.") for k in x.keys):
            kinds = {U(k): U(v) for k, v in zip(x.keys, x.values)}
    for m in members:
        fc = table.get(m, ("?",))[0]
        ctx.check(kinds.get(m) == fc, "C12.R1", gm, gm.node, f"{m} <-> {fc} in both tables",
                  f"get_model_name maps {m} to {kinds.get(m)} but model_factory builds {fc}: the saved kind would reload as another class", construct=f"kind table {m}")
    exact = any(isinstance(x, ast.Compare) and isinstance(x.ops[0], ast.Is) and "type(model)" in U(x) for x in ast.walk(gm.node))
    ctx.check(exact, "C12.R1", gm, gm.node, "exact class match (a subclass is not mistaken for its parent kind)", "get_model_name matches subclasses (isinstance): JointModel would be saved as 'logistic'",
              construct="exact class match")
    for m, (cls, call) in table.items():
        ok = call.args and U(call.args[0]) == "instance_name" and any(k.arg is None and U(k.value) == "kwargs" for k in call.keywords)
        ctx.check(ok, "C12.R1", f, call, "built with the instance name and all hyperparameters", "factory branch drops the instance name or the hyperparameters")


def _to_dict_chain(ix, cls):
    """[(Func, written keys)] along the MRO for methods named to_dict."""
    out = []
    for k in ix.mro(cls):
        cn = ix.classes.get(k)
        if cn is None:
            continue
        for b in cn.body:
            if isinstance(b, ast.FunctionDef) and b.name == "to_dict":
                f = ix.funcs[(k[0], f"{k[1]}.to_dict")]
                keys = {}
                for x in ast.walk(b):
                    if isinstance(x, ast.Return) and isinstance(x.value, ast.Dict):
                        for kk, vv in zip(x.value.keys, x.value.values):
                            if isinstance(kk, ast.Constant):
                                keys[kk.value] = vv
                            elif kk is None:
                                inl = Inliner(b)
                                for y in ast.walk(inl.resolve(vv)):
                                    if isinstance(y, ast.Dict):
                                        for k2, v2 in zip(y.keys, y.values):
                                            if isinstance(k2, ast.Constant):
                                                keys[k2.value] = v2
                    if isinstance(x, ast.Assign) and isinstance(x.targets[0], ast.Subscript) and isinstance(x.targets[0].slice, ast.Constant) and isinstance(x.targets[0].value, ast.Name):
                        keys[x.targets[0].slice.value] = x.value
                    if isinstance(x, ast.Call) and isinstance(x.func, ast.Attribute) and x.func.attr == "update" and x.args and isinstance(x.args[0], ast.Dict):
                        for kk, vv in zip(x.args[0].keys, x.args[0].values):
                            if isinstance(kk, ast.Constant):
                                keys[kk.value] = vv
                out.append((f, keys))
    return out


def _ctor_consumption(ix, cls):
    """keys consumed by the constructor chain; strict = tuple of expected keys if an unknown-key refusal exists."""
    consumed = {}
    strict = None
    for k in ix.mro(cls):
        cn = ix.classes.get(k)
        if cn is None:
            continue
        for b in cn.body:
            if not isinstance(b, ast.FunctionDef):
                continue
            if b.name == "__init__":
                a = b.args
                for p in a.args[1:] + a.kwonlyargs:
                    if p.arg != "name":
                        consumed.setdefault(p.arg, f"{k[1]}.__init__ parameter")
            if b.name in ("__init__", "_load_hyperparameters", "_validate_user_provided_dimension_and_features_at_init"):
                dicts = {"kwargs", "hyperparameters"}
                for x in ast.walk(b):
                    if isinstance(x, ast.Call) and isinstance(x.func, ast.Attribute) and x.func.attr in ("get", "pop") and U(x.func.value) in dicts and x.args and isinstance(x.args[0], ast.Constant):
                        consumed.setdefault(x.args[0].value, f"{k[1]}.{b.name}: {U(x.func)}")
                    if isinstance(x, ast.Subscript) and U(x.value) in dicts and isinstance(x.slice, ast.Constant) and isinstance(x.ctx, ast.Load):
                        consumed.setdefault(x.slice.value, f"{k[1]}.{b.name}: {U(x.value)}[...]")
                    if isinstance(x, ast.Call) and U(x.func).endswith("_raise_if_unknown_hyperparameters") and x.args:
                        inl = Inliner(b)
                        t = inl.resolve(x.args[0])
                        if isinstance(t, (ast.Tuple, ast.List)) and strict is None:
                            strict = ({e.value for e in t.elts if isinstance(e, ast.Constant)}, ix.funcs[(k[0], f"{k[1]}.{b.name}")])
    return consumed, strict


def r2_hyperparameters(ctx, rid="C12.R2", only_classes=None):
    ctx.rule(rid, "keys written are consumed on load; behaviour-shaping constructor attributes are written (7 kinds)", 30 if only_classes is None else 2)
    ix = ctx.ix
    f, table = _factory_table(ctx)
    fparams = {a.arg for a in f.node.args.args}
    for member, (cname, call) in sorted(table.items()):
        if only_classes is not None and cname not in only_classes:
            continue
        cls = ix.resolve_class(FACT, ast.Name(id=cname, ctx=ast.Load()))
        if cls is None:
            raise AnalysisError(rid, f"cannot resolve class {cname} of the factory")
        chain = _to_dict_chain(ix, cls)
        written = {}
        for fn, keys in chain[::-1]:
            for k, v in keys.items():
                written[k] = (fn, v)
        consumed, strict = _ctor_consumption(ix, cls)
        for k, (fn, v) in sorted(written.items()):
            if k in DROPPED:
                continue
            if k in fparams:
                ctx.ok(rid, fn, v, f"{cname}: `{k}` is a parameter of model_factory", construct=f"key '{k}'", instance=cname)
                continue
            ctx.check(k in consumed, rid, fn, v, f"{cname}: `{k}` consumed on load by {consumed.get(k)}",
                      f"{cname}: to_dict writes `{k}` but nothing in the constructor chain reads it back (BaseModel silently ignores extra keyword arguments): the value is lost on reload",
                      construct=f"key '{k}'", instance=cname)
            if strict is not None and k not in ("obs_models", "fit_metrics", "variables_to_track") and k not in {p for p in consumed if "parameter" in consumed[p]}:
                exp, sf = strict
                ctx.check(k in exp, rid, sf, sf.node, f"{cname}: `{k}` listed among the expected hyperparameters",
                          f"{cname}: `{k}` is written by to_dict but refused as an unknown hyperparameter on load", construct=f"expected hyperparameter '{k}'", instance=cname)
        # behaviour-shaping attributes set by the constructor chain
        shaping = _shaping_attributes(ix, cls)
        for attr, (setter, readers) in sorted(shaping.items()):
            hit = None
            for k, (fn, v) in written.items():
                if any(isinstance(x, ast.Attribute) and U(x.value) == "self" and x.attr in (attr, attr.lstrip("_")) for x in ast.walk(v)):
                    hit = k
            where = ix.funcs.get((cls[0], f"{cls[1]}.to_dict")) or chain[0][0]
            ctx.check(hit is not None, rid, (cls[0], cls[1]), None, f"{cname}.{attr} (read by {readers[0]}) is written under `{hit}`",
                      f"{cname}.{attr} is set by {setter} and read by {', '.join(readers[:2])} but no to_dict of the class hierarchy writes it: a reloaded model behaves "
                      "differently (or crashes) for any non-default value", construct=attr, instance=cname)


READERS = ("get_variables_specs", "compute_individual_trajectory", "_configure_observation_models", "_configure_univariate_observation_models",
           "_configure_multivariate_observation_models", "_audit_individual_parameters")
NOT_SHAPING = {"name", "_name", "state", "_state", "tracked_variables", "_is_initialized", "initialization_method", "fit_metrics", "_parameters", "parameters",
               "hyperparameters", "dag", "model", "is_initialized"}


def _shaping_attributes(ix, cls):
    """{attr: (setter description, [reader methods])} for attributes assigned in __init__/_load_hyperparameters from constructor input and read by READERS."""
    set_by = {}
    read_by = {}
    for k in ix.mro(cls):
        cn = ix.classes.get(k)
        if cn is None:
            continue
        for b in cn.body:
            if not isinstance(b, ast.FunctionDef):
                continue
            if b.name in ("__init__", "_load_hyperparameters"):
                params = {p.arg for p in b.args.args[1:] + b.args.kwonlyargs} | {"kwargs", "hyperparameters"}
                for st in statements(b):
                    if isinstance(st, (ast.Assign, ast.AnnAssign)):
                        for t in store_targets(st):
                            if isinstance(t, ast.Attribute) and U(t.value) == "self" and st.value is not None:
                                uses = {n.id for n in ast.walk(st.value) if isinstance(n, ast.Name)}
                                if uses & params:
                                    set_by.setdefault(t.attr, f"{k[1]}.{b.name}")
            if b.name in READERS:
                for x in ast.walk(b):
                    if isinstance(x, ast.Attribute) and U(x.value) == "self" and isinstance(x.ctx, ast.Load):
                        read_by.setdefault(x.attr, []).append(f"{k[1]}.{b.name}")
    out = {}
    for a, setter in set_by.items():
        names = {a, a.lstrip("_")}
        readers = [r for n in names for r in read_by.get(n, [])]
        if readers and not (names & NOT_SHAPING) and ix.method(cls, a) is None:
            out[a] = (setter, readers)
    return out


def r3_mode_reset(ctx):
    ctx.rule("C12.R3", "population variables reset to the prior mode at the end of a fit and after loading parameters", 2)
    ix = ctx.ix
    f = ix.func("leaspy.algo.fit.mcmc_saem", "TensorMcmcSaemAlgorithm._run", "C12.R3")
    cfg = CFG(f.node)
    asg = [n for n, st in cfg.stmt.items() if isinstance(st, ast.Assign) and U(st.targets[0]) == "model.state"]
    if len(asg) != 1:
        raise AnalysisError("C12.R3", "anchor vanished: `model.state = ...` in the fit")
    var = U(cfg.stmt[asg[0]].value)
    resets = [n for n, st in cfg.stmt.items() if st is not None and any(isinstance(c, ast.Call) and U(c.func) == f"{var}.put_population_latent_variables" and c.args
                                                                        and U(c.args[0]) in ("LatentVariableInitType.PRIOR_MODE", "'mode'") for c in header_walk(st))]
    ok = any(cfg.dominates(r, asg[0]) for r in resets)
    ctx.check(ok, "C12.R3", f, cfg.stmt[asg[0]], "population variables at the prior mode of the final parameters before the state is handed to the model",
              "the state kept by the model after a fit still holds the last sampled population values, not the modes of the final parameters: derived quantities (velocities, mixing matrix, trajectories) "
              "disagree with the parameters that get saved")
    if resets:
        # ... and nothing writes that state between the reset and the hand-over except the removal of data / individual values: a parameter
        # rewritten afterwards (rounded, clipped ...) is no longer the one the population variables are the modes of
        later = [n for n, st in cfg.stmt.items() if st is not None and any(cfg.reachable(r, n) and n != r for r in resets) and cfg.reachable(n, asg[0]) and n != asg[0]
                 and (any(isinstance(t, ast.Subscript) and U(t.value) == var for t in (st.targets if isinstance(st, ast.Assign) else [st.target] if isinstance(st, ast.AugAssign) else []))
                      or any(isinstance(c, ast.Call) and isinstance(c.func, ast.Attribute) and ((U(c.func.value) == var and c.func.attr in ("put", "__setitem__", "put_population_latent_variables"))
                                                                                              or (c.func.attr in ("update_parameters", "load_parameters") and any(U(a) == var for a in list(c.args) + [k.value for k in c.keywords])))
                             for c in header_walk(st)))
                 and n not in resets]
        ctx.check(not later, "C12.R3", f, cfg.stmt[later[0]] if later else cfg.stmt[resets[0]], "no parameter / population value rewritten after the mode reset",
                  f"`{U(cfg.stmt[later[0]])[:70] if later else ''}` rewrites a value of the state after the population variables were put at the modes of the final parameters: what the model keeps "
                  "(and computes trajectories from) no longer agrees with the parameters that get saved", construct="nothing rewritten after the mode reset")
        withs = [st for st in ast.walk(f.node) if isinstance(st, ast.With) and any(U(i.context_expr) == f"{var}.auto_fork(None)" for i in st.items)]
        inside = any(any(x is cfg.stmt[resets[0]] for b in w.body for x in ast.walk(b)) for w in withs)
        ctx.check(inside, "C12.R3", f, cfg.stmt[resets[0]], "inside auto_fork(None)", "mode reset outside auto_fork(None)", construct="mode reset under auto_fork(None)")
    g = ix.func("leaspy.models.stateful", "StatefulModel.load_parameters", "C12.R3")
    gcfg = CFG(g.node)
    stores = [n for n, st in gcfg.stmt.items() if isinstance(st, ast.Assign) and isinstance(st.targets[0], ast.Subscript) and U(st.targets[0].value) in ("self._state", "self.state")]
    resets = [n for n, st in gcfg.stmt.items() if st is not None and any(isinstance(c, ast.Call) and U(c.func).endswith(".put_population_latent_variables") and c.args
                                                                         and U(c.args[0]) in ("LatentVariableInitType.PRIOR_MODE", "'mode'") for c in header_walk(st))]
    ok = bool(resets) and bool(stores) and all(gcfg.all_paths_pass(s, resets) for s in stores) and not any(gcfg.reachable(r, s) for r in resets for s in stores) \
        and gcfg.all_paths_pass(gcfg.entry, resets)
    ctx.check(ok, "C12.R3", g, gcfg.stmt[resets[0]] if resets else g.node, "mode reset after the last parameter store, on every path",
              "load_parameters does not reset the population variables to the prior mode after storing the parameters: a reloaded model's velocities / mixing matrix are stale or unset")


def r3b_model_side_population_init(ctx):
    """A model that was initialised (not fitted) is self-consistent only if its population variables are the prior modes of the parameters it
    reports: in the `leaspy.models` package every `put_population_latent_variables` uses the literal PRIOR_MODE."""
    ctx.rule("C12.R3b", "inside the models package the population variables are only ever put at the prior mode", 2)
    n = 0
    for f in ctx.ix.iter_funcs():
        if not f.mod.startswith("leaspy.models"):
            continue
        for c in ast.walk(f.node):
            if isinstance(c, ast.Call) and isinstance(c.func, ast.Attribute) and c.func.attr == "put_population_latent_variables":
                n += 1
                a0 = c.args[0] if c.args else (c.keywords[0].value if c.keywords else None)
                ok = a0 is not None and U(a0) in ("LatentVariableInitType.PRIOR_MODE", "'mode'")
                ctx.check(ok, "C12.R3b", f, c, "population variables put at the prior mode",
                          f"population variables are initialised with `{U(a0) if a0 is not None else '?'}` (not the literal prior mode): the model's derived quantities (velocities, mixing matrix, "
                          "trajectories) disagree with the parameters it reports and saves")


def r4b_val_to_tensor(ctx, rid="C12.R4b"):
    """The reader side of the codec: val_to_tensor may only tensorise and give the declared shape - any re-arrangement of the entries
    (transpose, flip, permute, sort) makes a saved parameter come back different."""
    ctx.rule(rid, "val_to_tensor only tensorises and reshapes (every definition of it)", 1)
    fs = [f for f in ctx.ix.iter_funcs() if f.name == "val_to_tensor" and f.cls is None]
    if not fs:
        raise AnalysisError(rid, "anchor vanished: val_to_tensor")
    mods = {m for m in ctx.ix.mods}
    # a module may define the function twice (the later definition wins): look at every definition in the module source
    seen = 0
    for modname in sorted({f.mod for f in fs}):
        for node in ctx.ix.mods[modname].tree.body:
            if not (isinstance(node, ast.FunctionDef) and node.name == "val_to_tensor"):
                continue
            seen += 1
            from ..astq import Canon
            cn = Canon(node)
            ALLOWED = {"torch.tensor($0)", "$0.view($1)", "$0.reshape($1)", "torch.tensor($0).view($1)", "torch.tensor($0).reshape($1)"}
            NOCOPY = ("torch.as_tensor(", "torch.from_numpy(", "torch.asarray(")
            REARR = (".t()", ".T", "transpose", "permute", "flip", "sort", "roll", "[::-1]", "swapaxes", "movedim")
            for st in statements(node):
                if isinstance(st, (ast.Assign, ast.AugAssign)):
                    txt = cn.text(st.value, inline=False)
                    where = (modname, "val_to_tensor")
                    if txt in ALLOWED:
                        ctx.ok(rid, where, st, f"`{txt}`: tensorise / declared shape")
                    elif any(txt.startswith(nc) for nc in NOCOPY):
                        ctx.violation(rid, where, st, f"`{U(st)[:70]}` does not copy: a parameter loaded from a numpy array shares its memory with the caller's array, so editing that array "
                                      "afterwards changes the model's parameter behind its cached derived values (the saved file no longer matches the model)")
                    elif any(r in txt for r in REARR):
                        ctx.violation(rid, where, st, f"`{U(st)[:70]}` re-arranges the entries of a loaded value: a parameter whose stored shape matches (e.g. a square matrix) comes back different from "
                                      "what was saved")
                    else:
                        ctx.unknown(rid, where, st, f"`{U(st)[:70]}` is neither tensorisation nor a reshape to the declared shape")
            rets = [cn.text(r.value, inline=False) for r in statements(node) if isinstance(r, ast.Return) and r.value is not None]
            ctx.check(rets == ["$0"], rid, (modname, "val_to_tensor"), node, "returns the (tensorised, reshaped) value", f"val_to_tensor returns {rets}", construct="return value")
    if seen == 0:
        raise AnalysisError(rid, "anchor vanished: module-level val_to_tensor")


def r4c_tensor_to_list(ctx):
    """The writer side of the codec: a parameter is exported with every digit it has (`x.tolist()` of a float32 tensor gives the exact
    double of each value, which reads back to the same float32).  Rounding / formatting / re-typing before export changes the value."""
    ctx.rule("C12.R4c", "tensor_to_list exports the values unchanged (no rounding, formatting or narrowing cast)", 1)
    LOSSY = ("round", "np.round", "numpy.round", "np.around", "torch.round", "format", "np.format_float", "float16", "half", "bfloat16", "np.float16", "np.float32", "astype(np.float32", "trunc", "floor", "ceil",
             "np.set_printoptions", ":.")
    seen = 0
    for modname, m in sorted(ctx.ix.mods.items()):
        for node in m.tree.body:
            if not (isinstance(node, ast.FunctionDef) and node.name == "tensor_to_list"):
                continue
            seen += 1
            rets = [r for r in statements(node) if isinstance(r, ast.Return) and r.value is not None]
            for r in rets:
                txt = U(r.value)
                lossy = [t for t in LOSSY if t in txt]
                plain = txt in ("x.tolist()", "x", "x.detach().tolist()", "x.detach().cpu().tolist()", "x.cpu().tolist()", "list(x)", "x.detach().cpu().numpy().tolist()", "x.numpy().tolist()")
                if lossy:
                    ctx.violation("C12.R4c", (modname, "tensor_to_list"), r, f"`{txt[:80]}` rounds / re-types the values before export (`{lossy[0]}`): a saved parameter no longer reads back to the value the model had")
                elif plain:
                    ctx.ok("C12.R4c", (modname, "tensor_to_list"), r, f"`{txt}`: exact export")
                else:
                    ctx.unknown("C12.R4c", (modname, "tensor_to_list"), r, f"`{txt[:80]}` is neither the plain export nor a recognised lossy one")
    if seen == 0:
        raise AnalysisError("C12.R4c", "anchor vanished: tensor_to_list")


def r4_codec(ctx):
    ctx.rule("C12.R4", "parameters written with tensor_to_list, read with val_to_tensor(value, declared shape of the same variable)", 2)
    ix = ctx.ix
    td = ix.func(BASE, "BaseModel.to_dict", "C12.R4")
    ret = [s for s in statements(td.node) if isinstance(s, ast.Return) and isinstance(s.value, ast.Dict)][0]
    keys = {k.value: v for k, v in zip(ret.value.keys, ret.value.values) if isinstance(k, ast.Constant)}
    pv = keys.get("parameters")
    ok = isinstance(pv, ast.DictComp) and U(pv.value).startswith("tensor_to_list(") and "self.parameters" in U(pv.generators[0].iter) and U(pv.key) == U(pv.generators[0].target.elts[0])
    ctx.check(ok, "C12.R4", td, pv if pv is not None else td.node, "every parameter written, under its own name, as a list",
              "the parameters entry is not {name: tensor_to_list(value) for every model parameter}")
    g = ix.func("leaspy.models.stateful", "StatefulModel.load_parameters", "C12.R4")
    comps = [x for x in ast.walk(g.node) if isinstance(x, ast.DictComp) and "val_to_tensor" in U(x.value)]
    from ..astq import Canon
    cg_ = Canon(g.node)
    ok = any(cg_.text(c).startswith("{%0: val_to_tensor($1[%0], $0.dag[%0].shape) for %0 in $0.parameters_names") for c in comps)
    ctx.check(ok, "C12.R4", g, comps[0] if comps else g.node, "read back into the declared shape of the same variable",
              "load_parameters does not convert `parameters[p]` with the declared shape of variable p")
    # ModelSettings forwards every other top-level key as a hyperparameter
    ms = ix.func("leaspy.models.settings", "ModelSettings.__init__", "C12.R4")
    comp = [x for x in ast.walk(ms.node) if isinstance(x, ast.DictComp)]
    drop = None

    def literal_set(e):
        """the set of string constants `e` denotes: a literal tuple / list / set, or a class constant `self.X` / `cls.X` / `ModelSettings.X` holding one"""
        if isinstance(e, (ast.Tuple, ast.List, ast.Set)) and all(isinstance(x_, ast.Constant) for x_ in e.elts):
            return {x_.value for x_ in e.elts}
        if isinstance(e, ast.Attribute) and isinstance(e.value, ast.Name) and e.value.id in ("self", "cls", "ModelSettings"):
            for b_ in ix.classes.get(ms.cls, ast.ClassDef(body=[])).body:
                if isinstance(b_, (ast.Assign, ast.AnnAssign)):
                    tg = b_.targets[0] if isinstance(b_, ast.Assign) else b_.target
                    if U(tg) == e.attr and b_.value is not None:
                        return literal_set(b_.value)
        return None
    for c in comp:
        for x in ast.walk(c):
            if isinstance(x, ast.Compare) and isinstance(x.ops[0], ast.NotIn):
                drop = literal_set(x.comparators[0])
    if drop is None:
        ctx.unknown("C12.R4", ms, comp[0] if comp else ms.node, "cannot read the set of top-level keys ModelSettings does not forward as hyperparameters", construct="keys dropped by ModelSettings")
    else:
        extra, fewer = sorted(drop - DROPPED), sorted(DROPPED - drop)
        ctx.check(drop == DROPPED, "C12.R4", ms, comp[0] if comp else ms.node, f"ModelSettings forwards every key except {sorted(DROPPED)}",
                  (f"ModelSettings no longer forwards the saved key(s) {extra} to the model constructor: what was saved under them is lost on reload" if extra
                   else f"ModelSettings now forwards {fewer} as hyperparameters (the rules of R2 assume {sorted(DROPPED)} are not)"), construct="keys dropped by ModelSettings")


def r5_rank(ctx):
    from ..domains.rank import rank_results
    from ..specgraph import graphs

    ctx.rule("C12.R5", "every update rule returns the rank its parameter declares", 20)
    for g in graphs(ctx):
        for p, which, declared, got, err in rank_results(ctx, g):
            rule = g.nodes[p].var.attrs[which]
            from ..interp import FuncRef
            f = rule.func if isinstance(rule, FuncRef) else None
            where = f if f is not None else ("leaspy.variables.specs", "ModelParameter")
            cons = f"def {f.node.name}" if f is not None else f"{which} of {p}"
            if err or got is None or declared is None:
                continue  # rank unknown: no verdict (not counted)
            ctx.check(got == declared, "C12.R5", where, f.node if f else None, f"{g.cfg.name}: {which} of `{p}` has rank {got} = declared rank",
                      f"{g.cfg.name}: {which} of `{p}` returns a rank-{got} tensor but the parameter is declared with a rank-{declared} shape: a fit saves it as "
                      f"{'a bare number' if got == 0 else 'a nested list'}, a reload restores the declared shape, so saving the reloaded model does not reproduce the file",
                      construct=cons, instance=g.cfg.name)


def r6_files_read_afresh(ctx):
    """'whatever was loaded or fitted earlier in the process': a loaded model is a function of the file as it is now - nothing between the
    file and the model may keep an earlier reading (memoised parsers, module-level tables of already-loaded settings)."""
    from ._shared import memoised_readers
    ctx.rule("C12.R6", "model / settings files are read afresh at each load (no memoised reader of the file system in the package)", 1)
    hits = memoised_readers(ctx)
    for f, d, c in hits:
        ctx.violation("C12.R6", f, d, f"`@{U(d)[:40]}` memoises `{f.name}`, which reads the file system (`{U(c)[:50]}`): a model saved again to the same path in the same process is loaded "
                      "from the first reading (whatever the key: a modification time has a granularity)")
    ctx.ok("C12.R6", ("leaspy", "<package>"), None, f"{len(list(ctx.ix.iter_funcs()))} functions scanned: no memoised function reads the file system", construct="package-wide scan")


def r7_trajectories_from_the_current_state(ctx):
    """'A fitted model is self-consistent': what estimate returns is computed from the model's current parameters - the same a saved and
    re-loaded copy would use.  A scratch state or memo kept on the model object by the read-only API survives the next fit."""
    from ._shared import model_stores_in_read_api
    ctx.rule("C12.R7", "estimate / compute_*_trajectory keep nothing on the model object (their answer is a function of the current state)", 1)
    sites, n_region = model_stores_in_read_api(ctx)
    for f, st, attr in sites:
        ctx.violation("C12.R7", f, st, f"`{U(st)[:70]}` keeps `self.{attr}` on the model from a method reached by estimate: after the next fit / load the trajectories still come from what was "
                      "remembered, and differ from those of the saved-and-reloaded model")
    ctx.ok("C12.R7", ("leaspy.models", "<package>"), None, f"{n_region} functions reachable from the read-only API: no attribute of the model is written", construct="read-only API")


def r8_feature_names_stored_as_given(ctx):
    """'the reloaded model is the saved one': `BaseModel.load` hands the saved feature names to the constructor, which stores them as they
    are - the names a fit takes from the data are never cleaned either, so any rewriting here (str(), strip(), lower() ...) gives the
    reloaded model other names than the saved one for labels that are not already in the cleaned form."""
    ctx.rule("C12.R8", "the feature names handed to the constructor are stored unchanged (validation helper, __init__, features setter)", 3)
    v = ctx.ix.func(BASE, "BaseModel._validate_user_provided_dimension_and_features_at_init", "C12.R8")
    pops = [st for st in statements(v.node) if isinstance(st, ast.Assign) and len(st.targets) == 1 and isinstance(st.targets[0], ast.Name)
            and isinstance(st.value, ast.Call) and isinstance(st.value.func, ast.Attribute) and st.value.func.attr in ("pop", "get") and st.value.args and U(st.value.args[0]) == "'features'"]
    rets = [st for st in statements(v.node) if isinstance(st, ast.Return)]
    if len(pops) != 1 or len(rets) != 1 or not (isinstance(rets[0].value, ast.Tuple) and len(rets[0].value.elts) == 2):
        ctx.unknown("C12.R8", v, v.node, "the validation helper no longer has the shape `features = kwargs.pop('features', None) ... return dimension, features`", construct="features through the validation helper")
    else:
        name = pops[0].targets[0].id
        others = [st for st in statements(v.node) if st is not pops[0] and any(isinstance(t, ast.Name) and t.id == name for t in store_targets(st))]
        if others:
            ctx.violation("C12.R8", v, others[0], f"`{U(others[0])[:90]}` rewrites the feature names handed to the constructor before they are stored: a model reloaded from its file carries "
                          "other names than the saved one (a fit takes the names from the data unchanged)", construct="features through the validation helper")
        else:
            ctx.check(U(rets[0].value.elts[1]) == name, "C12.R8", v, rets[0], "the names popped from the keyword arguments are returned as they are",
                      f"the helper returns `{U(rets[0].value.elts[1])[:60]}` instead of the feature names it was given", construct="features through the validation helper")
    i = ctx.ix.func(BASE, "BaseModel.__init__", "C12.R8")
    from ..astq import Canon
    L = Canon(i.node).lines(False, True)
    import re as _re
    ok = any(_re.fullmatch(r"(%\d+), (%\d+) = \$0\._validate_user_provided_dimension_and_features_at_init\(\*\*\$kwargs\)", ln) for ln in L)
    m = next((_re.fullmatch(r"(%\d+), (%\d+) = \$0\._validate_user_provided_dimension_and_features_at_init\(\*\*\$kwargs\)", ln) for ln in L if "_validate_user_provided" in ln), None)
    stored = m is not None and any(_re.fullmatch(r"\$0\._features(: [^=]+)? = " + _re.escape(m.group(2)), ln) for ln in L)
    text = "; ".join(ln for ln in L if "_features" in ln or "_validate_user_provided" in ln)
    ctx.form("C12.R8", i, i.node, text, {text} if ok and stored else set(), ["$0._features", "_validate_user_provided_dimension_and_features_at_init("], "__init__ stores the validated names as returned",
             "__init__ no longer stores the feature names returned by the validation helper", forbidden=[r"_features[^=]*= .*(str\(|\.strip\(|\.lower\(|\.upper\(|sorted\()"], construct="features stored by __init__")
    cls_ = ctx.ix.classes.get((BASE, "BaseModel"))
    setter = next((b for b in (cls_.body if cls_ is not None else []) if isinstance(b, ast.FunctionDef) and b.name == "features" and len(b.args.args) == 2
                   and any(U(d) == "features.setter" for d in b.decorator_list)), None)
    if setter is None:
        ctx.unknown("C12.R8", (BASE, "BaseModel.features"), None, "features setter not found", construct="features setter")
    else:
        Ls = Canon(setter).lines(False, True)
        stores = [ln for ln in Ls if ln.startswith("$0._features = ")]
        ctx.check(sorted(stores) == ["$0._features = $1", "$0._features = None"], "C12.R8", (BASE, "BaseModel.features"), setter, "the setter stores the list it is given (or None)",
                  f"the features setter stores {stores}: not the names it was given", construct="features setter")


def r9_stateless_parameters_not_narrowed(ctx, rid="C12.R9"):
    """The benchmark models keep their fitted parameters as double-precision arrays; a model reloaded from its file gets the saved lists back as
    arrays of the same precision (`np.array(list)` -> float64).  A narrowing dtype gives the reloaded model other parameters than the saved
    ones (1e-7 relative - amplified without bound by an ill-conditioned `cov_re_unscaled_inv` of the LME model)."""
    import re as _re
    from ..astq import Canon
    ctx.rule(rid, "StatelessModel.load_parameters turns the saved lists into arrays without narrowing their precision", 1)
    f = ctx.ix.func("leaspy.models.stateless", "StatelessModel.load_parameters", rid)
    ctx.analysed(f)
    L = Canon(f.node).lines(False, True)
    text = "; ".join(L)
    ok = _re.fullmatch(r"\$0\._parameters = \$1\.copy\(\); for \(\$0\._parameters\.items\(\), \((%\d+), (%\d+)\)\); if isinstance\(\2, list\); \$0\._parameters\[\1\] = np\.(array|asarray)\(\2(, dtype=(np\.float64|float|np\.double|'float64'))?\)", text) is not None
    ctx.form(rid, f, f.node, text, {text} if ok else set(), ["$0._parameters", "np.array("], "lists -> np.array(list) (float64)",
             "the saved parameters are no longer turned into double-precision arrays as they are (precision narrowed, or shape changed - `squeeze` turns a saved 1x1 matrix into a scalar): the reloaded model does not carry the saved values",
             forbidden=[r"float32", r"float16", r"\bhalf\b", r"\bsingle\b", r"dtype=(np\.)?int", r"\.astype\(", r"\.round\(", r"np\.(round|around)\(", r"torch\.", r"squeeze\(", r"\.ravel\(", r"\.flatten\(", r"\.reshape\(", r"atleast_\dd\("], construct="lists to arrays")


def r10_load_hands_over_every_parameter(ctx):
    """`BaseModel.load` gives the model the parameters of the file as they are: a filter on their value (`if v`) leaves out the legitimately
    empty or zero ones (`deltas_mean == []` of a one-feature shared-speed model, a mean equal to 0.0), and the model cannot be reloaded."""
    from ..astq import Canon
    import re as _re
    ctx.rule("C12.R10", "BaseModel.load hands every parameter of the file to load_parameters (no filtering on their values)", 1)
    f = ctx.ix.func(BASE, "BaseModel.load", "C12.R10")
    ctx.analysed(f)
    L = Canon(f.node).lines(False, True)
    text = "; ".join(ln for ln in L if "load_parameters(" in ln or "ModelSettings(" in ln or ".parameters" in ln)
    ok = _re.fullmatch(r"(%\d+) = ModelSettings\(\$1\); (%\d+)\.load_parameters\(\1\.parameters\)", text) is not None \
        or _re.fullmatch(r"(%\d+) = ModelSettings\(\$1\); model_factory\(\1\.name, \*\*\1\.hyperparameters\)\.load_parameters\(\1\.parameters\)", text) is not None
    ctx.form("C12.R10", f, f.node, text, {text} if ok else set(), ["ModelSettings($1)", ".load_parameters(", ".parameters"], "load_parameters(reader.parameters)",
             "the model is no longer given the parameters read from the file", forbidden=[r"\bfor\b[^{}]*\bif\b", r"\.pop\(", r"filter\(", r"is not None"], construct="parameters handed over whole")


def r11_observation_models_built_as_given(ctx):
    """`BaseModel.load` hands the saved observation models to the constructor (as a dict `{"y": name}`): the constructor builds what it is
    given.  The only re-binding of the requested models is the default taken when none was requested (`is None`) - a normalisation under any
    other condition turns the saved kind into another one for the spellings it does not foresee."""
    ctx.rule("C12.R11", "the constructor builds the observation models it is given (their only re-binding is the default for `None`)", 1)
    f = ctx.ix.func("leaspy.models.time_reparametrized", "TimeReparametrizedModel.__init__", "C12.R11")
    ctx.analysed(f)
    cfg = CFG(f.node)
    gets = [st for st in statements(f.node) if isinstance(st, ast.Assign) and len(st.targets) == 1 and isinstance(st.targets[0], ast.Name) and isinstance(st.value, ast.Call)
            and isinstance(st.value.func, ast.Attribute) and st.value.func.attr in ("get", "pop") and st.value.args and U(st.value.args[0]) == "'obs_models'"]
    if len(gets) != 1:
        ctx.unknown("C12.R11", f, f.node, "the requested observation models are no longer read once from the keyword arguments", construct="observation models as given")
        return
    var = gets[0].targets[0].id
    bad = []
    n_def = 0
    for n, st in cfg.stmt.items():
        if st is None or st is gets[0] or not any(isinstance(t, ast.Name) and t.id == var for t in store_targets(st)):
            continue
        n_def += 1
        gs = [(U(cfg.stmt[h].test), lab) for h, lab in cfg.if_guards(n)]
        if not any(t_ == f"{var} is None" and lab for t_, lab in gs) or len(gs) != 1:
            bad.append((st, gs))
    if bad:
        st, gs = bad[0]
        ctx.violation("C12.R11", f, st, f"`{U(st)[:70]}` replaces the requested observation models" + (f" when `{gs[-1][0][:90]}`" if gs else "") + ": a model saved with a kind that this test does not "
                      "spell out (the dict form `{'y': 'bernoulli'}` written by `to_dict`) is rebuilt with another noise model, and its saved parameters no longer fit it", construct="observation models as given")
    else:
        ctx.ok("C12.R11", f, gets[0], f"`{var}` is only defaulted when it is None ({n_def} re-binding)", construct="observation models as given")


def r12_export_adds_but_never_rewrites_parameters(ctx):
    """What `to_dict` adds to the exported parameters are derived values under their own names (`mixing_matrix`); the parameters themselves are
    exported as the model holds them - an export that re-writes some of them (re-ordered clusters, rounded values) and not the others saves a
    model that is not the one in memory."""
    ctx.rule("C12.R12", "the exporters (`to_dict`) only add derived values to the exported parameters, they never re-write a parameter", 2)
    ADDED_OK = {"mixing_matrix"}
    n = 0
    for f in ctx.ix.iter_funcs():
        if not f.mod.startswith("leaspy.models") or f.name != "to_dict":
            continue
        n += 1
        ctx.analysed(f)
        bad = False
        for st in statements(f.node):
            loops = []
            for t in store_targets(st):
                if isinstance(t, ast.Subscript) and isinstance(t.value, ast.Subscript) and isinstance(t.value.slice, ast.Constant) and t.value.slice.value == "parameters":
                    key = t.slice
                    if isinstance(key, ast.Constant) and key.value in ADDED_OK:
                        ctx.ok("C12.R12", f, st, f"derived value `{key.value}` added to the export", construct=f"{f.qual}: {key.value}")
                    else:
                        bad = True
                        ctx.violation("C12.R12", f, st, f"`{U(st)[:80]}` re-writes exported parameter(s) (`{U(key)[:30]}`): the file no longer holds the parameters of the model in memory "
                                      "(e.g. clusters re-ordered for some parameters and not for the others)", construct=f"{f.qual}: parameter rewritten")
            for c in header_walk(st):
                if isinstance(c, ast.Call) and isinstance(c.func, ast.Attribute) and c.func.attr in ("update", "pop", "setdefault") and isinstance(c.func.value, ast.Subscript) \
                        and isinstance(c.func.value.slice, ast.Constant) and c.func.value.slice.value == "parameters":
                    bad = True
                    ctx.violation("C12.R12", f, c, f"`{U(c)[:80]}` modifies the exported parameters", construct=f"{f.qual}: parameter rewritten")
        if not bad:
            ctx.ok("C12.R12", f, f.node, "no parameter re-written by the export", construct=f"{f.qual}: nothing rewritten")
    if n < 2:
        ctx.unknown("C12.R12", ("leaspy.models.base", "BaseModel.to_dict"), None, f"only {n} `to_dict` found", construct="exporters")


def rules(ctx):
    r7_trajectories_from_the_current_state(ctx)
    r6_files_read_afresh(ctx)
    r1_name(ctx)
    r2_hyperparameters(ctx)
    r3_mode_reset(ctx)
    r3b_model_side_population_init(ctx)
    r4b_val_to_tensor(ctx)
    r4c_tensor_to_list(ctx)
    r4_codec(ctx)
    r5_rank(ctx)
    r8_feature_names_stored_as_given(ctx)
    r9_stateless_parameters_not_narrowed(ctx)
    r10_load_hands_over_every_parameter(ctx)
    r11_observation_models_built_as_given(ctx)
    r12_export_adds_but_never_rewrites_parameters(ctx)
    ctx.trust("json round trip of Python lists / numbers; tensor.tolist(); tensor.view")
    ctx.note("the two `assert (cond, msg)` statements at the end of StatefulModel.load_parameters assert a non-empty tuple (always true): the comparison of provided derived values is dead code (not part of the statement)")


MB = "src/leaspy/models/base.py"
VARIANTS = [
    V("settings-file-memoised", "src/leaspy/models/settings.py", "class ModelSettings:", "import functools\n\n\n@functools.lru_cache(maxsize=None)\ndef _parsed(path):\n    with open(path) as fp:\n        return json.load(fp)\n\n\nclass ModelSettings:", "C12.R6"),
    V("name-from-instance", MB, "            \"name\": name,\n            **instance_name,\n", "            \"name\": self.name,\n", "C12.R1"),
    V("kind-table-swapped", "src/leaspy/models/factory.py", "        ModelName.LINEAR: LinearModel,\n", "        ModelName.LINEAR: LogisticModel,\n", "C12.R1"),
    V("nb-events-not-saved", "src/leaspy/models/joint.py", "        dict_params[\"nb_events\"] = self.nb_events\n", "", "C12.R2"),
    V("lme-slope-not-saved", "src/leaspy/models/lme.py", "        model_settings[\"with_random_slope_age\"] = self.with_random_slope_age\n", "", "C12.R2"),
    V("source-dimension-not-saved", "src/leaspy/models/time_reparametrized.py", "        model_settings[\"source_dimension\"] = self.source_dimension\n", "", "C12.R2"),
    V("key-written-never-read", "src/leaspy/models/joint.py", "        dict_params[\"nb_events\"] = self.nb_events\n", "        dict_params[\"nb_events\"] = self.nb_events\n        dict_params[\"init_tolerance\"] = self.init_tolerance\n", "C12.R2"),
    V("no-mode-reset-after-fit", "src/leaspy/algo/fit/mcmc_saem.py", "            model_state.put_population_latent_variables(\n                LatentVariableInitType.PRIOR_MODE\n            )\n", "", "C12.R3"),
    V("load-without-mode-reset", "src/leaspy/models/stateful.py", "        self._state.put_population_latent_variables(LatentVariableInitType.PRIOR_MODE)\n\n        # check equality of other values",
      "        # check equality of other values", "C12.R3"),
    V("params-not-listed", MB, "k: tensor_to_list(v) for k, v in (self.parameters or {}).items()", "k: v for k, v in (self.parameters or {}).items()", "C12.R4"),
    V("silent-rename-dict", "src/leaspy/models/joint.py", "dict_params", "out", None, count=3),
]
