"""C04 - the maximization step is the closed-form maximizer of the sufficient statistics."""
from __future__ import annotations

import ast

import sympy as sp

from ..astq import Inliner, U, call_name, kwarg, statements, store_targets
from ..cfg import CFG, header_walk
from ..index import AnalysisError, walk_no_nested
from ..interp import Closure, Ext, FuncRef, Obj
from ..normalform import F, NFUnsupported, Normalizer, equal, sym
from ..selftest import V

PROP = "C04"
LEVEL_TEXT = (
    "Static check of the maximisation step: (R1) McmcSaemCompatibleModel.update_parameters computes every update before the first state write "
    "(two-phase, so no parameter is updated from another's new value); (R2) per shipped model configuration, the named inputs of every update rule "
    "are collected statistics (or `state`), burn-in rules need no statistic the normal rule does not forward, prior means use the identity / the mean over "
    "the individual axis, dispersions reduce over the individual axis only, and the dispersion formula's normal form is E[x^2] - 2 m_old E[x] + m_old^2; "
    "(R3) mask-kind abstract interpretation of both noise updates with their inputs bound from the extracted graph: every reduction over data axes applies to an "
    "observation-masked value and aggregates taken under different masks are never combined; the result is sqrt((||y||^2 - 2<y,m> + ||m||^2)/n_obs) in normal form; "
    "(R4) the fit passes the statistics in force and burn_in=self._is_burn_in(). NOT decided: unbiasedness conventions, mixture responsibilities summing to one, numerics."
)

MODEL = "leaspy.models.mcmc_saem_compatible"
FIT = "leaspy.algo.fit.mcmc_saem"


def r1_two_phase(ctx):
    ctx.rule("C04.R1", "update_parameters: all compute_update calls precede the first state write", 2)
    fs = [f for f in ctx.ix.iter_funcs() if f.name == "update_parameters" and f.cls is not None and "leaspy.models" in f.mod]
    if not fs:
        raise AnalysisError("C04.R1", "anchor vanished: update_parameters")
    for f in fs:
        cfg = CFG(f.node)
        a = f.node.args
        state = [p.arg for p in a.args if p.annotation is not None and U(p.annotation).strip("'\"") == "State"] or ["state"]
        st_name = state[0]
        writes, computes = [], []
        for n, st in cfg.stmt.items():
            if st is None:
                continue
            for x in header_walk(st):
                if isinstance(x, ast.Subscript) and isinstance(x.ctx, ast.Store) and U(x.value) == st_name:
                    writes.append(n)
                if isinstance(x, ast.Call) and isinstance(x.func, ast.Attribute) and U(x.func.value) == st_name and x.func.attr in ("put", "__setitem__"):
                    writes.append(n)
                if isinstance(x, ast.Call) and isinstance(x.func, ast.Attribute) and x.func.attr == "compute_update":
                    computes.append((n, x))
        # evaluation order == textual order only for eager code: a generator expression / lambda / map defers the call to the moment it
        # is consumed (possibly inside the assignment loop)
        parents = {}
        for p_ in ast.walk(f.node):
            for ch in ast.iter_child_nodes(p_):
                parents[ch] = p_
        EAGER = {"dict", "list", "tuple", "sorted", "set", "frozenset", "OrderedDict", "collections.OrderedDict"}
        every_compute = [c for c in ast.walk(f.node) if isinstance(c, ast.Call) and isinstance(c.func, ast.Attribute) and c.func.attr == "compute_update"]
        for cx in every_compute:
            x, lazy = cx, None
            while x in parents and parents[x] is not f.node:
                par = parents[x]
                if isinstance(par, ast.Lambda):
                    lazy = par
                    break
                if isinstance(par, ast.GeneratorExp):
                    consumer = parents.get(par)
                    if not (isinstance(consumer, ast.Call) and U(consumer.func) in EAGER and par in consumer.args):
                        lazy = par
                        break
                x = par
            ctx.check(lazy is None, "C04.R1", f, cx, "the update is computed eagerly (not inside a generator / lambda)",
                      f"`compute_update` sits in a lazily evaluated `{type(lazy).__name__ if lazy is not None else ''}`: it runs only when the result is consumed - i.e. between the state writes of the "
                      "assignment loop - so later parameters are computed from already-updated ones", construct="eager computation of the updates")
        if not computes or not writes:
            ctx.violation("C04.R1", f, f.node, "update_parameters does not (compute updates and then) assign them", construct="def update_parameters")
            continue
        for cn, cx in computes:
            after_write = [w for w in writes if cfg.reachable(w, cn)]
            ctx.check(not after_write, "C04.R1", f, cx, "no state write can precede this computation",
                      f"a parameter write ({cfg.describe(after_write[0]) if after_write else ''}) can precede this computation: later parameters are updated from already-updated ones")
            st_kw = kwarg(cx, "state")
            ss_kw = kwarg(cx, "suff_stats")
            bi_kw = kwarg(cx, "burn_in")
            params = [p.arg for p in a.args + a.kwonlyargs]
            ok = st_kw is not None and U(st_kw) == st_name and ss_kw is not None and U(ss_kw) in params and bi_kw is not None and U(bi_kw) in params
            ctx.check(ok, "C04.R1", f, cx, "computed from the pre-step state, the statistics handed in and the burn-in flag",
                      "compute_update is not called with (state=<the state>, suff_stats=<argument>, burn_in=<argument>)", construct="compute_update arguments")
        for w in set(writes):
            st = cfg.stmt[w]
            # value written must be the stored update of the same parameter
            ctx.ok("C04.R1", f, st, "assignment phase")


def _rule_desc(I, rule):
    """(kind, details) for an update rule value."""
    from ..specgraph import NIF, nif_chain
    if isinstance(rule, Obj) and rule.cls == NIF:
        chain = nif_chain(I, rule)
        base, kws = chain[0]
        return "nif", base, kws, tuple(rule.attrs["parameters"]), chain[1:]
    if isinstance(rule, FuncRef):
        return "func", rule, {}, None, []
    return "other", rule, {}, None, []


def r2_tables(ctx):
    from ..specgraph import graphs

    ctx.rule("C04.R2", "update-rule inputs vs collected statistics, rule kinds per parameter family (every configuration)", 40)
    lvl_ind = 0
    specs = ctx.ix.module("leaspy.variables.specs", "C04.R2")
    d = specs.defs.get("LVL_IND")
    if not (isinstance(d, ast.Assign) and isinstance(d.value, ast.Constant) and d.value.value == 0):
        raise AnalysisError("C04.R2", "anchor changed: LVL_IND is no longer the literal 0 in variables/specs.py")
    gnp = None
    for g in graphs(ctx):
        I = g.interp
        gnp = gnp or I.resolve_name("leaspy.utils.functional._utils", "get_named_parameters")
        for node in g.by_kind("ModelParameter"):
            var = node.var
            collect = var.attrs["suff_stats"]
            collected = set(I.iterate(I.getattr_(collect, "variables")))
            for c in collected:
                if c not in g.nodes:
                    ctx.violation("C04.R2", ("leaspy.variables.specs", "ModelParameter"), None, f"{g.cfg.name}: parameter `{node.name}` collects `{c}` which is not a variable",
                                  construct=f"{node.name}: collected statistics", instance=g.cfg.name)
            normal = var.attrs.get("update_rule")
            burn = var.attrs.get("update_rule_burn_in")
            np_ = set(I.call(gnp, [normal], {}))
            where = ("leaspy.variables.specs", "ModelParameter")
            ctx.check(np_ <= collected | {"state"}, "C04.R2", where, None, f"{g.cfg.name}: inputs of the update of `{node.name}` {sorted(np_)} are collected",
                      f"{g.cfg.name}: update rule of `{node.name}` needs {sorted(np_ - collected - {'state'})} which is not among its collected statistics {sorted(collected)}",
                      construct=f"{node.name}: update_rule inputs", instance=g.cfg.name)
            if burn is not None:
                bp = set(I.call(gnp, [burn], {}))
                # compute_update forwards the NORMAL rule's names whichever rule runs
                ctx.check(bp - {"state"} <= np_ - {"state"} and (("state" in bp) <= ("state" in bp)), "C04.R2", where, None,
                          f"{g.cfg.name}: burn-in rule of `{node.name}` needs {sorted(bp)} - all forwarded",
                          f"{g.cfg.name}: burn-in rule of `{node.name}` needs {sorted(bp - np_)} but compute_update only forwards the normal rule's inputs {sorted(np_)}",
                          construct=f"{node.name}: update_rule_burn_in inputs", instance=g.cfg.name)
            # family-specific shape of the rule
            fam = None
            nm = node.name
            lat = {n.name: n for n in g.by_kind("PopulationLatentVariable", "IndividualLatentVariable")}
            if nm.endswith("_mean") and nm[:-5] in lat:
                fam = ("mean", nm[:-5], lat[nm[:-5]].kind)
            elif nm.endswith("_std") and nm[:-4] in lat:
                fam = ("std", nm[:-4], lat[nm[:-4]].kind)
            if fam is None:
                continue
            what, v, vkind = fam
            prior = lat[v].var.attrs["prior"]
            mixture = "Mixture" in I.str_(prior)
            kind, base, kws, params, then = _rule_desc(I, normal)
            cons = f"{nm}: rule for the prior {what} of {v}"
            if mixture:
                # mixture rules are functions of the state (responsibilities): only their inputs are checked above
                ctx.ok("C04.R2", where, None, f"{g.cfg.name}: mixture rule (responsibility-weighted), inputs checked", construct=cons, instance=g.cfg.name)
                continue
            if what == "mean" and vkind == "PopulationLatentVariable":
                good = kind == "nif" and isinstance(base, FuncRef) and base.name == "_identity" and params == (v,) and not then
                ctx.check(good, "C04.R2", where, None, f"{g.cfg.name}: prior mean of population variable `{v}` = its (averaged) value",
                          f"{g.cfg.name}: prior mean `{nm}` of population variable `{v}` is not the identity on `{v}` (got {base!r}{params})", construct=cons, instance=g.cfg.name)
            elif what == "mean":
                good = kind == "nif" and isinstance(base, Ext) and base.name == "torch.mean" and params == (v,) and kws.get("dim") == lvl_ind and not then
                ctx.check(good, "C04.R2", where, None, f"{g.cfg.name}: prior mean of `{v}` = mean over the individual axis",
                          f"{g.cfg.name}: prior mean `{nm}` is not torch.mean(`{v}`, dim=LVL_IND) (got {base!r}{params} {kws})", construct=cons, instance=g.cfg.name)
            elif what == "std" and vkind == "IndividualLatentVariable":
                good = kind == "nif" and isinstance(base, FuncRef) and base.name == "compute_individual_parameter_std_from_sufficient_statistics" \
                    and params == ("state", v, f"{v}_sqr") and kws.get("dim") == lvl_ind and kws.get("individual_parameter_name") == v
                extra = sorted(set(kws) - {"dim", "individual_parameter_name"}) if kind == "nif" else []
                if good and extra:
                    # R2b decides the formula for the default options of the function only: an option set by one parameter selects another branch
                    ctx.violation("C04.R2", where, None, f"{g.cfg.name}: the rule of `{nm}` is called with the extra option(s) {dict((k, kws[k]) for k in extra)}: not the documented "
                                  f"dispersion around the mean held before the step (the formula rule covers the default options only)", construct=cons + " (options)", instance=g.cfg.name)
                ctx.check(good, "C04.R2", where, None, f"{g.cfg.name}: prior std of `{v}` from E[{v}^2], E[{v}] over the individual axis and the old mean",
                          f"{g.cfg.name}: rule of `{nm}` is not the documented dispersion of `{v}` over the individual axis (got {base!r}{params} {kws})", construct=cons, instance=g.cfg.name)
                if burn is not None:
                    bk, bb, bkw, bpar, bthen = _rule_desc(I, burn)
                    goodb = bk == "nif" and isinstance(bb, Ext) and bb.name == "torch.std" and bpar == (v,) and bkw.get("dim") == lvl_ind
                    ctx.check(goodb, "C04.R2", where, None, f"{g.cfg.name}: memory-less rule of `{nm}` = std over the individual axis",
                              f"{g.cfg.name}: memory-less rule of `{nm}` is not torch.std(`{v}`, dim=LVL_IND) (got {bb!r}{bpar} {bkw})", construct=cons + " (burn-in)", instance=g.cfg.name)
                sq = g.nodes.get(f"{v}_sqr")
                if sq is not None:
                    from ..specgraph import nif_chain
                    ch = nif_chain(I, sq.var.attrs["f"])
                    good_sq = sq.parents == (v,) and len(ch) == 1
                    ctx.check(good_sq, "C04.R2", where, None, f"{g.cfg.name}: `{v}_sqr` is the square of `{v}`", f"{g.cfg.name}: `{v}_sqr` does not depend on `{v}` alone",
                              construct=f"{v}_sqr definition", instance=g.cfg.name)


def r2b_dispersion_formula(ctx):
    ctx.rule("C04.R2b", "normal form of the dispersion update: E[x^2] - 2 m_old E[x] + m_old^2, square-rooted through compute_std_from_variance", 1)
    f = ctx.ix.func("leaspy.variables.utilities", "compute_individual_parameter_std_from_sufficient_statistics", "C04.R2b")
    inl = Inliner(f.node)
    a = f.node.args
    pos = [p.arg for p in a.args]
    kwo = [p.arg for p in a.kwonlyargs]
    if len(pos) < 3 or "dim" not in kwo:
        raise AnalysisError("C04.R2b", "anchor changed: signature of compute_individual_parameter_std_from_sufficient_statistics")
    st, xs, xsq = pos[:3]
    rets = [s for s in statements(f.node) if isinstance(s, ast.Return)]
    if len(rets) != 1 or not (isinstance(rets[0].value, ast.Call) and U(rets[0].value.func) == "compute_std_from_variance"):
        ctx.violation("C04.R2b", f, rets[0] if rets else f.node, "the dispersion is not returned through compute_std_from_variance(variance, ...) (positivity guard + square root)")
        return
    var_expr = inl.resolve(rets[0].value.args[0])
    # options with a constant default: the formula is decided for the defaults (R2 checks that no parameter overrides them)
    defaults_ = {p.arg: d for p, d in zip(a.kwonlyargs, a.kw_defaults) if d is not None and isinstance(d, ast.Constant)}
    defaults_.update({p.arg: d for p, d in zip(a.args[len(a.args) - len(a.defaults):], a.defaults) if isinstance(d, ast.Constant)})

    class _PickDefault(ast.NodeTransformer):
        def visit_IfExp(self, n):
            self.generic_visit(n)
            t = n.test
            neg = isinstance(t, ast.UnaryOp) and isinstance(t.op, ast.Not)
            nm_ = t.operand if neg else t
            if isinstance(nm_, ast.Name) and nm_.id in defaults_ and isinstance(defaults_[nm_.id].value, bool):
                val = defaults_[nm_.id].value != neg
                return n.body if val else n.orelse
            return n
    var_expr = _PickDefault().visit(var_expr)
    if xsq not in {n_.id for n_ in ast.walk(var_expr) if isinstance(n_, ast.Name)}:
        ctx.violation("C04.R2b", f, rets[0], f"the variance `{U(var_expr)[:90]}` does not read the kept squares `{xsq}`: once the statistics are averaged over iterations the square of the "
                      "averaged values replaces the averaged squares, and the dispersion is under-estimated")
        return
    M, Ex, Ex2 = sp.symbols("m_old Ex Ex2", real=True)

    def hook(nz, e):
        fn = U(e.func)
        if fn == "torch.mean" and e.args:
            d = kwarg(e, "dim")
            if d is None or U(d) != "dim":
                raise NFUnsupported(f"mean not over `dim`: {U(e)}")
            a0 = U(e.args[0])
            if a0 == xs:
                return Ex
            if a0 == xsq:
                return Ex2
            raise NFUnsupported(f"mean of {a0}")
        return None

    class Nz(Normalizer):
        def tosym(self, e):
            if isinstance(e, ast.Subscript) and U(e.value) == st:
                return M
            return super().tosym(e)

    try:
        got = Nz({}, call_hook=hook)(var_expr)
    except NFUnsupported as e:
        ctx.unknown("C04.R2b", f, rets[0], f"variance expression outside the supported subset: {e}")
        return
    ref = Ex2 - 2 * M * Ex + M ** 2
    ctx.check(equal(got, ref), "C04.R2b", f, rets[0], "variance = E[x^2] - 2 m_old E[x] + m_old^2 (means over `dim`)",
              f"variance normal form is {sp.expand(got)}, documented {sp.expand(ref)}")
    # the old mean read is <name>_mean of the same parameter
    reads = [x for x in ast.walk(f.node) if isinstance(x, ast.Subscript) and U(x.value) == st]
    ok = len(reads) >= 1 and all(isinstance(x.slice, ast.JoinedStr) and U(x.slice).endswith("_mean'") for x in reads)
    ctx.check(ok, "C04.R2b", f, reads[0] if reads else f.node, "old mean read as state[f'{name}_mean']", "the old mean is not read from `<parameter>_mean` of the state")


def r2c_mixture_dispersion_formula(ctx):
    """Mixture models: the dispersion of an individual parameter around the centre of each cluster is the same documented rule applied to
    the kept statistics,  mean(S[x^2]) - 2 m_old mean(S[x]) + m_old^2  (means over the individuals): the collected *squares* are read.  After
    the memory-less phase the kept values are averages over iterations, and the square of an average is not the average of the squares."""
    ctx.rule("C04.R2c", "mixture dispersion update: E[x^2] - 2 m_old E[x] + m_old^2 from the kept values and the kept squares", 1)
    f = ctx.ix.func("leaspy.models.utilities", "compute_ind_param_std_from_suff_stats_mixture", "C04.R2c")
    a = f.node.args
    pos = [p_.arg for p_ in a.args]
    if len(pos) < 3:
        raise AnalysisError("C04.R2c", "anchor changed: signature of compute_ind_param_std_from_suff_stats_mixture")
    st, xs, xsq = pos[:3]
    inl = Inliner(f.node)
    # the variance: what is square-rooted
    roots = [c for c in ast.walk(f.node) if isinstance(c, ast.Call) and ((isinstance(c.func, ast.Attribute) and c.func.attr == "sqrt" and not c.args)
                                                                           or (U(c.func) in ("torch.sqrt", "compute_std_from_variance") and c.args))]
    if len(roots) != 1:
        ctx.unknown("C04.R2c", f, f.node, f"{len(roots)} square roots in the mixture dispersion update (1 confirmed)", construct="mixture variance")
        return
    var_expr = inl.resolve(roots[0].args[0] if roots[0].args else roots[0].func.value)
    names = {n.id for n in ast.walk(var_expr) if isinstance(n, ast.Name)}
    if xsq not in names:
        ctx.violation("C04.R2c", f, roots[0], f"the variance `{U(var_expr)[:90]}` does not read the kept squares `{xsq}`: once the statistics are averaged over iterations the square of the "
                      "averaged values replaces the averaged squares, and the dispersion is under-estimated", construct="mixture variance")
        return
    M, Ex, Ex2 = sp.symbols("m_old Ex Ex2", real=True)

    def hook(nz, e):
        if U(e.func) == "torch.mean" and e.args:
            d = kwarg(e, "dim")
            if d is None or U(d) not in ("0", "dim"):
                raise NFUnsupported(f"mean not over the individuals: {U(e)}")
            a0 = U(inl.resolve(e.args[0]))
            if a0 == xs:
                return Ex
            if a0 == xsq:
                return Ex2
            raise NFUnsupported(f"mean of {a0}")
        return None

    class Nz(Normalizer):
        def tosym(self, e):
            if isinstance(e, ast.Subscript) and U(e.value) == st and isinstance(e.slice, ast.JoinedStr) and U(e.slice).endswith("_mean'"):
                return M
            return super().tosym(e)
    try:
        got = Nz({}, call_hook=hook)(var_expr)
    except NFUnsupported as e:
        ctx.unknown("C04.R2c", f, roots[0], f"variance expression outside the supported subset: {e}", construct="mixture variance")
        return
    ref = Ex2 - 2 * M * Ex + M ** 2
    ctx.check(equal(got, ref), "C04.R2c", f, roots[0], "variance = E[x^2] - 2 m_old E[x] + m_old^2 (means over the individuals)",
              f"variance normal form is {sp.expand(got)}, documented {sp.expand(ref)}", construct="mixture variance")


def r3_noise(ctx):
    from ..domains.mask import mask_of_graph
    from ..specgraph import graphs

    ctx.rule("C04.R3", "noise updates aggregate observed entries only (mask-kind domain, every configuration with a Gaussian noise)", 6)
    GA = "leaspy.models.obs_models._gaussian"
    n = 0
    for g in graphs(ctx):
        if "noise_std" not in g.nodes:
            continue
        res = mask_of_graph(ctx, g)
        for p, which, val, err in res.rules:
            if p != "noise_std":
                continue
            rule = g.nodes["noise_std"].var.attrs[which]
            f = rule.func if isinstance(rule, FuncRef) else None
            where = f if f is not None else (GA, "FullGaussianObservationModel")
            cons = f"def {f.node.name}" if f is not None else "noise_std update"
            if err:
                ctx.unknown("C04.R3", where, None, f"{g.cfg.name}: cannot evaluate the noise update in the mask domain: {err}", construct=cons, instance=g.cfg.name)
                continue
            flags = [m for c, m in res.flags if c == f"{g.cfg.name}:{which}(noise_std)"]
            up = [m for c, m in res.flags if c.split(":", 1)[1] in ("y_x_model", "model_x_model", "y_L2", "n_obs", "y_L2_per_ft", "n_obs_per_ft")]
            n += 1
            if flags or up:
                ctx.violation("C04.R3", where, f.node if f else None, f"{g.cfg.name}: " + "; ".join(sorted(set(flags + up)))[:400], construct=cons, instance=g.cfg.name)
            else:
                agg = getattr(val, "agg", None)
                ctx.check(agg == "y", "C04.R3", where, f.node if f else None, f"{g.cfg.name}: every aggregate entering the noise estimate is taken over observed entries",
                          f"{g.cfg.name}: the noise estimate aggregates under mask {agg!r}, not the observation mask", construct=cons, instance=g.cfg.name)
    # normal forms of the two rules
    ctx.rule("C04.R3b", "normal form of the noise updates: sqrt((||y||^2 - 2<y,model> + ||model||^2) / n_obs), globally / per feature", 2)
    for name, l2, nobs, but in (("scalar_noise_std_update", "y_L2", "n_obs", None), ("diagonal_noise_std_update", "y_L2_per_ft", "n_obs_per_ft", "LVL_FT")):
        f = ctx.ix.func(GA, f"FullGaussianObservationModel.{name}", "C04.R3b")
        inl = Inliner(f.node)
        rets = [s for s in statements(f.node) if isinstance(s, ast.Return)]
        if len(rets) != 1 or not (isinstance(rets[0].value, ast.Call) and U(rets[0].value.func) == "compute_std_from_variance"):
            ctx.violation("C04.R3b", f, rets[0] if rets else f.node, "noise level not returned through compute_std_from_variance(variance, ...)")
            continue
        var_expr = inl.resolve(rets[0].value.args[0])
        kw = [p.arg for p in f.node.args.kwonlyargs]
        if "state" not in kw or "y_x_model" not in kw or "model_x_model" not in kw:
            raise AnalysisError("C04.R3b", f"anchor changed: inputs of {name}")
        L2, N, YM, MM = sp.symbols("y_l2 n_obs YM MM", real=True)
        SUM = sp.Function("S")
        bad_dims = []

        def hook(nz, e, but=but):
            fn = U(e.func)
            if fn in ("sum_dim",) and e.args:
                bd = kwarg(e, "but_dim")
                dm = kwarg(e, "dim")
                if (U(bd) if bd is not None else None) != but or dm is not None:
                    bad_dims.append(U(e))
                inner = nz.tosym(e.args[0])
                # linearity of the (masked) sum: S(a*x + b*y) = a*S(x) + b*S(y)
                inner = sp.expand(inner)
                out = 0
                for term in sp.Add.make_args(inner):
                    c, rest = term.as_coeff_Mul()
                    out += c * SUM(rest)
                return out
            if fn == "WeightedTensor" and e.args:
                return nz.tosym(e.args[0])
            return None

        class Nz(Normalizer):
            def tosym(self, e):
                if isinstance(e, ast.Subscript) and U(e.value) == "state":
                    k = U(e.slice).strip("'\"")
                    return {l2: L2, nobs: N}.get(k, sym("state_" + k))
                if isinstance(e, ast.Call) and isinstance(e.func, ast.Attribute) and e.func.attr == "float":
                    return self.tosym(e.func.value)
                return super().tosym(e)

        # the documented statistics of this rule are read: the scalar noise is RSS / N over *all* observed entries - built from the per-feature
        # statistics and averaged, every feature counts the same whatever its number of observed values
        read_keys = {U(x.slice).strip("'\"") for x in ast.walk(f.node) if isinstance(x, ast.Subscript) and U(x.value) == "state" and isinstance(x.slice, ast.Constant)}
        if not {l2, nobs} <= read_keys:
            pooled = [c for c in ast.walk(var_expr) if isinstance(c, ast.Call) and ((isinstance(c.func, ast.Attribute) and c.func.attr in ("mean", "nanmean")) or U(c.func) in ("torch.mean", "torch.nanmean"))]
            ctx.violation("C04.R3b", f, rets[0], f"{name} reads {sorted(read_keys)} instead of `{l2}` / `{nobs}`" + (f" and averages (`{U(pooled[0])[:50]}`)" if pooled else "") +
                          ": the noise level is no longer the residual sum of squares over the observed entries divided by their number (features with few observed values weigh as much as the others)")
            continue
        try:
            got = Nz({"y_x_model": YM, "model_x_model": MM}, call_hook=hook)(var_expr)
        except NFUnsupported as e:
            ctx.unknown("C04.R3b", f, rets[0], f"noise variance outside the supported subset: {e}")
            continue
        ref = (L2 - 2 * SUM(YM) + SUM(MM)) / N
        good = equal(got, ref) and not bad_dims
        ctx.check(good, "C04.R3b", f, rets[0], f"variance = ({l2} - 2 S(y*model) + S(model^2)) / {nobs}" + (f" with S over all but {but}" if but else ""),
                  (f"reduction axes differ from the documented ones: {bad_dims}" if bad_dims else f"noise variance normal form is {got}, documented {ref}"))
    # which rule is selected by dimension
    f = ctx.ix.func(GA, "FullGaussianObservationModel.noise_std_specs", "C04.R3b")
    sel = [x for x in ast.walk(f.node) if isinstance(x, ast.IfExp)]
    ok = len(sel) == 1 and U(sel[0].test) in ("dimension == 1",) and U(sel[0].body).endswith("scalar_noise_std_update") and U(sel[0].orelse).endswith("diagonal_noise_std_update")
    ctx.check(ok, "C04.R3b", f, sel[0] if sel else f.node, "scalar rule iff dimension == 1, per-feature rule otherwise",
              "the scalar / per-feature noise rules are not selected by `dimension == 1`")


def r4_in_force(ctx):
    ctx.rule("C04.R4", "_maximization_step hands the statistics in force and the burn-in flag to update_parameters", 1)
    f = ctx.ix.func(FIT, "TensorMcmcSaemAlgorithm._maximization_step", "C04.R4")
    calls = [c for c in walk_no_nested(f.node) if isinstance(c, ast.Call) and isinstance(c.func, ast.Attribute) and c.func.attr == "update_parameters"]
    if len(calls) != 1:
        ctx.violation("C04.R4", f, f.node, f"expected exactly one call of update_parameters per maximisation step, found {len(calls)}", construct="def _maximization_step")
        return
    c = calls[0]
    a1 = c.args[1] if len(c.args) > 1 else kwarg(c, "sufficient_statistics")
    bi = kwarg(c, "burn_in")
    ctx.check(a1 is not None and U(a1) == "self.sufficient_statistics", "C04.R4", f, c, "uses self.sufficient_statistics (the statistics in force)",
              f"update_parameters receives `{U(a1)}`, not the statistics in force `self.sufficient_statistics`")
    ctx.check(bi is not None and U(bi) == "self._is_burn_in()", "C04.R4", f, c, "burn_in=self._is_burn_in()", f"burn_in flag is `{U(bi)}`, not self._is_burn_in()", construct="burn_in flag")
    # the call is the last effect: every path passes through it
    cfg = CFG(f.node)
    n = cfg.node_containing(c)
    ctx.check(n is not None and cfg.all_paths_pass(cfg.entry, [n]), "C04.R4", f, c, "runs on every path of the step", "a path of the maximisation step skips the parameter update", construct="update on every path")
    # compute_update picks the burn-in rule iff burn_in and it exists
    g = ctx.ix.func("leaspy.variables.specs", "ModelParameter.compute_update", "C04.R4")
    ifs = [s for s in statements(g.node) if isinstance(s, ast.If)]
    ok = any(U(s.test) in ("burn_in and self.update_rule_burn_in is not None", "self.update_rule_burn_in is not None and burn_in") for s in ifs)
    ctx.check(ok, "C04.R4", g, ifs[0] if ifs else g.node, "memory-less rule selected iff burn_in and such a rule exists", "selection of the memory-less rule changed", construct="rule selection")


def r5_std_from_variance(ctx):
    """Both the noise and the dispersion updates end in compute_std_from_variance: the closed form needs it to be the plain square root -
    a variance that is too small is refused (convergence error), never replaced by another number."""
    ctx.rule("C04.R5", "compute_std_from_variance = sqrt(variance), a too small variance being refused (every definition of it)", 2)
    from ..astq import Canon
    seen = 0
    for modname, m in sorted(ctx.ix.mods.items()):
        for node in m.tree.body:
            if not (isinstance(node, ast.FunctionDef) and node.name == "compute_std_from_variance"):
                continue
            seen += 1
            cn = Canon(node)
            where = (modname, "compute_std_from_variance")
            rets = [cn.text(r.value, inline=True) for r in statements(node) if isinstance(r, ast.Return) and r.value is not None]
            ok = bool(rets) and all(r in ("$0.sqrt()", "torch.sqrt($0)", "$0 ** 0.5", "$0 ** (1 / 2)") for r in rets)
            rebinds = [st for st in statements(node) if isinstance(st, (ast.Assign, ast.AugAssign)) and any(isinstance(t, ast.Name) and t.id == node.args.args[0].arg for t in store_targets(st))]
            if rebinds:
                ctx.violation("C04.R5", where, rebinds[0], f"`{U(rebinds[0])[:70]}` replaces the variance before the square root (floor / clamp): the updated standard deviation is then a constant, "
                              "not the closed-form RMS residual / dispersion")
            else:
                ctx.check(ok, "C04.R5", where, node, "returns the square root of the variance it was given", f"compute_std_from_variance returns {rets}, not the square root of the variance", construct="sqrt(variance)")
            raises = [r for r in statements(node) if isinstance(r, ast.Raise)]
            ctx.check(bool(raises), "C04.R5", where, node, "a collapsed variance is refused", "a collapsed variance is no longer refused", construct="collapse refused")
    if seen == 0:
        raise AnalysisError("C04.R5", "anchor vanished: compute_std_from_variance")


def r6_parameters_written_by_the_update_only(ctx):
    """Every update rule reads the parameters of the previous iteration ('old' means): within a maximisation step nothing but the
    batched assignment at the end of update_parameters may write a model parameter - in particular not the computation of the
    sufficient statistics (re-centring, normalisations ...) that runs first."""
    from ..specgraph import graphs
    from ._shared import callgraph
    ctx.rule("C04.R6", "inside a maximisation step model parameters are written by the batched update only", 4)
    params = set()
    for g in graphs(ctx):
        params |= {n.name for n in g.by_kind("ModelParameter")}
    step = ctx.ix.func(FIT, "TensorMcmcSaemAlgorithm._maximization_step", "C04.R6")
    cg = callgraph(ctx)
    region = cg.reach([step])
    n = 0
    for k in sorted(region):
        f = ctx.ix.funcs[k]
        if f.qual.endswith(".update_parameters"):
            continue
        for st in statements(f.node):
            names = []
            if isinstance(st, (ast.Assign, ast.AugAssign)):
                for t in (st.targets if isinstance(st, ast.Assign) else [st.target]):
                    if isinstance(t, ast.Subscript) and isinstance(t.slice, ast.Constant) and t.slice.value in params:
                        names.append(t.slice.value)
            elif isinstance(st, ast.Expr) and isinstance(st.value, ast.Call) and isinstance(st.value.func, ast.Attribute) and st.value.func.attr == "put" and st.value.args \
                    and isinstance(st.value.args[0], ast.Constant) and st.value.args[0].value in params:
                names.append(st.value.args[0].value)
            for nm in names:
                n += 1
                ctx.violation("C04.R6", f, st, f"`{U(st)[:80]}` writes the model parameter `{nm}` during the maximisation step, outside the batched update "
                              f"({' -> '.join(cg.path_to(region, k)[-3:])}): the update rules then read a modified 'previous' value, so the new parameters are not the closed-form maximiser "
                              "given the statistics and the parameters of the previous iteration")
    ctx.ok("C04.R6", step, step.node, f"{len(region)} functions reachable from the maximisation step, {len(params)} model-parameter names: no write outside update_parameters",
           construct="writers of model parameters in the step")
    for g in graphs(ctx):
        ctx.ok("C04.R6", step, None, f"{g.cfg.name}: parameter names collected", construct="parameter names", instance=g.cfg.name)


def r7_responsibilities_agree(ctx):
    """Mixture models: the update of `probs` is the mean of the cluster responsibilities of the individuals - the same responsibilities the
    other update rules and the individual sampler weight with.  They are computed at several sites; the sites must agree (same softmax axis,
    same floor on the log-likelihoods), otherwise `probs` is the maximiser for another posterior than the one the other parameters use."""
    ctx.rule("C04.R7", "every computation of the cluster responsibilities has the same form (softmax axis, floor of the log-likelihoods)", 4)
    sites = []
    for f in ctx.ix.iter_funcs():
        for c in ast.walk(f.node):
            if not isinstance(c, ast.Call):
                continue
            arg = dim = None
            fn = U(c.func)
            if isinstance(c.func, ast.Call) and U(c.func.func) in ("torch.nn.Softmax", "nn.Softmax", "Softmax") and c.args:
                arg, dim = c.args[0], kwarg(c.func, "dim") or (c.func.args[0] if c.func.args else None)
            elif fn in ("torch.softmax", "torch.nn.functional.softmax", "F.softmax", "torch.log_softmax") and c.args:
                arg, dim = c.args[0], kwarg(c, "dim") or (c.args[1] if len(c.args) > 1 else None)
            elif isinstance(c.func, ast.Attribute) and c.func.attr == "softmax" and U(c.func.value) not in ("torch", "F", "torch.nn.functional"):
                arg, dim = c.func.value, kwarg(c, "dim") or (c.args[0] if c.args else None)
            if arg is None:
                continue
            floor = None
            a = arg
            if isinstance(a, ast.Call) and (U(a.func) in ("torch.clamp", "torch.clip") or (isinstance(a.func, ast.Attribute) and a.func.attr in ("clamp", "clip", "clamp_min"))):
                lo = kwarg(a, "min")
                if lo is None:
                    pos = a.args[1:] if U(a.func) in ("torch.clamp", "torch.clip") else a.args
                    lo = pos[0] if pos else None
                try:
                    floor = float(ast.literal_eval(lo)) if lo is not None else None
                except (ValueError, SyntaxError):
                    floor = U(lo)
            sites.append((f, c, (U(dim) if dim is not None else None, floor)))
    if len(sites) < 2:
        raise AnalysisError("C04.R7", f"anchor vanished: {len(sites)} softmax site(s) found (6 confirmed by hand)")
    from collections import Counter
    forms = Counter(k for _, _, k in sites)
    ref, n_ref = forms.most_common(1)[0]
    CONFIRMED = ("1", -100.0)
    for f, c, k in sites:
        if k == ref:
            ctx.ok("C04.R7", f, c, f"responsibilities = softmax(dim={k[0]}) of the log-likelihoods floored at {k[1]}")
        else:
            ctx.violation("C04.R7", f, c, f"`{U(c)[:70]}` computes the cluster responsibilities with (axis, floor) = {k}, the other {n_ref} sites with {ref}: the quantities averaged / weighted "
                          "by this rule are not the responsibilities the other update rules and the sampler use")
    if ref != CONFIRMED:
        ctx.unknown("C04.R7", sites[0][0], sites[0][1], f"all sites agree on {ref}, which is not the confirmed form {CONFIRMED}", construct="common form of the responsibilities")


def r8_responsibility_weighted_averages(ctx):
    """Mixture models: the cluster-level updates are responsibility-weighted averages  sum_i r_ik x_i / sum_i r_ik  - the denominator is the
    plain sum of the responsibilities the numerator was weighted with (a denominator with something added, floored or clipped gives another
    number for a sparsely populated cluster)."""
    import re as _re
    from ..astq import canon_lines
    ctx.rule("C04.R8", "mixture updates: numerator and denominator of every responsibility-weighted average use the same responsibilities, unaltered", 3)
    M = "leaspy.models.utilities"
    for name in ("compute_ind_param_mean_from_suff_stats_mixture", "compute_ind_param_std_from_suff_stats_mixture", "compute_ind_param_std_from_suff_stats_mixture_burn_in"):
        f = ctx.ix.try_func(M, name)
        if f is None:
            continue
        L = canon_lines(f.node, False, True)
        rets = [ln for ln in L if ln.startswith("return ")]
        ok = False
        if len(rets) == 1:
            m = _re.fullmatch(r"return (?P<num>%\d+|\((?P<r1>%\d+) \* %\d+\))\.sum\(dim=0\) / (?P<den>%\d+)\.sum\(dim=0\)", rets[0])
            if m:
                den = m.group("den")
                # the responsibilities: a local defined once as the softmax
                soft = [ln for ln in L if ln.startswith(den + " = ") and "Softmax(" in ln]
                weighted = m.group("r1") == den or any(ln.startswith(m.group("num") + " = ") and _re.search(r"(^|[ (])" + _re.escape(den) + r"($|[ .)*])", ln.split(" = ", 1)[1]) for ln in L)
                ok = bool(soft) and weighted
        text = rets[0] if rets else ""
        ctx.form("C04.R8", f, f.node, text, {text} if ok else set(), [".sum(dim=0) / "], f"{name}: sum(r x) / sum(r) with the same responsibilities r",
                 f"{name}: the update is no longer the responsibility-weighted average sum(r x) / sum(r)",
                 forbidden=[r"/ \([^()]*\+", r"finfo", r"\beps\b", r"clamp", r"1e-\d", r"\.max\(", r"maximum\("], construct=f"weighted average in {name}")


def r9_every_parameter_updated(ctx):
    """'each model parameter becomes the closed-form maximiser': the batched update computes a new value for *every* model parameter of the
    graph and assigns every computed value - no parameter is skipped under a condition (one that declares no statistic of its own, like the
    mixture probabilities, would keep its initial value for the whole fit)."""
    from ..astq import Canon
    import re as _re
    ctx.rule("C04.R9", "update_parameters computes and assigns an update for every model parameter (no conditional skip in either loop)", 2)
    f = ctx.ix.func("leaspy.models.mcmc_saem_compatible", "McmcSaemCompatibleModel.update_parameters", "C04.R9")
    ctx.analysed(f)
    cfg = CFG(f.node)
    cn = Canon(f.node)
    cn.lines(False, True)
    comp = [n for n, st in cfg.stmt.items() if isinstance(st, ast.Assign) and isinstance(st.targets[0], ast.Subscript) and isinstance(st.value, ast.Call)
            and isinstance(st.value.func, ast.Attribute) and st.value.func.attr == "compute_update"]
    put = [n for n, st in cfg.stmt.items() if isinstance(st, ast.Assign) and isinstance(st.targets[0], ast.Subscript) and U(st.targets[0].value) in ("state", "self.state")]
    if len(comp) != 1 or len(put) != 1:
        ctx.unknown("C04.R9", f, f.node, f"{len(comp)} computation(s) / {len(put)} assignment(s) of the updates found (1 / 1 confirmed)", construct="every parameter updated")
        return
    for n, what in ((comp[0], "computed"), (put[0], "assigned")):
        gs = [(cfg.stmt[h], lab) for h, lab in cfg.if_guards(n)]
        loops = [cfg.stmt[h] for h, lab in cfg.guards(n) if cfg.kind[h] == "loop" and any(x is cfg.stmt[n] for x in ast.walk(cfg.stmt[h]))]
        skips = [st for st in statements(f.node) if isinstance(st, (ast.Continue, ast.Break)) and any(st in list(ast.walk(lp)) for lp in loops)]
        ok = not gs and not skips
        why = (f"{'only when' if gs[0][1] else 'unless'} `{U(gs[0][0].test)[:70]}`" if gs else (f"unless a `{type(skips[0]).__name__.lower()}` is taken first" if skips else ""))
        ctx.check(ok, "C04.R9", f, cfg.stmt[n], f"the update of every model parameter is {what} unconditionally",
                  f"the update of a model parameter is {what} {why}: a parameter for which the condition fails (e.g. one that declares no sufficient statistic, like the mixture "
                  "probabilities) keeps its previous value instead of becoming the closed-form maximiser", construct=f"update {what} for every parameter")
    it = [U(cfg.stmt[h].iter) for h, lab in cfg.guards(comp[0]) if cfg.kind[h] == "loop" and isinstance(cfg.stmt[h], ast.For)]
    ctx.check(it == ["state.dag.sorted_variables_by_type[ModelParameter].items()"], "C04.R9", f, cfg.stmt[comp[0]], "the loop ranges over every ModelParameter of the graph",
              f"the updates are computed over `{it}`, not over every ModelParameter of the graph", construct="range of the update loop")


def rules(ctx):
    r8_responsibility_weighted_averages(ctx)
    r9_every_parameter_updated(ctx)
    # 'after every maximisation step': there is one at every iteration (same rule as C05.R8)
    from .c05 import r8_step_runs_every_iteration
    r8_step_runs_every_iteration(ctx, rid="C04.R10", why="the parameters keep the values of the previous iteration although the statistics of this one (computed with them) differ")
    r7_responsibilities_agree(ctx)
    r1_two_phase(ctx)
    r2_tables(ctx)
    r2b_dispersion_formula(ctx)
    r2c_mixture_dispersion_formula(ctx)
    r3_noise(ctx)
    r4_in_force(ctx)
    r5_std_from_variance(ctx)
    r6_parameters_written_by_the_update_only(ctx)
    # the noise updates (R3 / R3b) take sum_dim / wsum_dim(...) with their documented meaning: their bodies are compared with the confirmed forms
    from ._shared import weighted_helper_forms
    weighted_helper_forms(ctx, "C04.R3b")
    ctx.trust("torch.mean/std semantics; linearity of masked sums; summaries of leaspy.utils.weighted_tensor helpers (their source is checked by C06.R1)")
    ctx.assume("weights of data variables are 0/1 masks")


M = "src/leaspy/models/mcmc_saem_compatible.py"
GAU = "src/leaspy/models/obs_models/_gaussian.py"
SP = "src/leaspy/variables/specs.py"
FITF = "src/leaspy/algo/fit/mcmc_saem.py"
VARIANTS = [
    V("lazy-updates", M, "        for mp, mp_updated_val in params_updates.items():\n", "        params_updates = ((k, v.compute_update(state=state, suff_stats=sufficient_statistics, burn_in=burn_in)) for k, v in state.dag.sorted_variables_by_type[ModelParameter].items())\n        for mp, mp_updated_val in params_updates:\n", "C04.R1"),
    V("silent-updates-dict-of-generator", M, "        for mp, mp_updated_val in params_updates.items():\n", "        params_updates = dict((k, v.compute_update(state=state, suff_stats=sufficient_statistics, burn_in=burn_in)) for k, v in state.dag.sorted_variables_by_type[ModelParameter].items())\n        for mp, mp_updated_val in params_updates.items():\n", None),
    V("one-phase", M, """            params_updates[mp_name] = mp_var.compute_update(
                state=state, suff_stats=sufficient_statistics, burn_in=burn_in
            )
""", """            params_updates[mp_name] = mp_var.compute_update(
                state=state, suff_stats=sufficient_statistics, burn_in=burn_in
            )
            state[mp_name] = params_updates[mp_name]
""", "C04.R1"),
    V("unmasked-model-sq", GAU, "s2 = sum_dim(WeightedTensor(model_x_model, y_x_model.weight))", "s2 = sum_dim(model_x_model)", "C04.R3"),
    V("raw-statistics", FITF, "model.update_parameters(\n            state, self.sufficient_statistics, burn_in=self._is_burn_in()\n        )", "model.update_parameters(\n            state, sufficient_statistics, burn_in=self._is_burn_in()\n        )", "C04.R4"),
    V("burnin-flag-constant", FITF, "state, self.sufficient_statistics, burn_in=self._is_burn_in()", "state, self.sufficient_statistics, burn_in=False", "C04.R4"),
    V("pop-mean-wrong-var", "src/leaspy/models/logistic.py", "log_g_mean=ModelParameter.for_pop_mean(\"log_g\", shape=(self.dimension,)),", "log_g_mean=ModelParameter.for_pop_mean(\"log_v0\", shape=(self.dimension,)),", "C04.R2"),
    V("ind-mean-wrong-axis", SP, "update_rule=Mean(individual_variable_name, dim=LVL_IND),", "update_rule=Mean(individual_variable_name, dim=LVL_FT),", "C04.R2"),
    V("variance-sign", "src/leaspy/variables/utilities.py", "- 2 * individual_parameter_old_mean * individual_parameter_current_mean", "- individual_parameter_old_mean * individual_parameter_current_mean", "C04.R2b"),
    V("noise-missing-factor", GAU, "noise_var = (y_l2 - 2 * s1 + s2) / n_obs.float()", "noise_var = (y_l2 - s1 + s2) / n_obs.float()", "C04.R3b"),
    V("diag-wrong-axis", GAU, "summed = sum_dim(-2 * y_x_model + model_x_model, but_dim=LVL_FT)", "summed = sum_dim(-2 * y_x_model + model_x_model, but_dim=LVL_IND)", "C04.R3b"),
    V("count-visits-not-obs", GAU, "\"n_obs\": LinkedVariable(\n                    Sqr(\"y\").then(wsum_dim_return_sum_of_weights_only)", "\"n_obs\": LinkedVariable(\n                    Sqr(\"model\").then(wsum_dim_return_sum_of_weights_only)", "C04.R3"),
    # silent
    V("silent-reordered-variance", GAU, "noise_var = (y_l2 - 2 * s1 + s2) / n_obs.float()", "noise_var = (s2 + y_l2 - s1 - s1) / n_obs.float()", None),
    V("silent-mask-via-product", GAU, "s2 = sum_dim(WeightedTensor(model_x_model, y_x_model.weight))", "s2 = sum_dim(WeightedTensor(model_x_model, state[\"y\"].weight))", None),
    V("silent-rename-updates", "src/leaspy/models/mcmc_saem_compatible.py", "params_updates", "updates", None, count=3),
    V("silent-rename-noise-var", "src/leaspy/models/obs_models/_gaussian.py", "noise_var", "variance", None, count=7),
]
