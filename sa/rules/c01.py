"""C01 - values read from the lazily cached variable graph are never stale.

Decided (DESIGN 5/C01): the cache protocol of `State` - who may write the cache
dictionary, invalidate-after-store, the read protocol, out-of-place discipline,
clone isolation, purity of the definitions behind derived variables.
"""
from __future__ import annotations

import ast

from ..astq import Inliner, U, call_name, kwarg, raised_class_name, statements, store_targets
from ..cfg import CFG, header_walk
from ..index import AnalysisError, norm, walk_no_nested
from ..selftest import V

PROP = "C01"
LEVEL_TEXT = (
    "Static protocol check of the lazily cached state (variables/state.py) over the syntax trees of the whole package: "
    "(R1) closed set of writers of the cache dictionary and of the fork snapshot, package-wide, incl. aliases and escapes; "
    "(R2) in State.__setitem__ every path from the store to a normal exit resets *all transitive* children of the same key; "
    "(R3) read protocol: a cached value is returned only when not None, missing ancestors are evaluated in topological order "
    "before the node, an unset independent value ends in `raise LeaspyInputError`, nothing returns/stores a default; "
    "(R4) State.put is out-of-place and goes through __setitem__; no in-place tensor operation package-wide on a value read from a state; "
    "(R5) clone copies the dictionary; (R6) every function behind a derived variable of every shipped model configuration is a pure "
    "function of its named inputs (no self/cls state, no global, no random draw). Necessary conditions for every history of "
    "set/put/read/revert/clone; NOT decided: exactness of the transitive closure used (C15), numerical equality of recomputed values."
)

STATE = "leaspy.variables.state"
PROTECTED = ("_values", "_last_fork")
WRITERS = {
    "_values": {"State.__init__", "State.clear", "State.clone", "State._get_or_compute_and_cache", "State.__setitem__",
                "State.revert", "State.to_device"},
    "_last_fork": {"State.__init__", "State.clear", "State.clone", "State.__setitem__", "State.revert", "State.to_device"},
}
MUTATORS = {"update", "pop", "popitem", "clear", "setdefault", "__setitem__", "__delitem__"}
# callees the cache dictionary may be handed to (each confirmed by reading)
ESCAPES_OK = {
    "copy.deepcopy": "copies",
    "deepcopy": "copies",
    "copy.copy": "shallow copy (tensors are never modified in place: R4a/R4b)",
    "dict": "shallow copy (tensors are never modified in place: R4a/R4b)",
    "list": "read-only", "tuple": "read-only", "sorted": "read-only", "set": "read-only", "frozenset": "read-only", "bool": "read-only", "repr": "read-only", "str": "read-only",
    "iter": "read-only iteration",
    "len": "read-only",
    "compute": "VariableInterface.compute(state): read-only (checked by R1c)",
}
TRANSITIVE = {"sorted_children": True, "sorted_ancestors": True, "direct_children": False, "direct_ancestors": False}


def _protected_attr(e):
    return isinstance(e, ast.Attribute) and e.attr in PROTECTED


def r1_writers(ctx, ids=("C01.R1", "C01.R1b", "C01.R1c")):
    R1, R1B, R1C = ids
    ctx.rule(R1, "closed set of writers of State._values / State._last_fork (package-wide; subscripts, mutator calls, rebinding, setattr, aliases)", 14)
    ctx.rule(R1B, "the cache dictionary escapes only to read-only callees", 2)
    ctx.rule(R1C, "every `compute(state)` of a variable class only reads its argument", 2)
    ix = ctx.ix
    for f in ix.iter_funcs():
        ctx.analysed(f)
        aliases = {}
        for st in statements(f.node):
            if isinstance(st, ast.Assign) and len(st.targets) == 1 and isinstance(st.targets[0], ast.Name) and _protected_attr(st.value):
                aliases[st.targets[0].id] = st.value.attr

        def owner(e):
            """which protected dict does expression e denote (attr name) or None"""
            if _protected_attr(e):
                return e.attr
            if isinstance(e, ast.Name) and e.id in aliases:
                return aliases[e.id]
            return None

        sites = []  # (node, attr, how)
        for n in walk_no_nested(f.node):
            if isinstance(n, ast.stmt):
                for t in store_targets(n):
                    if isinstance(n, (ast.For, ast.AsyncFor, ast.With, ast.AsyncWith)) and not isinstance(t, (ast.Subscript, ast.Attribute)):
                        continue
                    if isinstance(t, ast.Subscript) and owner(t.value):
                        sites.append((n, owner(t.value), "subscript store"))
                    elif _protected_attr(t):
                        sites.append((n, t.attr, "rebinding"))
            if isinstance(n, ast.Call):
                fn = n.func
                if isinstance(fn, ast.Attribute) and fn.attr in MUTATORS and owner(fn.value):
                    sites.append((n, owner(fn.value), f".{fn.attr}()"))
                if call_name(n) in ("setattr", "object.__setattr__") and len(n.args) >= 2:
                    nm = n.args[1]
                    if isinstance(nm, ast.Constant) and nm.value in PROTECTED:
                        sites.append((n, nm.value, "setattr"))
                # escapes (a mutator of a protected dictionary only reads its arguments: counted as a write site above)
                recv_protected = isinstance(fn, ast.Attribute) and owner(fn.value)
                for a in list(n.args) + [k.value for k in n.keywords]:
                    if owner(a) and not recv_protected:
                        cn = call_name(n)
                        short = cn.split(".")[-1] if cn not in ESCAPES_OK else cn
                        ok = (cn in ESCAPES_OK or short in ESCAPES_OK) and f.mod == STATE
                        ctx.check(ok, R1B, f, n, f"{owner(a)} handed to {cn}: {ESCAPES_OK.get(cn, ESCAPES_OK.get(short, ''))}",
                                  f"cache dictionary `{owner(a)}` escapes to `{cn}` which is not a confirmed read-only callee")
        for n, attr, how in sites:
            allowed = f.mod == STATE and f.qual in WRITERS[attr]
            via = None
            if not allowed and f.mod == STATE and f.qual.startswith("State._") and not f.qual.startswith("State.__"):
                # a private helper of State split out of an owner method: it writes on behalf of its callers, which must all be owner methods
                callers = _callers_of_private(ix, f.qual.split(".", 1)[1])
                outside = sorted(q for (m, q) in callers if not (m == STATE and q in WRITERS[attr]))
                allowed, via = not outside, (outside[0] if outside else None)  # no caller left: every call was read in place (index-time inlining of writer helpers)
            ctx.check(allowed, R1, f, n, f"{how} of {attr} inside an owner method" + (" (private helper called by owner methods only)" if f.qual not in WRITERS[attr] else ""),
                      f"{how} of State.{attr} outside its owner methods {sorted(WRITERS[attr])}" + (f" (the helper is also called from `{via}`, which then writes the cache without the checks of the owner methods)" if via else ""))
    # R1c: compute() implementations are read-only on their argument
    for key, cn in ix.classes.items():
        if key[0] != "leaspy.variables.specs":
            continue
        for b in cn.body:
            if isinstance(b, ast.FunctionDef) and b.name == "compute":
                f = ix.funcs[(key[0], f"{key[1]}.compute")]
                params = [p.arg for p in b.args.args if p.arg not in ("self", "cls")]
                bad = None
                for n in walk_no_nested(b):
                    if isinstance(n, ast.stmt):
                        for t in store_targets(n):
                            if isinstance(t, (ast.Subscript, ast.Attribute)) and isinstance(t.value, ast.Name) and t.value.id in params:
                                bad = n
                    if isinstance(n, ast.Call) and isinstance(n.func, ast.Attribute) and n.func.attr in MUTATORS \
                            and isinstance(n.func.value, ast.Name) and n.func.value.id in params:
                        bad = n
                ctx.check(bad is None, R1C, f, bad or b, "compute only reads its `state` argument",
                          "compute writes through its `state` argument (the cache dictionary)")


def _setitem_facts(ctx, rule):
    f = ctx.ix.func(STATE, "State.__setitem__", rule)
    cfg = CFG(f.node)
    inl = Inliner(f.node)
    key_param = [p.arg for p in f.node.args.args][1]
    stores = []
    for n in cfg.nodes(lambda s: isinstance(s, ast.Assign)):
        for t in store_targets(cfg.stmt[n]):
            if isinstance(t, ast.Subscript) and U(t.value) == "self._values" and U(t.slice) == key_param:
                stores.append(n)
    if len(stores) != 1:
        raise AnalysisError(rule, f"expected exactly one store `self._values[{key_param}] = ...` in State.__setitem__, found {len(stores)}")
    return f, cfg, inl, key_param, stores[0]


def _dag_closure_expr(inl, e):
    """Resolve `e` (inlining locals) to ('sorted_children'|..., key text) when it is self.dag.<attr>[key]."""
    r = inl.resolve(e)
    if isinstance(r, ast.Subscript) and isinstance(r.value, ast.Attribute) and U(r.value.value) == "self.dag":
        return r.value.attr, U(r.slice)
    return None


def r2_invalidate(ctx, rid="C01.R2"):
    ctx.rule(rid, "State.__setitem__: every path store -> normal exit passes a loop storing None into every transitive child of the same key", 1)
    f, cfg, inl, key, store = _setitem_facts(ctx, rid)
    loops = []
    for n in cfg.nodes(lambda s: isinstance(s, ast.For)):
        st = cfg.stmt[n]
        clo = _dag_closure_expr(inl, st.iter)
        if clo is None or not isinstance(st.target, ast.Name):
            continue
        resets = [b for b in st.body if isinstance(b, ast.Assign) and any(
            isinstance(t, ast.Subscript) and U(t.value) == "self._values" and U(t.slice) == st.target.id for t in b.targets)
            and isinstance(b.value, ast.Constant) and b.value.value is None]
        # the reset must be unconditional inside the loop body (top-level statement of the body)
        if resets:
            loops.append((n, clo))
    good = [n for n, (attr, k) in loops if TRANSITIVE.get(attr) is True and attr == "sorted_children" and k == key]
    for n, (attr, k) in loops:
        if attr != "sorted_children" or k != key:
            ctx.violation(rid, f, cfg.stmt[n], f"reset loop ranges over self.dag.{attr}[{k}] - not the transitive children of `{key}`")
    ok = bool(good) and cfg.all_paths_pass(store, good)
    if ok:
        ctx.ok(rid, f, cfg.stmt[store], "every path from the store to the exit passes the reset loop over self.dag.sorted_children[name]")
        ctx.ok(rid, f, cfg.stmt[good[0]], "loop stores None into self._values[child] for each transitive child")
    else:
        w = cfg.path_avoiding(store, good)
        ctx.violation(rid, f, cfg.stmt[store],
                      "a path from the store to the normal exit skips the invalidation of the transitive children: "
                      + " -> ".join(cfg.describe(x) for x in (w or [])[:6]))


def r3_read(ctx):
    ctx.rule("C01.R3", "read protocol of State (__getitem__, _get_value_from_cache, _get_or_compute_and_cache)", 6)
    ix = ctx.ix
    # (a) __getitem__
    f = ix.func(STATE, "State.__getitem__", "C01.R3")
    cfg = CFG(f.node)
    inl = Inliner(f.node)
    key = [p.arg for p in f.node.args.args][1]
    rets = cfg.nodes(lambda s: isinstance(s, ast.Return))
    loops = []
    for n in cfg.nodes(lambda s: isinstance(s, ast.For)):
        st = cfg.stmt[n]
        clo = _dag_closure_expr(inl, st.iter)
        if clo and isinstance(st.target, ast.Name):
            calls = [c for b in st.body for c in ast.walk(b) if isinstance(c, ast.Call) and call_name(c) == "self._get_or_compute_and_cache"
                     and c.args and U(c.args[0]) == st.target.id]
            if calls and all(b in [x for x in st.body] for b in st.body):
                loops.append((n, clo))
    for n in rets:
        st = cfg.stmt[n]
        v = st.value
        if v is None:
            ctx.violation("C01.R3", f, st, "__getitem__ returns None")
            continue
        rv = inl.resolve(v)
        if isinstance(rv, ast.Call) and call_name(rv) == "self._get_or_compute_and_cache":
            anc = [ln for ln, (attr, k) in loops if attr == "sorted_ancestors" and k == key and cfg.dominates(ln, n)]
            bad_loops = [(attr, k) for ln, (attr, k) in loops if (attr != "sorted_ancestors" or k != key)]
            arg_ok = rv.args and U(rv.args[0]) == key
            forced = kwarg(rv, "force_computation")
            if bad_loops:
                ctx.violation("C01.R3", f, st, f"ancestors evaluated from self.dag.{bad_loops[0][0]}[{bad_loops[0][1]}], not the topologically sorted transitive ancestors of `{key}`")
            elif not anc:
                ctx.violation("C01.R3", f, st, "the node is computed without first evaluating its missing ancestors (loop over self.dag.sorted_ancestors[name] must dominate)")
            elif not arg_ok:
                ctx.violation("C01.R3", f, st, "computes another node than the one asked for")
            else:
                ctx.ok("C01.R3", f, st, "computed after a dominating loop over self.dag.sorted_ancestors[name]"
                       + ("" if forced is not None else " (cache consulted again: fine)"))
        else:
            # cached path: must be guarded by `<same expr> is not None`
            gs = cfg.if_guards(n)
            guarded = False
            for h, pol in gs:
                t = cfg.stmt[h].test
                txt = inl.text(t)
                if pol is True and txt.endswith("is not None") and U(rv) in txt:
                    guarded = True
                if pol is False and txt.endswith("is None") and U(rv) in txt:
                    guarded = True
            src = U(rv)
            from_cache = src in (f"self._get_value_from_cache({key})", f"self._values[{key}]")
            ctx.check(guarded and from_cache, "C01.R3", f, st,
                      "cached value returned only under `is not None`",
                      f"returns `{src}` without the `is not None` guard on the cached value of `{key}` (a default or unset value could be answered)")
    # (b) _get_value_from_cache returns self._values[name]
    g = ix.func(STATE, "State._get_value_from_cache", "C01.R3")
    gk = [p.arg for p in g.node.args.args][1]
    for st in statements(g.node):
        if isinstance(st, ast.Return):
            ctx.check(U(st.value) == f"self._values[{gk}]", "C01.R3", g, st, "plain dictionary read",
                      "cached value is not read as `self._values[name]` (a default could be answered)")
    # (c) _get_or_compute_and_cache
    h = ix.func(STATE, "State._get_or_compute_and_cache", "C01.R3")
    hcfg = CFG(h.node)
    hk = [p.arg for p in h.node.args.args][1]
    comp = [n for n in hcfg.nodes(lambda s: isinstance(s, ast.Assign) and isinstance(s.value, ast.Call)
                                  and U(s.value.func) == f"self.dag[{hk}].compute")]
    if len(comp) != 1:
        raise AnalysisError("C01.R3", "anchor vanished: `value = self.dag[name].compute(self._values)` in _get_or_compute_and_cache")
    cn = comp[0]
    cvar = U(hcfg.stmt[cn].targets[0])
    ctx.check(U(hcfg.stmt[cn].value.args[0]) == "self._values" if hcfg.stmt[cn].value.args else False, "C01.R3", h, hcfg.stmt[cn],
              "definition evaluated on the current cache", "definition is not evaluated on the current cache dictionary")
    raises = [n for n in hcfg.nodes(lambda s: isinstance(s, ast.Raise))]
    none_guard_ok = False
    for rn in raises:
        for gh, pol in hcfg.if_guards(rn):
            t = U(hcfg.stmt[gh].test)
            if pol is True and t == f"{cvar} is None" and hcfg.dominates(cn, gh):
                cls = raised_class_name(hcfg.stmt[rn])
                if cls == "LeaspyInputError":
                    none_guard_ok = gh
    stores = [n for n in hcfg.nodes(lambda s: isinstance(s, ast.Assign) and any(
        isinstance(t, ast.Subscript) and U(t.value) == "self._values" for t in s.targets))]
    for sn in stores:
        st = hcfg.stmt[sn]
        good = U(st.targets[0].slice) == hk and U(st.value) == cvar and none_guard_ok is not False and hcfg.dominates(none_guard_ok, sn) \
            and hcfg.dominates(cn, sn)
        ctx.check(good, "C01.R3", h, st, "stores the freshly computed, non-None value under the same key",
                  "stores something else than the freshly computed non-None value of this node")
    for rn in hcfg.nodes(lambda s: isinstance(s, ast.Return)):
        st = hcfg.stmt[rn]
        if hcfg.dominates(cn, rn):
            good = U(st.value) == cvar and none_guard_ok is not False and hcfg.dominates(none_guard_ok, rn)
            ctx.check(good, "C01.R3", h, st, "returns the computed value after the None -> LeaspyInputError guard",
                      "the path on which the definition returned None (unset independent variable) does not end in `raise LeaspyInputError` before this return")
        else:
            gs = hcfg.if_guards(rn)
            guarded = any(pol is True and "is not None" in U(hcfg.stmt[g_].test) and U(st.value) in U(hcfg.stmt[g_].test) for g_, pol in gs)
            ctx.check(guarded, "C01.R3", h, st, "cached value returned only when not None",
                      "returns a cached value without the `is not None` test")
    if none_guard_ok is False:
        ctx.violation("C01.R3", h, hcfg.stmt[cn], "no `if value is None: raise LeaspyInputError(...)` after the evaluation of the definition")


INPLACE_OK_RECEIVERS = {
    # construct (normalised receiver root) -> reason; sampler-owned tensors and explicit clones
}


def state_put_out_of_place(ctx, rid="C01.R4a", why="it rewrites a cached value in place (the REF snapshot and every state sharing the tensor see it, no child is invalidated there)"):
    """State.put writes only through self[...] (fork + invalidation) and nothing in the State class uses an in-place tensor method."""
    ctx.rule(rid, "State.put writes only through self[...] and uses out-of-place tensor operations", 3)
    ix = ctx.ix
    f = ix.func(STATE, "State.put", rid)
    for st in statements(f.node):
        for t in store_targets(st):
            if isinstance(st, (ast.Assign, ast.AugAssign)):
                ok = isinstance(t, ast.Subscript) and U(t.value) == "self" and not isinstance(st, ast.AugAssign)
                if isinstance(t, ast.Name):
                    continue
                ctx.check(ok, rid, f, st, "write goes through State.__setitem__ (fork + invalidation)",
                          "State.put writes without going through self[...] = (no invalidation / snapshot)")
    # no in-place tensor method anywhere in the State class - called, or merely referenced (`m = v.index_put_ if ... else v.index_put`)
    cls_state = ix.find_class("State")
    for g in ix.iter_funcs():
        if g.cls != cls_state:
            continue
        for a_ in walk_no_nested(g.node):
            if isinstance(a_, ast.Attribute) and isinstance(a_.ctx, ast.Load) and a_.attr.endswith("_") and not a_.attr.endswith("__") and not a_.attr.startswith("_") and len(a_.attr) > 1:
                ctx.violation(rid, g, a_, f"in-place tensor method `{a_.attr}` in State.{g.name}: " + why)
    ctx.ok(rid, f, f.node, "no in-place tensor method (called or referenced) in the State class")


def r4_out_of_place(ctx):
    state_put_out_of_place(ctx)
    ctx.rule("C01.R4b", "no in-place tensor operation on a value read from a State (package-wide, intra-procedural alias analysis)", 8)
    # R4b: package-wide alias analysis (shared with C03)
    from ._shared import inplace_on_state_values
    sites, holders = inplace_on_state_values(ctx)
    for fn, node, desc in sites:
        ctx.violation("C01.R4b", fn, node, desc + " - the cached value (and any REF snapshot) would change without invalidation")
    for fn, names in holders:
        ctx.ok("C01.R4b", fn, fn.node, f"locals aliasing State values {names}: never modified in place", construct=f"def {fn.name}")


def r5_clone(ctx):
    ctx.rule("C01.R5", "State.clone binds the clone's dictionary to a copy", 1)
    f = ctx.ix.func(STATE, "State.clone", "C01.R5")
    found = False
    for st in statements(f.node):
        if isinstance(st, ast.Assign):
            for t in st.targets:
                if isinstance(t, ast.Attribute) and t.attr == "_values" and U(t.value) != "self":
                    found = True
                    v = st.value
                    copying = (isinstance(v, ast.Call) and call_name(v) in ("copy.deepcopy", "deepcopy", "copy.copy", "dict")) or \
                        isinstance(v, (ast.DictComp, ast.Dict)) or (isinstance(v, ast.Call) and isinstance(v.func, ast.Attribute) and v.func.attr == "copy")
                    ctx.check(copying, "C01.R5", f, st, "clone gets its own dictionary",
                              "the clone shares the cache dictionary with the original (a write to one is seen, un-invalidated, by the other)")
    if not found:
        # then State(...) constructor's fresh dict is used: clone has no values -> also fine only if values copied otherwise
        raise AnalysisError("C01.R5", "anchor vanished: `cloned._values = ...` in State.clone")
    # the clone starts from the constructor (no snapshot, its own containers); built as a shallow copy of the source it shares everything that is
    # not re-bound afterwards - in particular the pending snapshot, which a later revert on the clone would restore
    cfg = CFG(f.node)
    rets = [n for n, st in cfg.stmt.items() if isinstance(st, ast.Return) and isinstance(st.value, ast.Name)]
    for rn in rets:
        var = cfg.stmt[rn].value.id
        defs = [(n, st) for n, st in cfg.stmt.items() if isinstance(st, ast.Assign) and len(st.targets) == 1 and U(st.targets[0]) == var]
        for dn, st in defs:
            v = st.value
            ctor = isinstance(v, ast.Call) and U(v.func) in ("State", "type(self)", "self.__class__", "cls")
            if ctor:
                ctx.ok("C01.R5", f, st, "the clone is built by the constructor (no snapshot, fresh containers)", construct="clone built by the constructor")
                continue
            shallow = isinstance(v, ast.Call) and U(v.func) in ("copy.copy", "copy", "object.__new__", "State.__new__")
            if not shallow:
                ctx.unknown("C01.R5", f, st, f"the clone is created by `{U(v)[:60]}`", construct="clone built by the constructor")
                continue
            missing = []
            for attr in PROTECTED:
                sets = [n for n, s2 in cfg.stmt.items() if isinstance(s2, ast.Assign) and any(U(t) == f"{var}.{attr}" for t in s2.targets)]
                if not (sets and cfg.all_paths_pass(dn, sets, end=rn)):
                    missing.append(attr)
            ctx.check(not missing, "C01.R5", f, st, "shallow copy, with `_values` and `_last_fork` re-bound on every path",
                      f"the clone is a shallow copy of the source (`{U(v)}`) and {missing} is not re-bound on every path: by default the clone keeps the source's pending snapshot, so a revert on the "
                      "clone (which should find none) restores values from before an assignment of the source and serves its descendants stale", construct="clone built by the constructor")


def r6_purity(ctx):
    from ..specgraph import all_linked_functions

    ctx.rule("C01.R6", "functions behind derived variables are pure functions of their named inputs", 20)
    seen = set()
    n_cfg = 0
    for cfgname, varname, fref in all_linked_functions(ctx):
        n_cfg += 1
        if fref is None:
            continue
        key = (fref.mod, fref.qual)
        if key in seen:
            continue
        seen.add(key)
        f = fref
        node = f.node
        problems = []
        if f.cls is not None and f.kind == "method":
            problems.append("is an instance method (depends on object state that the graph does not track)")
        glob_reads = []
        mod = ctx.ix.mods[f.mod]
        params = {p.arg for p in node.args.args + node.args.kwonlyargs + node.args.posonlyargs}
        for n in walk_no_nested(node):
            if isinstance(n, (ast.Global, ast.Nonlocal)):
                problems.append("declares global/nonlocal")
            if isinstance(n, ast.Call):
                cn = call_name(n)
                if cn in ("torch.rand", "torch.randn", "torch.normal", "torch.randint", "torch.bernoulli", "torch.multinomial", "torch.randperm") \
                        or cn.startswith("np.random.") or cn.startswith("random."):
                    problems.append(f"draws random numbers ({cn})")
            if isinstance(n, ast.Attribute) and isinstance(n.value, ast.Name) and n.value.id in ("self",) and f.kind == "method":
                glob_reads.append(U(n))
            if isinstance(n, ast.Name) and isinstance(n.ctx, ast.Load) and n.id not in params:
                d = mod.defs.get(n.id)
                if isinstance(d, (ast.Assign, ast.AnnAssign)) and isinstance(getattr(d, "value", None), (ast.List, ast.Dict, ast.Set)):
                    problems.append(f"reads module-level mutable `{n.id}`")
        if glob_reads:
            problems.append(f"reads {sorted(set(glob_reads))[:3]}")
        caching = [d for d in f.decorators if any(t in d for t in ("lru_cache", "functools.cache", "cached", "memoize")) or d == "cache"]
        if caching:
            problems.append(f"is memoised ({caching[0]}): a second cache that State.__setitem__ does not invalidate (tensors hash by identity)")
        ctx.check(not problems, "C01.R6", f, node, f"pure ({f.kind}) - used by e.g. {cfgname}:{varname}",
                  f"definition of derived variable `{varname}` ({cfgname}) " + "; ".join(problems), construct=f"def {node.name}")
    ctx.extra["configurations"] = ctx.extra.get("configurations", 0)
    # transitive callees of the definitions: no random draw, no surviving global write
    from ..effects import global_writes, rng_draws
    from ._shared import callgraph
    cg = callgraph(ctx)
    roots = [ctx.ix.funcs[k] for k in seen if k in ctx.ix.funcs]
    reach = cg.reach(roots)
    ctx.rule("C01.R6b", "nothing reachable from a derived-variable definition draws random numbers or writes process-wide state", 1)
    bad = 0
    for k in reach:
        g = ctx.ix.funcs[k]
        for fam, node, txt in rng_draws(ctx.ix, g):
            bad += 1
            ctx.violation("C01.R6b", g, node, f"`{txt}` is reachable from the definition of a derived variable ({' -> '.join(cg.path_to(reach, k)[-4:])}): re-evaluating it gives another value, so cached and recomputed values differ")
        for node, desc in global_writes(ctx.ix, g):
            bad += 1
            ctx.violation("C01.R6b", g, node, f"{desc} is reachable from the definition of a derived variable ({' -> '.join(cg.path_to(reach, k)[-4:])})")
    ctx.ok("C01.R6b", (STATE, "<derived variables>"), None, f"{len(reach)} functions reachable from {len(roots)} definitions: no draw, no global write", construct="effects of definitions")
    # ... and does not write into its inputs: the State hands its own tensors to the definitions, so an in-place operation on a (possible)
    # view of an argument (`x.value.to(dtype)` returns x.value itself when the dtype already matches) rewrites an independent value on a read
    from ._shared import inplace_on_argument_views
    ctx.rule("C01.R6c", "nothing reachable from a derived-variable definition modifies (a possible view of) its arguments in place", 1)
    sites, _ = inplace_on_argument_views(ctx, [ctx.ix.funcs[k] for k in reach])
    for fn, node, desc in sites:
        ctx.violation("C01.R6c", fn, node, desc + f" ({' -> '.join(cg.path_to(reach, fn.key)[-3:])}): reading the derived variable rewrites a value held by the State, and nothing is invalidated")
    ctx.ok("C01.R6c", (STATE, "<derived variables>"), None, f"{len(reach)} functions reachable from the definitions: none modifies a view of its arguments", construct="inputs of definitions untouched")


STATE_ATTRS = {"dag", "auto_fork_type", "_tracked_variables", "_values", "_last_fork"}


def r1d_no_other_cache(ctx, rid="C01.R1d"):
    """The invalidation (assignment), the snapshot and the revert know two containers: `_values` and `_last_fork`.  Anything else a State
    keeps about its values (a second cache, a memo of dense views ...) is outside that protocol: it is not reset when a parent is assigned,
    not snapshotted, not restored by a revert."""
    ctx.rule(rid, "State keeps its values in `_values` / `_last_fork` only (closed set of attributes written by its methods)", 1)
    ix = ctx.ix
    seen = {}
    for b in ix.classes[(STATE, "State")].body:
        if not isinstance(b, ast.FunctionDef):
            continue
        f = ix.funcs[(STATE, f"State.{b.name}")]
        for st in ast.walk(b):
            if isinstance(st, (ast.Assign, ast.AugAssign, ast.AnnAssign)):
                for t in store_targets(st):
                    base = t
                    while isinstance(base, ast.Subscript):
                        base = base.value
                    if isinstance(base, ast.Attribute) and U(base.value) == "self":
                        seen.setdefault(base.attr, (f, st))
            elif isinstance(st, ast.Call) and U(st.func) in ("setattr", "object.__setattr__") and st.args and U(st.args[0]) == "self" and len(st.args) > 1 and isinstance(st.args[1], ast.Constant):
                seen.setdefault(st.args[1].value, (f, st))
    for a, (f, st) in sorted(seen.items()):
        ctx.check(a in STATE_ATTRS, rid, f, st, f"`self.{a}` is one of the attributes the assignment / snapshot / revert protocol covers",
                  f"State keeps `self.{a}` besides `_values` / `_last_fork`: whatever it remembers about the values is not invalidated, snapshotted or restored with them "
                  "(a reverted proposal, or a re-assigned parent, is still visible through it)", construct=f"attribute {a}")
    missing = STATE_ATTRS - set(seen)
    if missing:
        ctx.unknown(rid, (STATE, "State"), None, f"attributes {sorted(missing)} are no longer written by State: the storage was re-organised", construct="attributes of State")


def _callers_of_private(ix, name):
    """(module, qualname) of every function of the package calling `<anything>.<name>(...)` or naming the attribute `<name>` (a reference
    handed around counts as a call)"""
    out = set()
    for g in ix.iter_funcs():
        for n in walk_no_nested(g.node):
            if isinstance(n, ast.Attribute) and n.attr == name:
                out.add((g.mod, g.qual))
    return out


def r13_only_settable_assigned(ctx):
    """'derived values are always what their definition gives from the current ancestors': a derived variable is never *assigned*.  Every
    store of a caller-supplied value under a caller-supplied name into the cache is preceded, on every path, by the refusal of a name whose
    variable is not settable - in the storing function itself or, for a private helper, in each of its callers before the call."""
    ctx.rule("C01.R13", "a caller-supplied value is stored only after `is_settable` was checked for its name (in the storing function or before every call of the private helper storing it)", 1)
    ix = ctx.ix

    def refusal_before(f, cfg, target, key_text):
        """is there an `if` refusing (raise) a name whose variable is not settable, passed on every path from the entry to `target`?"""
        for r in cfg.nodes(lambda s_: isinstance(s_, ast.Raise)):
            for h, lab in cfg.if_guards(r):
                t = U(cfg.stmt[h].test)
                if ((t == f"not self.dag[{key_text}].is_settable" and lab is True) or (t == f"self.dag[{key_text}].is_settable" and lab is False)) \
                        and cfg.all_paths_pass(cfg.entry, [h], end=target) and h != target:
                    return True
        return False

    def check_function(f, depth, seen):
        """obligations for the stores `self._values[K] = V` of f with K and V parameters of f"""
        params = [a.arg for a in f.node.args.posonlyargs + f.node.args.args + f.node.args.kwonlyargs]
        cfg = CFG(f.node)
        inl = Inliner(f.node)
        n_found = 0
        for n in cfg.nodes(lambda s_: isinstance(s_, ast.Assign)):
            st = cfg.stmt[n]
            for t in st.targets:
                if not (isinstance(t, ast.Subscript) and U(t.value) == "self._values"):
                    continue
                k = t.slice
                v = inl.resolve(st.value) if isinstance(st.value, ast.Name) else st.value
                # a value stored under a caller-supplied name: everything but the un-setting (None) and the cache fill (`.compute(...)` of the definition)
                def _is_fill(e):
                    return any(isinstance(c_, ast.Call) and isinstance(c_.func, ast.Attribute) and c_.func.attr == "compute" for c_ in ast.walk(e))
                fill = _is_fill(v) or (isinstance(st.value, ast.Name) and any(
                    _is_fill(d.value) for d in ast.walk(f.node) if isinstance(d, (ast.Assign, ast.NamedExpr)) and d.value is not None
                    and any(isinstance(t_, ast.Name) and t_.id == st.value.id for t_ in (d.targets if isinstance(d, ast.Assign) else [d.target]))))
                if not (isinstance(k, ast.Name) and k.id in params) or (isinstance(v, ast.Constant) and v.value is None) or fill:
                    continue
                n_found += 1
                if refusal_before(f, cfg, n, k.id):
                    ctx.ok("C01.R13", f, st, f"`{U(st)}` is reached only after `self.dag[{k.id}].is_settable` was checked (refusal by raise)", construct=f"store in {f.qual}")
                    continue
                # not checked here: every caller must check before calling (private helpers only)
                name = f.qual.split(".", 1)[1] if "." in f.qual else f.qual
                if not (name.startswith("_") and not name.startswith("__")) or depth >= 3:
                    ctx.violation("C01.R13", f, st, f"`{U(st)}` stores a caller-supplied value without checking `self.dag[{k.id}].is_settable` first: a derived variable can be assigned, "
                                  "and it (and everything computed from it) then differs from what its definition gives", construct=f"store in {f.qual}")
                    continue
                kpos = params.index(k.id) - 1  # position among the call's arguments (self is implicit)
                callers = 0
                for g in ix.iter_funcs():
                    gcfg = None
                    for c in walk_no_nested(g.node):
                        if not (isinstance(c, ast.Attribute) and c.attr == name):
                            continue
                        callers += 1
                        call = next((x for x in walk_no_nested(g.node) if isinstance(x, ast.Call) and x.func is c), None)
                        karg = None
                        if call is not None:
                            karg = call.args[kpos] if 0 <= kpos < len(call.args) and not any(isinstance(a, ast.Starred) for a in call.args) else kwarg(call, k.id)
                        if call is None or karg is None or not (g.mod == STATE and U(c.value) == "self"):
                            ctx.violation("C01.R13", g, call or c, f"`{U(call or c)[:80]}`: the unchecked writer `{f.qual}` is used here without a visible `is_settable` refusal for the name it is given", construct=f"use of {name} in {g.qual}")
                            continue
                        gcfg = gcfg or CFG(g.node)
                        cn = gcfg.node_containing(call)
                        if cn is not None and isinstance(karg, ast.Name) and refusal_before(g, gcfg, cn, karg.id):
                            ctx.ok("C01.R13", g, call, f"`{name}` is called only after `self.dag[{karg.id}].is_settable` was checked", construct=f"use of {name} in {g.qual}")
                        else:
                            ctx.violation("C01.R13", g, call, f"`{U(call)[:90]}` reaches the store `{U(st)}` of `{f.qual}` without the refusal of a name that is not settable: `{g.qual}` can assign a derived "
                                          "variable, whose cached value (and every value computed from it) then differs from what its definition gives from the current ancestors",
                                          construct=f"use of {name} in {g.qual}")
                if not callers:
                    ctx.ok("C01.R13", f, st, f"`{f.qual}` is never called", construct=f"store in {f.qual}")
        return n_found

    total = 0
    for f in ix.iter_funcs():
        if f.mod == STATE and f.qual.startswith("State."):
            ctx.analysed(f)
            total += check_function(f, 0, set())
    if not total:
        ctx.unknown("C01.R13", (STATE, "State.__setitem__"), None, "no store of a caller-supplied value under a caller-supplied name found in State any more", construct="store of a supplied value")


def rules(ctx):
    r1d_no_other_cache(ctx)
    r1_writers(ctx)
    r13_only_settable_assigned(ctx)
    # the closures used for the invalidation are the complete transitive closures (same rule as C15.R4: Kahn's traversal propagates the
    # ancestors to every child, or an equivalent closure with enough rounds)
    from .c15 import r4_orientation
    r4_orientation(ctx, rid="C01.R15")
    from ._shared import named_parameters_form
    named_parameters_form(ctx, "C01.R14", "a graph variable named by a parameter that is left out is not an ancestor of the derived variable - it is not invalidated when that variable is "
                          "assigned, and is computed from the Python default instead of the current value")
    r2_invalidate(ctx)
    r3_read(ctx)
    r4_out_of_place(ctx)
    r5_clone(ctx)
    r6_purity(ctx)
    # a revert is the other writer of cached values: it must restore or invalidate every forked entry, otherwise a derived value
    # computed from the rejected assignment is served afterwards (same structural rule as C02.R3, decided on the same code)
    from .c02 import r3_revert_structure
    r3_revert_structure(ctx, rid="C01.R7", title="State.revert restores or invalidates every forked entry (no stale derived value survives a revert)")
    # ... and what a revert restores must be the snapshot of the *last* assignment (any assignment, also an un-setting one, refreshes it):
    # otherwise a revert answers with the cached descendants of an older assignment (same rule as C02.R1)
    from .c02 import r1_snapshot
    r1_snapshot(ctx, rid="C01.R8", title="every assignment refreshes the snapshot a revert restores (taken exactly when auto-fork is on, before the store)")
    # the closure used for the invalidation is the one of *this* graph: nothing computed for one graph (a process-wide memo keyed by
    # something less than the edges) may be served to another one (same rule as C13.R5, restricted to the variables package)
    from .c13 import r5_shared_defaults
    r5_shared_defaults(ctx, rid="C01.R9", scope="leaspy.variables", title="the dependency closures a State invalidates with are computed from its own graph (no process-wide memo in leaspy.variables)")
    # ... and the values a State hands out do not carry a memo of their own (a cached dense view copied along by `valued()` would be served
    # next to a recomputed `.value`)
    r5_shared_defaults(ctx, rid="C01.R9b", scope="leaspy.utils.weighted_tensor", title="no memoised method / shared container in the weighted-tensor classes (a value carries no stale view of itself)")
    # a block run with snapshotting switched off must switch it back on however it is left: otherwise later assignments take no snapshot and
    # a revert restores an older one - derived values of the rejected assignment are then served (same rule as C02.R7)
    # what a per-individual revert writes back is either the old or the current value of each entry - never an arithmetic mix (a NaN from
    # inf * 0 would then be served from the cache): same rule as C02.R4; and a clone that keeps the snapshot keeps the *snapshot* (C02.R8)
    from .c02 import r4_selection, r8_clone_keeps_the_snapshot
    r4_selection(ctx, rid="C01.R11")
    r8_clone_keeps_the_snapshot(ctx, rid="C01.R12")
    from .c02 import r7_auto_fork_scoped
    r7_auto_fork_scoped(ctx, rid="C01.R10", title="State.auto_fork sets the requested mode for the block and restores the previous one in a `finally`")
    ctx.trust("CPython ast; Python dict semantics; torch out-of-place semantics of methods whose name does not end in '_'")
    ctx.assume("sorted_children / sorted_ancestors of VariablesDAG are the exact transitive closures in topological order (C15)")


S = "src/leaspy/variables/state.py"
VARIANTS = [
    V("silent-extract-assign-helper", S, """            raise LeaspyInputError(f"'{name}' is not intended to be set")
        sorted_children = self.dag.sorted_children[name]""", """            raise LeaspyInputError(f"'{name}' is not intended to be set")
        self._assign(name, value)

    def _assign(self, name, value) -> None:
        sorted_children = self.dag.sorted_children[name]""", None),
    V("definition-writes-into-its-input", "src/leaspy/variables/distributions.py", "                torch.clone(x.value)\n", "                x.value.to(dtype=time.dtype)\n", "C01.R6c"),
    V("silent-clone-shallow-copy", S, "        cloned._values = copy.deepcopy(self._values)", "        cloned._values = dict(self._values)", None),
    V("put-in-place-when-no-fork", S, "        self[variable_name] = self[variable_name].index_put(", "        self[variable_name] = (self[variable_name].index_put_ if self.auto_fork_type is None else self[variable_name].index_put)(", "C01.R4a"),
    V("direct-children", S, "sorted_children = self.dag.sorted_children[name]", "sorted_children = self.dag.direct_children[name]", "C01.R2"),
    V("no-reset", S, "        for child in sorted_children:\n            self._values[child] = None\n", "", "C01.R2"),
    V("reset-under-condition", S, "        for child in sorted_children:\n            self._values[child] = None\n",
      "        if value is not None:\n            for child in sorted_children:\n                self._values[child] = None\n", "C01.R2"),
    V("default-for-unset", S, "        if value is None:\n            raise LeaspyInputError(\n                f\"'{name}' is an independent variable which is required{why}\"\n            )\n",
      "        if value is None:\n            return torch.zeros(())\n", "C01.R3"),
    V("no-ancestors-loop", S, "        for parent in self.dag.sorted_ancestors[name]:\n            self._get_or_compute_and_cache(parent, why=f\" to get '{name}'\")\n", "", "C01.R3"),
    V("direct-ancestors", S, "for parent in self.dag.sorted_ancestors[name]:", "for parent in self.dag.direct_ancestors[name]:", "C01.R3"),
    V("index-put-inplace", S, "self[variable_name].index_put(", "self[variable_name].index_put_(", "C01.R4a"),
    V("clone-alias", S, "cloned._values = copy.deepcopy(self._values)", "cloned._values = self._values", "C01.R5"),
    V("foreign-writer", "src/leaspy/models/mcmc_saem_compatible.py", "        state[\"t\"] = None\n", "        state._values[\"t\"] = None\n", "C01.R1"),
    V("cache-get-default", S, "        return self._values[name]\n", "        return self._values.get(name, 0.0)\n", "C01.R3"),
    V("memoised-definition", "src/leaspy/models/logistic.py", "    @staticmethod\n    def metric(*, g: torch.Tensor) -> torch.Tensor:", "    @staticmethod\n    @functools.lru_cache(maxsize=8)\n    def metric(*, g: torch.Tensor) -> torch.Tensor:", "C01.R6"),
    V("definition-draws", "src/leaspy/models/time_reparametrized.py", "        return alpha * (t - tau)\n", "        return alpha * (t - tau) + 1e-9 * torch.randn(())\n", "C01.R6"),
    V("callee-draws", "src/leaspy/utils/weighted_tensor/_utils.py", "    dim = _get_dim(x, dim=dim, but_dim=but_dim)\n    if isinstance(x, WeightedTensor):\n        return x.sum(fill_value=fill_value, dim=dim, **kws)", "    dim = _get_dim(x, dim=dim, but_dim=but_dim)\n    _ = torch.rand(())\n    if isinstance(x, WeightedTensor):\n        return x.sum(fill_value=fill_value, dim=dim, **kws)", "C01.R6"),
    # silent variants
    V("silent-rename-temp", S, "sorted_children = self.dag.sorted_children[name]", "kids = self.dag.sorted_children[name]\n        sorted_children = kids", None),
    V("silent-dict-copy-clone", S, "cloned._values = copy.deepcopy(self._values)", "cloned._values = {k: v for k, v in self._values.items()}", None),
    V("silent-reader-helper", S, "    def precompute_all(self) -> None:", "    def n_cached(self) -> int:\n        return sum(v is not None for v in self._values.values())\n\n    def precompute_all(self) -> None:", None),
]
