"""C10 - re-centring is a pure gauge change; space shifts built from the orthonormal basis (orthogonality itself undecided)."""
from __future__ import annotations

import ast
from fractions import Fraction

from ..astq import store_targets, U, kwarg, statements
from ..cfg import CFG, header_walk
from ..index import AnalysisError, walk_no_nested
from ..interp import Ext, FuncRef
from ..selftest import V

PROP = "C10"
LEVEL_TEXT = (
    "Static gauge analysis: (R1) the shifts applied by every _center_xi_realizations in scope are extracted from its syntax tree (xi gets -mean(xi), the compensated "
    "population variables +mean(xi), the same mean), and the re-centring runs before the statistics are collected; (R2) gauge-charge abstract interpretation of every "
    "variable graph of the kinds in the quantifier (logistic, linear, joint, with/without sources, every noise structure), including the body of "
    "compute_orthonormal_basis: under those shifts the trajectory `model` and every attachment term (observations and events) have charge 0 - they are unchanged for "
    "every state and every value of the mean; (R3) def-use of the space shifts: space_shifts = sources @ mixing_matrix, mixing_matrix = (orthonormal_basis @ betas)^T, "
    "orthonormal_basis = compute_orthonormal_basis(velocity-like, metric-like derived variables) and the Householder construction has its documented shape "
    "(reflection of G*v onto a basis vector, that column stripped). NOT decided: the orthogonality itself (numerical linear algebra of the Householder reflection), "
    "the mixture model's uncompensated centring of the sources (outside the quantifier, reported as information)."
)

SCOPE = [("leaspy.models.riemanian_manifold", "RiemanianManifoldModel"), ("leaspy.models.joint", "JointModel")]


def extract_shifts(ctx, f, rule):
    """{variable: coefficient of m} written by a centring method, m = torch.mean(state[<var>]); returns (shifts, mean-variable, nodes)."""
    a = f.node.args.args
    state = a[1].arg if len(a) > 1 else "state"
    mean_var = None
    mean_of = None

    def whole_mean(e, st_name):
        """name of the state variable when `e` is the mean of the whole of state[<name>]; ('subset', text) when it is the mean of a part of it"""
        arg = None
        if isinstance(e, ast.Call) and U(e.func) == "torch.mean" and len(e.args) == 1 and not e.keywords:
            arg = e.args[0]
        elif isinstance(e, ast.Call) and isinstance(e.func, ast.Attribute) and e.func.attr == "mean" and not e.args and not e.keywords:
            arg = e.func.value
        if arg is None:
            return None
        if isinstance(arg, ast.Subscript) and U(arg.value) == st_name and isinstance(arg.slice, ast.Constant):
            return arg.slice.value
        inner = arg
        while isinstance(inner, ast.Subscript):
            if isinstance(inner.value, ast.Subscript) and U(inner.value.value) == st_name and isinstance(inner.value.slice, ast.Constant):
                return ("subset", U(arg), inner.value.slice.value)
            inner = inner.value
        return None
    for st in statements(f.node):
        if not (isinstance(st, ast.Assign) and isinstance(st.targets[0], ast.Name)):
            continue
        v = st.value
        got = whole_mean(v, state)
        helper = None
        if got is None and isinstance(v, ast.Call) and isinstance(v.func, ast.Attribute) and U(v.func.value) in ("cls", "self") and len(v.args) == 1 and U(v.args[0]) == state and f.cls is not None:
            # the shift comes from a helper of the class: its (single) returned expression is read instead
            helper = ctx.ix.method(f.cls, v.func.attr)
            if helper is not None:
                ha = [p.arg for p in helper.node.args.args if p.arg not in ("self", "cls")]
                rets = [r for r in statements(helper.node) if isinstance(r, ast.Return) and r.value is not None]
                if len(ha) == 1 and len(rets) == 1:
                    got = whole_mean(rets[0].value, ha[0])
        if isinstance(got, tuple):
            where = helper or f
            ctx.violation(rule, where, st if helper is None else where.node, f"the shift is the mean of a part of `{got[2]}` (`{got[1][:70]}`), not of all its entries: after the re-centring the "
                          f"{got[2]} of the cohort are not zero-mean", construct=f"shift = mean of all {got[2]}")
            mean_var, mean_of = st.targets[0].id, got[2]
        elif got is not None:
            mean_var, mean_of = st.targets[0].id, got
    if mean_var is None:
        raise AnalysisError(rule, f"{f.qual}: cannot find `m = torch.mean(state[<variable>])`")
    shifts, nodes = {}, {}
    for st in statements(f.node):
        if isinstance(st, ast.Assign) and isinstance(st.targets[0], ast.Subscript) and U(st.targets[0].value) == state and isinstance(st.targets[0].slice, ast.Constant):
            k = st.targets[0].slice.value
            v = st.value
            coef = None
            from ..astq import local_defs as _ld
            _defs = _ld(f.node)

            def is_var(e):  # state['k'] itself, or a local bound once to it
                if U(e) == f"{state}['{k}']":
                    return True
                ds = _defs.get(e.id, []) if isinstance(e, ast.Name) else []
                return len(ds) == 1 and ds[0] is not None and U(ds[0]) == f"{state}['{k}']"

            def shift_of(e):
                """(is the shift m, cast applied to it) - a cast to the type of the compensated variable narrows for an integer-typed variable"""
                cast = None
                while isinstance(e, ast.Call) and isinstance(e.func, ast.Attribute) and e.func.attr in ("to", "type_as", "type", "float", "double", "clone", "detach", "cpu"):
                    if e.func.attr in ("to", "type_as", "type") and (e.args or e.keywords):
                        cast = e
                    e = e.func.value
                return U(e) == mean_var, cast
            if isinstance(v, ast.BinOp) and isinstance(v.op, (ast.Add, ast.Sub)) and is_var(v.left) and shift_of(v.right)[0]:
                coef = 1 if isinstance(v.op, ast.Add) else -1
                cast_ = shift_of(v.right)[1]
            elif isinstance(v, ast.BinOp) and isinstance(v.op, ast.Add) and is_var(v.right) and shift_of(v.left)[0]:
                coef = 1
                cast_ = shift_of(v.left)[1]
            else:
                cast_ = None
            if coef is not None and cast_ is not None:
                targ = U(cast_.args[0]) if cast_.args else U(cast_.keywords[0].value)
                arg0 = cast_.args[0] if cast_.args else cast_.keywords[0].value
                names_k = {f"{state}['{k}']"} | {n_ for n_, ds in _defs.items() if len(ds) == 1 and ds[0] is not None and U(ds[0]) == f"{state}['{k}']"}
                if any(nk in targ for nk in names_k):
                    ctx.violation(rule, f, st, f"the shift is cast to the type of `{k}` (`{U(cast_)[:50]}`) before it is added: for an integer-typed `{k}` (a model file with whole numbers) it is truncated, "
                                  f"so `{k}` does not follow the re-centring of xi and the trajectory / likelihood changes", construct=f"shift of {k} not narrowed")
                elif isinstance(arg0, ast.Attribute) and U(arg0) in ("torch.float32", "torch.float64", "torch.float", "torch.double"):
                    pass
                else:
                    ctx.unknown(rule, f, st, f"the shift is cast with `{U(cast_)[:50]}` before it is added to `{k}`", construct=f"shift of {k} not narrowed")
            if coef is None:
                raise AnalysisError(rule, f"{f.qual}: unrecognised write `{U(st)}` in the centring step")
            shifts[k] = shifts.get(k, 0) + coef
            nodes[k] = st
        elif isinstance(st, ast.Expr) and isinstance(st.value, ast.Call) and U(st.value.func) == f"{state}.put":
            c = st.value
            k = c.args[0].value if c.args and isinstance(c.args[0], ast.Constant) else None
            val = c.args[1] if len(c.args) > 1 else None
            acc = kwarg(c, "accumulate")
            if k is None or val is None or acc is None or U(acc) != "True":
                raise AnalysisError(rule, f"{f.qual}: unrecognised put `{U(st)}` in the centring step")
            # dtype / device casts do not change the value shifted
            core_ = val
            while isinstance(core_, ast.Call) and isinstance(core_.func, ast.Attribute) and core_.func.attr in ("to", "float", "double", "type", "cpu", "clone", "detach"):
                core_ = core_.func.value
            neg_ = isinstance(core_, ast.UnaryOp) and isinstance(core_.op, ast.USub)
            if neg_:
                core_ = core_.operand
                while isinstance(core_, ast.Call) and isinstance(core_.func, ast.Attribute) and core_.func.attr in ("to", "float", "double", "type", "cpu", "clone", "detach"):
                    core_ = core_.func.value
            coef = (-1 if neg_ else 1) if U(core_) == mean_var else None
            if coef is None:
                raise AnalysisError(rule, f"{f.qual}: unrecognised shift `{U(val)}`")
            idx = kwarg(c, "indices")
            if idx is not None and U(idx) not in ("()", "tuple()"):
                ctx.violation(rule, f, c, f"`{U(c)[:80]}` shifts only the entries `{U(idx)}` of `{k}`: the other entries are not compensated for the re-centring of xi "
                              "(the trajectory / event likelihood of the other components changes)", construct=f"partial compensation of {k}")
            shifts[k] = shifts.get(k, 0) + coef
            nodes[k] = st
    return shifts, mean_of, nodes


def r1_shifts(ctx):
    ctx.rule("C10.R1", "extracted shifts: xi -> xi - mean(xi), compensations +mean(xi); centring before collecting statistics", 4)
    ix = ctx.ix
    out = {}
    for mod, cls in SCOPE:
        f = ix.func(mod, f"{cls}._center_xi_realizations", "C10.R1")
        shifts, mean_of, nodes = extract_shifts(ctx, f, "C10.R1")
        out[cls] = shifts
        ctx.check(mean_of == "xi" and shifts.get("xi") == -1, "C10.R1", f, nodes.get("xi", f.node), "xi := xi - mean(xi): log-accelerations made zero-mean",
                  f"the centring writes xi with coefficient {shifts.get('xi')} of mean({mean_of}): the log-accelerations are not made zero-mean")
        # the centring does nothing else to the state: every other use of it is a read (a further effect - a cache taken back from a fork,
        # a reset, a helper that writes - is not covered by the gauge argument of R2)
        st_name = f.node.args.args[1].arg if len(f.node.args.args) > 1 else "state"
        READS = {"get_tensor_value", "get_tensor_values", "__getitem__", "is_variable_set", "are_variables_set", "keys", "items", "values", "dag"}
        for c in ast.walk(f.node):
            if isinstance(c, ast.Call) and isinstance(c.func, ast.Attribute) and U(c.func.value) == st_name and c.func.attr not in READS | {"put"}:
                ctx.violation("C10.R1", f, c, f"`{U(c)[:70]}`: the re-centring does more to the state than shifting xi and its compensation (`{c.func.attr}` is not a read): "
                              "the values used afterwards are not the ones the gauge argument is about")
            if isinstance(c, ast.Call) and any(isinstance(a_, ast.Name) and a_.id == st_name for a_ in list(c.args) + [k.value for k in c.keywords]) \
                    and not (isinstance(c.func, ast.Attribute) and U(c.func.value) == st_name) and U(c.func) not in ("torch.mean",):
                # a helper of the class that only reads the state (no store, no call on it other than reads) is part of the computation of the shift
                hm = ctx.ix.method(f.cls, c.func.attr) if isinstance(c.func, ast.Attribute) and U(c.func.value) in ("cls", "self") and f.cls is not None else None
                pure = False
                if hm is not None:
                    hp = [p_.arg for p_ in hm.node.args.args if p_.arg not in ("self", "cls")]
                    hs = hp[0] if hp else None
                    writes = [x for x in ast.walk(hm.node) if (isinstance(x, (ast.Assign, ast.AugAssign)) and any(isinstance(t_, ast.Subscript) and U(t_.value) == hs for t_ in store_targets(x)))
                              or (isinstance(x, ast.Call) and isinstance(x.func, ast.Attribute) and U(x.func.value) == hs and x.func.attr not in READS)
                              or (isinstance(x, ast.Call) and any(isinstance(a_, ast.Name) and a_.id == hs for a_ in x.args) and U(x.func) not in ("torch.mean",))]
                    pure = hs is not None and not writes
                if not pure:
                    ctx.violation("C10.R1", f, c, f"`{U(c)[:70]}` hands the state to another function inside the re-centring: its effect is not covered by the gauge argument")
        others = {k: v for k, v in shifts.items() if k != "xi"}
        ctx.check(bool(others) and all(v == 1 for v in others.values()), "C10.R1", f, f.node, f"compensations {sorted(others)} shifted by +mean(xi)",
                  f"compensating shifts are {others} (each must be +1 x mean(xi))", construct="compensating shifts")
    # called before the statistics are collected, for every class overriding it
    for f in [g for g in ix.iter_funcs() if g.name == "compute_sufficient_statistics" and g.cls is not None and any(k[1] == "RiemanianManifoldModel" for k in ix.mro(g.cls)) and g.cls[1] == "RiemanianManifoldModel"]:
        cfg = CFG(f.node)
        cen = [n for n, st in cfg.stmt.items() if st is not None and any(isinstance(c, ast.Call) and U(c.func) in ("cls._center_xi_realizations", "self._center_xi_realizations") for c in header_walk(st))]
        sup = [n for n, st in cfg.stmt.items() if st is not None and any(isinstance(c, ast.Call) and U(c.func) == "super().compute_sufficient_statistics" for c in header_walk(st))]
        ok = bool(cen) and bool(sup) and cfg.dominates(cen[0], sup[0])
        ctx.check(ok, "C10.R1", f, cfg.stmt[sup[0]] if sup else f.node, "re-centring dominates the collection of statistics", "statistics are collected before (or without) the re-centring")
    return out


def r2_charges(ctx, shifts_by_class):
    from ..domains.charge import charges_of_graph
    from ..specgraph import graphs

    ctx.rule("C10.R2", "gauge charge 0 of the trajectory and of every attachment term (all configurations in the quantifier)", 12)
    ix = ctx.ix
    for g in graphs(ctx):
        if g.cfg.kind not in ("logistic", "linear", "joint"):
            continue
        # the centring method the model class dispatches to
        m = ix.method(g.model.cls, "_center_xi_realizations")
        if m is None:
            raise AnalysisError("C10.R2", f"{g.cfg.name}: no _center_xi_realizations")
        shifts, _, _ = extract_shifts(ctx, m, "C10.R2")
        missing = [k for k in shifts if k not in g.nodes]
        if missing:
            ctx.violation("C10.R2", m, m.node, f"{g.cfg.name}: the centring writes {missing}, not variables of this configuration", construct="def _center_xi_realizations", instance=g.cfg.name)
            continue
        vals, failures = charges_of_graph(ctx, g, shifts)
        targets = [n for n in g.nodes if n == "model" or (n.startswith("nll_attach"))]
        for t in targets:
            if t in failures:
                ctx.unknown("C10.R2", m, m.node, f"{g.cfg.name}: cannot evaluate `{t}` in the charge domain: {failures[t]}", construct=f"charge of {t}", instance=g.cfg.name)
                continue
            v = vals[t]
            kind = getattr(v, "kind", "unk")
            if kind == "inv":
                ctx.ok("C10.R2", m, m.node, f"{g.cfg.name}: `{t}` is invariant under {shifts}", construct=f"charge of {t}", instance=g.cfg.name)
            elif kind == "top":
                culprits = [a for a in sorted(g.ancestors(t)) if getattr(vals.get(a), "kind", None) == "top"][:4]
                ctx.unknown("C10.R2", m, m.node, f"{g.cfg.name}: `{t}` goes through an operation the charge domain does not model (first such ancestors: {culprits})",
                            construct=f"charge of {t}", instance=g.cfg.name)
            elif kind == "split":
                culprits = [a for a in sorted(g.ancestors(t) | {t}) if getattr(vals.get(a), "kind", None) == "split"][:3]
                ctx.violation("C10.R2", m, m.node, f"{g.cfg.name}: `{t}` is unchanged by the re-centring only through the cancellation of powers `x ** e` (e not a constant) of quantities that the "
                              f"re-centring rescales (first in {culprits}): exact over the reals, but in float32 these factors under/overflow separately for sharp hazards (nu**rho beyond 1e38), so "
                              f"the {'trajectory' if t == 'model' else 'likelihood'} changes under the re-centring; the documented form raises the invariant ratio to the power",
                              construct=f"charge of {t}", instance=g.cfg.name)
            else:
                # find the first non-invariant ancestor chain for the diagnosis
                culprits = [a for a in sorted(g.ancestors(t)) if getattr(vals.get(a), "kind", None) == "unk"][:4]
                ctx.violation("C10.R2", m, m.node, f"{g.cfg.name}: under the shifts {shifts} of the re-centring, `{t}` transforms as {v!r} (not invariant; first non-gauge-covariant "
                              f"ancestors: {culprits}): the re-centring changes the {'trajectory' if t == 'model' else 'likelihood'}", construct=f"charge of {t}", instance=g.cfg.name)


def r3_space_shifts(ctx):
    from ..specgraph import graphs, nif_chain

    ctx.rule("C10.R3", "space shifts depend on population variables only through (orthonormal_basis @ betas)^T; Householder shape", 8)
    for g in graphs(ctx):
        if "space_shifts" not in g.nodes:
            continue
        I = g.interp
        where = (g.model.cls[0], g.model.cls[1] + ".get_variables_specs")

        def desc(n):
            ch = nif_chain(I, g.nodes[n].var.attrs["f"])
            return [(c.name if isinstance(c, FuncRef) else (c.name if isinstance(c, Ext) else repr(c))) for c, _ in ch]
        ss = g.nodes["space_shifts"]
        ok = ss.parents == ("sources", "mixing_matrix") and desc("space_shifts") == ["torch.matmul"]
        ctx.check(ok, "C10.R3", where, None, f"{g.cfg.name}: space_shifts = sources @ mixing_matrix", f"{g.cfg.name}: space_shifts = {desc('space_shifts')}{ss.parents}", construct="space_shifts", instance=g.cfg.name)
        mm = g.nodes["mixing_matrix"]
        ok = mm.parents == ("orthonormal_basis", "betas") and desc("mixing_matrix") == ["torch.matmul", "torch.t"]
        ctx.check(ok, "C10.R3", where, None, f"{g.cfg.name}: mixing_matrix = (orthonormal_basis @ betas)^T",
                  f"{g.cfg.name}: mixing_matrix = {desc('mixing_matrix')}{mm.parents}: its rows are no longer combinations of the basis orthogonal to the progression", construct="mixing_matrix", instance=g.cfg.name)
        ob = g.nodes["orthonormal_basis"]
        ok = desc("orthonormal_basis") == ["compute_orthonormal_basis"] and len(ob.parents) == 2 and all(g.nodes[p].kind == "LinkedVariable" for p in ob.parents)
        pairs = {("v0", "metric_sqr"), ("collin_to_d_gamma_t0", "g_metric")}
        ctx.check(ok and ob.parents in pairs, "C10.R3", where, None, f"{g.cfg.name}: orthonormal_basis = compute_orthonormal_basis{ob.parents}",
                  f"{g.cfg.name}: orthonormal_basis = {desc('orthonormal_basis')}{ob.parents}, not the Householder basis of the model's (velocity, metric) pair", construct="orthonormal_basis", instance=g.cfg.name)
    f = ctx.ix.func("leaspy.utils.linalg", "compute_orthonormal_basis", "C10.R3")
    from ..astq import Canon, unify
    L = Canon(f.node).lines(True, True)
    # the semantic content (scale invariance of the basis, hence gauge invariance of the space shifts) is decided by R2, which
    # interprets this function; here only the confirmed shape is recorded: another shape is `unknown`, not a violation
    U_ = "($0 - -torch.sign($0[$k0]) * torch.norm($0) * ?e)"
    V_ = f"({U_} / torch.norm{U_})"
    Q = f"(torch.eye(?d) - 2 * {V_}.view(-1, 1) * {V_})"
    hh = unify(L, ["?e = torch.zeros_like($0)", "?e[$k0] = 1.0", f"return torch.cat(({Q}[:, :$k0], {Q}[:, $k0 + 1:]), dim=1)"])
    in_order = hh is not None and all(hh[f"#{i}"] < hh[f"#{i + 1}"] for i in range(2))
    whats = ["e_j is the stripped basis vector", "reflection target alpha = -sign(d_j) |d|", "u = d - alpha e_j", "normalised reflection vector", "Q = I - 2 v v^T", "the column collinear to G*v is stripped"]
    # decided algebraically when the body can be evaluated over sympy tensors: every returned column is orthogonal to G @ v (and the
    # columns are orthonormal), as polynomial identities modulo sign(x)^2 = 1 and norm(x)^2 = sum x_i^2 - whatever the way it is written
    from ..domains.symlin import householder_obligations, SymUnsupported, Refused
    cases = [(m, 3, k) for m in ("scalar", "diagonal") for k in (0, 1, 2)] + [("full", 2, 0), ("full", 2, 1), ("full", 3, 1)]
    cases += [(m, 2, k) for m in ("scalar", "diagonal") for k in (0, 1)]  # the smallest model with a source
    if ctx.tier == "thorough":
        cases += [("diagonal", 4, 0), ("diagonal", 4, 3), ("full", 3, 0), ("full", 3, 2)]
    # a size the body singles out (`if dimension == 2: ...`) is a case of its own, for every kind of metric
    singled = sorted({c_.value for n_ in ast.walk(f.node) if isinstance(n_, ast.Compare) for c_ in [n_.left] + list(n_.comparators)
                      if isinstance(c_, ast.Constant) and isinstance(c_.value, int) and not isinstance(c_.value, bool) and 2 <= c_.value <= 6})
    for n_ in singled:
        for m in ("scalar", "diagonal", "full"):
            for k in (0, n_ - 1):
                if (m, n_, k) not in cases:
                    cases.append((m, n_, k))
    decided = True
    for metric, n, k in cases:
        inst = f"{metric} metric, dimension {n}, stripped column {k}"
        try:
            r = householder_obligations(f.node, n, k, metric)
        except SymUnsupported as e:
            if "budget" in str(e) or "too large" in str(e):
                # the algebra did not finish in its budget (loaded machine): fall back to the confirmed textual form of the reflection
                decided = False
                ctx.extra.setdefault("C10.R3_symbolic_fallback", str(e)[:200])
                break
            # the body contains something the symbolic tensors do not model on the path of this case: not decided (the textual form of the
            # reflection says nothing about another return path)
            ctx.unknown("C10.R3", f, f.node, f"{inst}: the body is outside the symbolic subset ({str(e)[:100]})", construct="orthogonality to G*v", instance=inst)
            continue
        except Refused as e:
            ctx.unknown("C10.R3", f, f.node, f"{inst}: the function refuses a valid configuration ({e})", construct="orthogonality to G*v", instance=inst)
            continue
        if r["shape"] != (n, n - 1):
            ctx.violation("C10.R3", f, f.node, f"{inst}: the basis has shape {r['shape']} instead of ({n}, {n - 1}): not a basis of the hyperplane orthogonal to the progression",
                          construct="orthogonality to G*v", instance=inst)
            continue
        bad = [j for j, okj in enumerate(r["orthogonal"]) if not okj]
        ctx.check(not bad, "C10.R3", f, f.node, f"{inst}: every column is orthogonal to G @ v (identity modulo sign^2 = 1, norm^2 = sum of squares)",
                  f"{inst}: column(s) {bad} of the returned basis are not orthogonal to G @ v: the space shifts get a component along the direction of progression "
                  "(spatial variability mimics a time shift)", construct="orthogonality to G*v", instance=inst)
        ctx.check(bool(r["orthonormal"]), "C10.R3", f, f.node, f"{inst}: the columns are orthonormal", f"{inst}: the columns of the returned basis are not orthonormal",
                  construct="orthonormal columns", instance=inst)
    if not decided:
        for what in whats:
            ctx.anchor(in_order, "C10.R3", f, f.node, what, "Householder reflection e_j, alpha, u, v, Q, stripped column", construct=what)
    if not decided:
        for needle, what in (("$0 = $1 * $0", "velocity mapped through the (diagonal) metric"), ("$0 = $1 @ $0", "velocity mapped through the (full) metric")):
            ctx.anchor(needle in L, "C10.R3", f, f.node, what, f"`{needle}`", construct=what)


def rules(ctx):
    sh = r1_shifts(ctx)
    r2_charges(ctx, sh)
    r3_space_shifts(ctx)
    # "orthogonal in the model's metric": the tensor handed to the Householder step is the model's metric also in single precision -
    # an algebraically equal closed form that subtracts two quantities with the same limit is another number there (same rule as C09.R8)
    # the re-centring (and the rejection of a proposal on log_v0) relies on the snapshot / revert protocol of the state: the snapshot records every
    # forked entry, unset ones included (same rule as C02.R1)
    from .c02 import r1_snapshot
    r1_snapshot(ctx, rid="C10.R5", title="the snapshot taken at an assignment keeps every forked entry, unset ones included (a rejected velocity leaves no derived value behind)")
    # "for any population values ... every row of the mixing matrix is orthogonal": the mixing matrix is what its definition gives from the current
    # velocities, positions and betas - nothing but the State's own methods writes the cache (a loader keeping the matrix of the file) - same rule as C01.R1
    from .c01 import r1_writers
    r1_writers(ctx, ids=("C10.R6", "C10.R6b", "C10.R6c"))
    from .c09 import r8_conditioning
    r8_conditioning(ctx, rid="C10.R4", title="the functions of the positions g feeding the metric subtract no two quantities with the same limit on (0, +inf)")
    ctx.trust("torch.exp/log/mean algebra used by the charge domain (exp(a+m) = exp(a)exp(m), ...); sign/norm homogeneity")
    mx = ctx.ix.try_func("leaspy.models.mixture", "RiemanianManifoldMixtureModel._center_sources_realizations")
    if mx is not None:
        ctx.note("RiemanianManifoldMixtureModel._center_sources_realizations shifts the sources without compensation: outside this property's quantifier (mixture model)")


RM = "src/leaspy/models/riemanian_manifold.py"
JM = "src/leaspy/models/joint.py"
VARIANTS = [
    V("v0-sign-flipped", RM, "        state[\"log_v0\"] = state[\"log_v0\"] + mean_xi\n", "        state[\"log_v0\"] = state[\"log_v0\"] - mean_xi\n", "C10.R1"),
    V("no-v0-compensation", RM, "        state[\"log_v0\"] = state[\"log_v0\"] + mean_xi\n", "", "C10.R1"),
    V("joint-no-nu-compensation", JM, "        state[\"n_log_nu\"] = state[\"n_log_nu\"] + mean_xi\n", "", "C10.R2"),
    V("centre-after-statistics", RM, "        cls._center_xi_realizations(state)\n\n        return super().compute_sufficient_statistics(state)", "        s = super().compute_sufficient_statistics(state)\n        cls._center_xi_realizations(state)\n        return s", "C10.R1"),
    V("nu-not-exponential-of-minus", JM, "        return torch.exp(-1 * n_log_nu)", "        return torch.exp(n_log_nu)", "C10.R2"),
    V("basis-not-normalised", "src/leaspy/utils/linalg.py", "    v_vector = u_vector / torch.norm(u_vector)", "    v_vector = u_vector", "C10.R2"),
    V("mixing-from-betas-only", "src/leaspy/models/time_reparametrized.py", "                    MatMul(\"orthonormal_basis\", \"betas\").then(torch.t)", "                    MatMul(\"betas\", \"betas\").then(torch.t)", "C10.R3"),
    V("rt-without-alpha", "src/leaspy/models/time_reparametrized.py", "        return alpha * (t - tau)\n", "        return t - tau\n", "C10.R2"),
    V("reflection-factor-three", "src/leaspy/utils/linalg.py", "- 2 * v_vector.view(-1, 1) * v_vector", "- 3 * v_vector.view(-1, 1) * v_vector", "C10.R3"),
    V("reflection-about-first-axis", "src/leaspy/utils/linalg.py", "    ej[strip_col] = 1.0", "    ej[0] = 1.0", "C10.R3"),
    V("diagonal-metric-added", "src/leaspy/utils/linalg.py", "dgamma_t0 = G_metric * dgamma_t0  # component", "dgamma_t0 = G_metric + dgamma_t0  # component", "C10.R3"),
    V("one-column-too-few", "src/leaspy/utils/linalg.py", "q_matrix[:, strip_col + 1 :]", "q_matrix[:, strip_col + 2 :]", "C10.R3"),
    V("silent-outer-product", "src/leaspy/utils/linalg.py", "2 * v_vector.view(-1, 1) * v_vector", "2 * torch.outer(v_vector, v_vector)", None),
    V("silent-other-reflection", "src/leaspy/utils/linalg.py", "    u_vector = dgamma_t0 - alpha * ej", "    u_vector = dgamma_t0 + alpha * ej", None),
    V("silent-rows-of-symmetric-q", "src/leaspy/utils/linalg.py", "torch.cat((q_matrix[:, :strip_col], q_matrix[:, strip_col + 1 :]), dim=1)",
      "torch.cat((q_matrix[:strip_col, :], q_matrix[strip_col + 1 :, :]), dim=0).t()", None),
    V("silent-put-accumulate", RM, "        state[\"log_v0\"] = state[\"log_v0\"] + mean_xi\n", "        state.put(\"log_v0\", mean_xi, accumulate=True)\n", None),
    V("silent-rename-mean", RM, "mean_xi", "m", None, count=3),
]
