"""C16 - individual-parameter containers convert losslessly."""
from __future__ import annotations

import ast

from ..astq import U, raised_class_name, statements, store_targets
from ..cfg import CFG, header_walk
from ..index import AnalysisError, walk_no_nested
from ..selftest import V

PROP = "C16"
LEVEL_TEXT = (
    "Static check of io/outputs/individual_parameters.py over the finite set of shape cases {(), (1,), (n,)} that add_individual_parameters can record: "
    "(R1) every constant subscript of a recorded shape is unreachable for the scalar shape () - the guards on the path are evaluated, three-valued, with shape=(); "
    "(R2) in add_individual_parameters the five refusals raise LeaspyIndividualParamsInputError and every one of them dominates every commit "
    "(append of the identifier, store of the values, first recording of the shapes); (R3) writer/reader codec of the table form: the writer appends `_<i>` "
    "after the parameter name, so the reader must split on the LAST separator and only for an integer suffix; the reader's single-column case is compared with the "
    "writer's shape cases; (R4) to_pytorch reshapes to (n_individuals, size) float32, from_pytorch refuses length mismatches, the JSON writer and reader use the same "
    "key set and shapes are re-tupled; CSV identifiers are read as strings. NOT decided: pandas / json value semantics, float formatting."
)

MOD = "leaspy.io.outputs.individual_parameters"
CLS = "IndividualParameters"


def _tri(e: ast.AST, subst):
    """Three-valued (True / False / None) evaluation of a guard under a partial substitution {source text: python value}."""
    t = U(e)
    if t in subst:
        return subst[t]
    if isinstance(e, ast.Constant):
        return e.value
    if isinstance(e, ast.Tuple):
        vals = [_tri(x, subst) for x in e.elts]
        return None if any(v is None and not (isinstance(x, ast.Constant) and x.value is None) for v, x in zip(vals, e.elts)) else tuple(vals)
    if isinstance(e, ast.BoolOp):
        vals = [_tri(v, subst) for v in e.values]
        if isinstance(e.op, ast.Or):
            if any(v is True for v in vals):
                return True
            return False if all(v is False for v in vals) else None
        if any(v is False for v in vals):
            return False
        return True if all(v is True for v in vals) else None
    if isinstance(e, ast.UnaryOp) and isinstance(e.op, ast.Not):
        v = _tri(e.operand, subst)
        return None if v is None else (not v)
    if isinstance(e, ast.Compare) and len(e.ops) == 1:
        l, r = _tri(e.left, subst), _tri(e.comparators[0], subst)
        known_l = l is not None or (isinstance(e.left, ast.Constant))
        known_r = r is not None or (isinstance(e.comparators[0], ast.Constant))
        if not (known_l and known_r):
            return None
        op = e.ops[0]
        try:
            if isinstance(op, ast.Eq):
                return l == r
            if isinstance(op, ast.NotEq):
                return l != r
            if isinstance(op, ast.Gt):
                return l > r
            if isinstance(op, ast.GtE):
                return l >= r
            if isinstance(op, ast.Lt):
                return l < r
            if isinstance(op, ast.LtE):
                return l <= r
            if isinstance(op, ast.In):
                return l in r
            if isinstance(op, ast.NotIn):
                return l not in r
        except TypeError:
            return None
    if isinstance(e, ast.Call) and U(e.func) == "len" and e.args:
        v = _tri(e.args[0], subst)
        return len(v) if isinstance(v, tuple) else None
    return None


def _branch_chain(fn: ast.AST, target: ast.AST):
    """[(if-test, taken-branch bool)] of the If statements enclosing `target` (outermost first)."""
    chain = []

    def rec(node, acc):
        for field in ("body", "orelse", "finalbody"):
            for st in getattr(node, field, []) or []:
                if any(x is target for x in ast.walk(st)):
                    if isinstance(st, ast.If):
                        inner_body = any(x is target for b in st.body for x in ast.walk(b))
                        inner_test = any(x is target for x in ast.walk(st.test))
                        if inner_test:
                            chain.extend(acc)
                            return True
                        return rec(st, acc + [(st.test, inner_body)])
                    if isinstance(st, (ast.For, ast.While, ast.With, ast.Try)):
                        if rec(st, acc):
                            return True
                        for h in getattr(st, "handlers", []):
                            if rec(h, acc):
                                return True
                        continue
                    chain.extend(acc)
                    return True
        return False

    rec(fn, [])
    return chain


def r1_shape_cases(ctx):
    ctx.rule("C16.R1", "no constant subscript of a recorded shape is reachable for the scalar shape ()", 1)
    cls = ctx.ix.find_class(CLS, "individual_parameters")
    n = 0
    for b in ctx.ix.classes[cls].body:
        if not isinstance(b, ast.FunctionDef):
            continue
        f = ctx.ix.funcs[(cls[0], f"{cls[1]}.{b.name}")]
        shape_vars = set()
        for x in ast.walk(b):
            if isinstance(x, (ast.For, ast.comprehension)) and U(x.iter) in ("self._parameters_shape.items()", "ip._parameters_shape.items()", "self._parameters_shape.values()"):
                t = x.target
                if isinstance(t, ast.Tuple) and len(t.elts) == 2:
                    shape_vars.add(U(t.elts[1]))
                elif isinstance(t, ast.Name):
                    shape_vars.add(t.id)
        for x in ast.walk(b):
            if isinstance(x, ast.Subscript) and isinstance(x.ctx, ast.Load) and U(x.value) in shape_vars and isinstance(x.slice, ast.Constant) and isinstance(x.slice.value, int):
                n += 1
                sv = U(x.value)
                chain = _branch_chain(b, x)
                excluded = False
                for test, taken in chain:
                    v = _tri(test, {sv: ()})
                    if v is not None and bool(v) != taken:
                        excluded = True
                ctx.check(excluded, "C16.R1", f, x, f"`{U(x)}` only evaluated when {sv} != () ({len(chain)} enclosing tests evaluated with {sv}=())",
                          f"`{U(x)}` is reachable with {sv} == (): scalar-shaped parameters (LME, constant model) raise IndexError in {b.name}")
    if n == 0:
        ctx.ok("C16.R1", (MOD, CLS), None, "no constant subscript of a recorded shape in the class", construct="shape subscripts")


def r2_validate_before_commit(ctx):
    ctx.rule("C16.R2", "add_individual_parameters: five refusals, all dominating every commit", 7)
    f = ctx.ix.func(MOD, f"{CLS}.add_individual_parameters", "C16.R2")
    cfg = CFG(f.node)
    raises = cfg.nodes(lambda s: isinstance(s, ast.Raise))
    commits = []
    for n, st in cfg.stmt.items():
        if st is None:
            continue
        if isinstance(st, ast.Expr) and isinstance(st.value, ast.Call) and U(st.value.func) == "self._indices.append":
            commits.append((n, "identifier appended"))
        if isinstance(st, ast.Assign) and U(st.targets[0]).startswith("self._individual_parameters["):
            commits.append((n, "values stored"))
        if isinstance(st, ast.Assign) and U(st.targets[0]) == "self._parameters_shape":
            commits.append((n, "shapes recorded"))
    if len(commits) < 3:
        raise AnalysisError("C16.R2", f"anchor vanished: commits of add_individual_parameters ({len(commits)} found)")
    kinds = {("not isinstance(", ", str)"): "non-string identifier", (" in self._indices",): "duplicate identifier", ("not isinstance(", ", dict)"): "non-dictionary",
             ("scalar_type", " not in "): "unsupported value type", ("self._parameters_shape", " != "): "inconsistent shapes"}
    seen = set()
    for r in raises:
        st = cfg.stmt[r]
        cls = raised_class_name(st)
        gs = cfg.if_guards(r)
        test = U(cfg.stmt[gs[-1][0]].test) if gs else ""
        for k, v in kinds.items():
            if all(tok in test for tok in k):
                seen.add(v)
        ctx.check(cls == "LeaspyIndividualParamsInputError", "C16.R2", f, st, f"refusal ({test[:50]}) raises LeaspyIndividualParamsInputError",
                  f"refusal raises {cls}, not LeaspyIndividualParamsInputError")
        hdr = gs[-1][0] if gs else r
        for c, what in commits:
            # every commit comes after this validation: the commit is not reachable without passing the validation's test
            ok = cfg.dominates(hdr, c) or _loop_header_dominates(cfg, hdr, c)
            ctx.check(ok, "C16.R2", f, cfg.stmt[c], f"{what} only after the check `{test[:40]}`",
                      f"{what} can happen before the check `{test[:60]}` ran: a refused entry leaves the container partly modified", instance=test[:40])
    missing = sorted(set(kinds.values()) - seen)
    ctx.check(not missing, "C16.R2", f, f.node, "all five documented refusals present", f"refusal(s) no longer present: {missing}", construct="refusal inventory")
    # what "unsupported value type" means: the Python type of the value - of the first element for a list - must be a plain number type.
    # (A nested list or a 2-D array is refused because its first element is a list; a test on a numpy dtype would accept it, with a
    # recorded shape (len(v),) that misdescribes what is stored.)
    from ..astq import Canon, unify
    L = Canon(f.node).lines(False, True)
    b = unify(L, ["?vt = [...]", "?st = type(?v)", "if isinstance(?v, list)", "?st = None if len(?v) == 0 else type(?v[0])", "if ?st not in ?vt"])
    in_order = b is not None and all(b[f"#{i}"] < b[f"#{i + 1}"] for i in range(1, 4))
    if in_order:
        wl = [ln for ln in L if ln.startswith(b["vt"] + " = [")][0]
        items = [x.strip() for x in wl[wl.index("[") + 1:wl.rindex("]")].split(",") if x.strip()]
        bad = [x for x in items if x in ("list", "tuple", "np.ndarray", "torch.Tensor", "object", "str", "bool", "type(None)", "dict")]
        ctx.check(not bad, "C16.R2", f, f.node, f"supported value types are plain number types {items}", f"the supported value types include {bad}: nested / non-numeric values are accepted", construct="value-type test")
    else:
        text = "; ".join(ln for ln in L if "scalar_type" in ln or "dtype" in ln or "asarray" in ln)[:400]
        ctx.form("C16.R2", f, f.node, text, set(), ["type("], "value-type test on the Python type of the value / of its first element",
                 "the value-type test no longer looks at the Python type of the value (of its first element for a list): a nested list or a 2-D array has a numeric dtype too and is "
                 "accepted, stored with a recorded shape (len(v),) that misdescribes it", forbidden=[r"asarray\(", r"\.dtype\b", r"np\.array\("], construct="value-type test")


def _loop_header_dominates(cfg, hdr, c):
    """A validation inside a loop dominates a commit placed after the loop when the loop header dominates the commit and the
    raise is inside the loop body (every iteration is validated before the loop can exit normally)."""
    for h, k in cfg.kind.items():
        if k == "loop" and cfg.dominates(h, hdr) and cfg.dominates(h, c) and not cfg.reachable(c, h):
            return True
    return False


def r2b_values_stored_as_given(ctx, rid="C16.R2b"):
    """What is stored for an individual is what was handed in (arrays turned into lists, nothing else): no element is re-cast, rounded or
    re-typed on the way (`[1, -0.6]` must not become `[1, 0]`)."""
    import re as _re
    from ..astq import Canon
    ctx.rule(rid, "add_individual_parameters stores the values it was given (the only rewriting is ndarray -> list)", 2)
    f = ctx.ix.func(MOD, f"{CLS}.add_individual_parameters", rid)
    L = Canon(f.node).lines(False, True)
    rebinds = [ln for ln in L if ln.startswith("$2 = ")]
    ok_conv = [ln for ln in rebinds if _re.fullmatch(r"\$2 = \{(%\d+): (%\d+)\.tolist\(\) if isinstance\(\2, np\.ndarray\) else \2 for \1, \2 in \$2\.items\(\)\}", ln)]
    for ln in rebinds:
        if ln in ok_conv:
            ctx.ok(rid, f, f.node, "numpy arrays are turned into lists, every other value is kept as it is", construct="ndarray -> list")
        else:
            ctx.form(rid, f, f.node, ln, set(), ["$2.items()"], "", "the dictionary of values is rewritten before being stored", forbidden=[r"\bint\(", r"\bfloat\(", r"round\(", r"astype\("],
                     construct="values rewritten")
    stores = [ln for ln in L if _re.match(r"\$2\[[^\]]+\] = ", ln)]
    for ln in stores:
        ctx.violation(rid, f, f.node, f"`{ln[:90]}` rewrites a value of the individual before it is stored: the container does not hold what it was given "
                      "(e.g. the elements of a list re-cast to the type of its first element: [1, -0.6] -> [1, 0])", construct="values rewritten")
    commit = [ln for ln in L if ln == "$0._individual_parameters[$1] = $2"]
    ctx.anchor(bool(commit), rid, f, f.node, "the (validated) dictionary itself is what is stored", "commit of the individual's values", construct="values committed")
    # ... and it is the container's own dictionary: the re-building above (a new dict) runs on every path to the commit, so that the caller's
    # dictionary - which a caller may well re-use for the next individual - is never the object stored
    from ..cfg import CFG
    cfg = CFG(f.node)
    p_ = [a.arg for a in f.node.args.args]
    if len(p_) >= 3:
        vals = p_[2]
        fresh = [n for n, st in cfg.stmt.items() if isinstance(st, ast.Assign) and len(st.targets) == 1 and U(st.targets[0]) == vals
                 and (isinstance(st.value, (ast.DictComp, ast.Dict)) or (isinstance(st.value, ast.Call) and (U(st.value.func) in ("dict", "copy.copy", "copy.deepcopy") or (isinstance(st.value.func, ast.Attribute) and st.value.func.attr == "copy"))))]
        stores_ = [n for n, st in cfg.stmt.items() if isinstance(st, ast.Assign) and isinstance(st.targets[0], ast.Subscript) and U(st.targets[0].value) == "self._individual_parameters" and U(st.value) == vals]
        if stores_:
            okc = bool(fresh) and all(cfg.all_paths_pass(cfg.entry, fresh, end=s_) for s_ in stores_)
            gs = [("" if lab else "not ") + U(cfg.stmt[h].test)[:60] for n in fresh for h, lab in cfg.if_guards(n) if any(x is cfg.stmt[n] for x in ast.walk(cfg.stmt[h]))]
            ctx.check(okc, rid, f, cfg.stmt[stores_[0]], "what is stored is a dictionary built by the container on every path",
                      "the caller's own dictionary is stored" + (f" unless `{gs[0]}`" if gs else "") + ": a caller that fills one working dictionary per individual ends with every individual "
                      "sharing the last values written", construct="own copy stored")


def r3_codec(ctx):
    ctx.rule("C16.R3", "table codec: writer `<name>_<i>` vs reader split; single-column case vs writer shape cases", 2)
    w = ctx.ix.func(MOD, f"{CLS}.to_dataframe", "C16.R3")
    r = ctx.ix.func(MOD, f"{CLS}.from_dataframe", "C16.R3")
    # writer: name + sep + str(i)
    sep = None
    for x in ast.walk(w.node):
        if isinstance(x, ast.BinOp) and isinstance(x.op, ast.Add) and isinstance(x.left, ast.BinOp) and isinstance(x.left.right, ast.Constant) and isinstance(x.left.right.value, str) \
                and U(x.right).startswith("str("):
            sep = x.left.right.value
        if isinstance(x, ast.JoinedStr) and len(x.values) == 3 and isinstance(x.values[1], ast.Constant):
            sep = x.values[1].value
    if sep is None:
        raise AnalysisError("C16.R3", "anchor vanished: column naming `<name> + sep + str(i)` in to_dataframe")
    # reader
    splits = [x for x in ast.walk(r.node) if isinstance(x, ast.Call) and isinstance(x.func, ast.Attribute) and x.func.attr in ("split", "rsplit", "rpartition", "partition")]
    if not splits:
        ctx.violation("C16.R3", r, r.node, "the reader no longer splits column names", construct="def from_dataframe")
        return
    for s in splits:
        m = s.func.attr
        arg = s.args[0].value if s.args and isinstance(s.args[0], ast.Constant) else None
        last = m in ("rpartition",) or (m == "rsplit" and len(s.args) > 1 and U(s.args[1]) == "1")
        parent_idx = None
        for x in ast.walk(r.node):
            if isinstance(x, ast.Subscript) and x.value is s and isinstance(x.slice, ast.Constant):
                parent_idx = x.slice.value
        good = arg == sep and last
        ctx.check(good, "C16.R3", r, s, f"reader splits on the last `{sep}` (the one the writer appended)",
                  f"writer appends `{sep}<i>` after the name (last separator) but the reader takes `name.{m}('{arg}')[{parent_idx}]`: a parameter whose own name contains `{sep}` "
                  f"(e.g. random_intercept) is read back under another name")
        if good:
            digit = any(isinstance(x, ast.Call) and isinstance(x.func, ast.Attribute) and x.func.attr in ("isdigit", "isdecimal", "isnumeric") for x in ast.walk(r.node))
            ctx.check(digit, "C16.R3", r, s, "a suffix is a vector index only when it is an integer", "any suffix after the separator is taken for a vector index", construct="integer suffix test")
    # what the writer appends is decided column by column: whether a column is a component depends on its own name only (prefix non-empty,
    # integer suffix) - a test on how many columns share the prefix reads the single `sources_0` column of a one-source model back under another name
    tests_ = [t for t in ast.walk(r.node) if isinstance(t, ast.If) and any(isinstance(x, ast.Call) and isinstance(x.func, ast.Attribute) and x.func.attr in ("isdigit", "isdecimal", "isnumeric") for x in ast.walk(t.test))]
    for t in tests_:
        names_in_test = {x.id for x in ast.walk(t.test) if isinstance(x, ast.Name)}
        split_vars = set()
        for st_ in ast.walk(r.node):
            if isinstance(st_, ast.Assign) and isinstance(st_.value, ast.Call) and st_.value in splits:
                for tg in st_.targets:
                    split_vars |= {x.id for x in ast.walk(tg) if isinstance(x, ast.Name)}
        extra = sorted(names_in_test - split_vars)
        ctx.check(not extra, "C16.R3", r, t, "component test reads the parts of the column's own name only",
                  f"whether a column `<name>_<i>` is a component also depends on {extra} (`{U(t.test)[:80]}`): a column that the writer produced for a length-1 vector (`sources_0`) "
                  "is read back as a parameter of that very name", construct="component test on the name alone")
    # single-column case: what shape comes back ?
    singles = [x for x in ast.walk(r.node) if isinstance(x, ast.IfExp) and isinstance(x.test, ast.Call) and U(x.test.func) == "isinstance" and len(x.test.args) == 2 and U(x.test.args[1]) == "list"]
    for x in singles:
        single = x.orelse
        is_list = isinstance(single, ast.Call) and U(single.func) in ("np.array", "list") and single.args and isinstance(single.args[0], ast.List)
        ctx.check(not is_list, "C16.R3b", r, x, "a single column is read back as a scalar",
                  "a parameter stored in a single column always comes back as a length-1 vector: scalar-shaped parameters (shape ()) return with shape (1,) after a table / CSV round trip "
                  "(the table layout cannot tell () from (1,))", construct="single-column case of from_dataframe")
    ctx.rule("C16.R3b", "shape cases of the writer are reproduced by the reader", 1)
    # (c) component order: the writer emits `<name>_0 .. <name>_{n-1}` in this order; the reader must take the columns of a vector
    # in table order (or by their integer suffix) - a name sort puts `_10` before `_2`
    from ..astq import Canon, unify
    ctx.rule("C16.R3c", "components of a vector-valued parameter keep the writer's order", 2)
    cr = Canon(r.node)
    L = cr.lines(False, True)
    b = unify(L, ["?cols = list($0.columns.values)", "for (?cols, ?c)", "?groups[?g].append(?c)", "?groups[?g] = []"]) or unify(L, ["for ($0.columns, ?c)", "?groups[?g].append(?c)", "?groups[?g] = []"]) \
        or unify(L, ["?cols = list($0.columns)", "for (?cols, ?c)", "?groups[?g].append(?c)", "?groups[?g] = []"])
    if b is None:
        ctx.unknown("C16.R3c", r, r.node, "the reader no longer collects the component columns by appending them while iterating the table's columns", construct="component collection")
    else:
        ctx.ok("C16.R3c", r, r.node, "component columns appended in the order of the table's columns", construct="component collection")
        gname = cr.real_name(b["groups"])
        derived = {gname, cr.real_name(b.get("cols", "")) or gname}
        for _ in range(2):
            for n in ast.walk(r.node):
                it, tg = None, None
                if isinstance(n, (ast.For, ast.comprehension)):
                    it, tg = n.iter, n.target
                if it is not None and any(isinstance(x, ast.Name) and x.id in derived for x in ast.walk(it)):
                    derived |= {x.id for x in ast.walk(tg) if isinstance(x, ast.Name)}
                if isinstance(n, ast.Assign) and len(n.targets) == 1 and isinstance(n.targets[0], ast.Name) and any(isinstance(x, ast.Name) and x.id in derived for x in ast.walk(n.value)) \
                        and isinstance(n.value, (ast.Subscript, ast.Name, ast.Call)) and n.targets[0].id not in (cr.real_name(b.get("c", "")) or "",):
                    if isinstance(n.value, (ast.Subscript, ast.Name)):
                        derived.add(n.targets[0].id)
        bad = []
        for n in ast.walk(r.node):
            if not isinstance(n, ast.Call):
                continue
            fn_ = U(n.func)
            recv = n.func.value if isinstance(n.func, ast.Attribute) else None
            args = list(n.args)
            reorders = (isinstance(n.func, ast.Attribute) and n.func.attr in ("sort", "reverse") and recv is not None and any(isinstance(x, ast.Name) and x.id in derived for x in ast.walk(recv))) \
                or (fn_ in ("sorted", "reversed", "set", "frozenset", "random.shuffle", "shuffle", "np.sort", "np.unique") and any(isinstance(x, ast.Name) and x.id in derived for a in args for x in ast.walk(a)))
            by_index = any(k.arg == "key" and "int(" in U(k.value) for k in n.keywords)
            if reorders and not by_index:
                bad.append(n)
        for n in bad:
            ctx.violation("C16.R3c", r, n, f"`{U(n)[:60]}` re-orders the component columns of a vector-valued parameter by something else than their integer suffix "
                          "(a name sort puts `_10` before `_2`): the components of vectors with more than 10 entries come back permuted")
        if not bad:
            ctx.ok("C16.R3c", r, r.node, f"no re-ordering of the collected columns ({sorted(x for x in derived if x)})", construct="component order kept")


def r3d_rows_follow_the_column_names(ctx):
    """`to_dataframe`: the column names are generated from `_parameters_shape`, in its order; the values of each row are therefore looked up
    *by name* in that same order (`indiv_p[p_name]` inside a loop over `_parameters_shape`) - a row built from the individual's own dictionary
    order puts values under other names as soon as one individual lists its parameters in another order."""
    from ..astq import Canon, unify
    ctx.rule("C16.R3d", "to_dataframe: row values are looked up by parameter name, in the order the column names are generated", 1)
    f = ctx.ix.func(MOD, f"{CLS}.to_dataframe", "C16.R3d")
    ctx.analysed(f)
    L = Canon(f.node).lines(False, True)
    b = unify(L, ["for ($0._indices, ?i)", "?row = [?i]", "?ip = $0._individual_parameters[?i]", "for ($0._parameters_shape.items(), (?n, ?s))", "?row.append(?ip[?n])", "?row += ?ip[?n]", "?all.append(?row)"])
    b2 = unify(L, ["for ($0._indices, ?i)", "?row = [?i]", "for ($0._parameters_shape.items(), (?n, ?s))", "?row.append($0._individual_parameters[?i][?n])", "?row += $0._individual_parameters[?i][?n]", "?all.append(?row)"])
    okb = (b is not None and b["#0"] < b["#3"] < b["#4"] and b["#3"] < b["#5"] < b["#6"]) or (b2 is not None and b2["#0"] < b2["#2"] < b2["#3"] and b2["#2"] < b2["#4"] < b2["#5"])
    text = "; ".join(L[:10])
    ctx.form("C16.R3d", f, f.node, text, {text} if okb else set(), ["$0._parameters_shape", "$0._individual_parameters["], "row values taken by name over _parameters_shape",
             "the values of a row are no longer looked up by name in the order of `_parameters_shape` (the order of the column names): an individual whose dictionary lists its parameters in "
             "another order gets its values under the wrong names", forbidden=[r"_individual_parameters\[[^\]]+\]\.values\(\)", r"_individual_parameters\[[^\]]+\]\.items\(\)", r"%\d+\.values\(\)"],
             construct="rows by name")


def r4_tensor_json(ctx):
    ctx.rule("C16.R4", "tensor and JSON forms: shapes, length check, key agreement, string identifiers", 5)
    tp = ctx.ix.func(MOD, f"{CLS}.to_pytorch", "C16.R4")
    resh = [c for c in ast.walk(tp.node) if isinstance(c, ast.Call) and isinstance(c.func, ast.Attribute) and c.func.attr in ("reshape", "view")]
    ok = any(any("len(self._indices)" in U(a) for a in list(c.args) + [k.value for k in c.keywords]) for c in resh)
    ctx.check(ok, "C16.R4", tp, resh[0] if resh else tp.node, "tensor reshaped to (n_individuals, size)", "to_pytorch no longer reshapes to (n_individuals, parameter size)")
    f32 = any(isinstance(c, ast.Call) and U(c.func) == "torch.tensor" and any(k.arg == "dtype" and U(k.value) == "torch.float32" for k in c.keywords) for c in ast.walk(tp.node))
    ctx.check(f32, "C16.R4", tp, tp.node, "float32 tensors", "to_pytorch no longer builds float32 tensors", construct="dtype of to_pytorch")
    it = [x for x in ast.walk(tp.node) if isinstance(x, ast.comprehension) and U(x.iter) == "self._indices"]
    ctx.check(bool(it) and "return (self._indices" in U(tp.node).replace("return self._indices", "return (self._indices"), "C16.R4", tp, tp.node,
              "rows follow the recorded identifier order, identifiers returned alongside", "rows of to_pytorch do not follow self._indices", construct="row order of to_pytorch")
    fp = ctx.ix.func(MOD, f"{CLS}.from_pytorch", "C16.R4")
    cfg = CFG(fp.node)
    rs = [s for s in statements(fp.node) if isinstance(s, ast.Raise)]
    ok = any(raised_class_name(s) == "LeaspyIndividualParamsInputError" for s in rs) and any("len(indices)" in U(cfg.stmt[h].test) for r in cfg.nodes(lambda s: isinstance(s, ast.Raise)) for h, _ in cfg.if_guards(r))
    ctx.check(ok, "C16.R4", fp, rs[0] if rs else fp.node, "length mismatch refused", "from_pytorch no longer refuses tensors whose length differs from the identifiers")
    from ._shared import refusal_side_conditions
    for r in cfg.nodes(lambda s: isinstance(s, ast.Raise)):
        if any("len(indices)" in U(cfg.stmt[h].test) and lab for h, lab in cfg.if_guards(r)):
            for st_, g_, kind in refusal_side_conditions(cfg, r, lambda g: "len(indices)" in g, U):
                ctx.violation("C16.R4", fp, st_, f"the refusal of a length mismatch {kind} `{g_[:80]}`: some mismatching tensors are accepted", construct="length check unconditional")
    sj = ctx.ix.func(MOD, f"{CLS}._save_json", "C16.R4")
    lj = ctx.ix.func(MOD, f"{CLS}._load_json", "C16.R4")
    wkeys, wmap = set(), {}
    for x in ast.walk(sj.node):
        if isinstance(x, ast.Dict) and all(isinstance(k, ast.Constant) for k in x.keys) and any(U(v).startswith("self._") for v in x.values):
            wkeys = {k.value for k in x.keys}
            wmap = {k.value: U(v) for k, v in zip(x.keys, x.values)}
    jvars = [U(st.targets[0]) for st in statements(lj.node) if isinstance(st, ast.Assign) and isinstance(st.value, ast.Call) and U(st.value.func) in ("json.load", "json.loads")]
    if not jvars:
        raise AnalysisError("C16.R4", "anchor vanished: json.load(...) in IndividualParameters._load_json")
    if not wmap:
        raise AnalysisError("C16.R4", "anchor vanished: the dictionary written by IndividualParameters._save_json")
    jv = jvars[0]
    rkeys = {x.slice.value for x in ast.walk(lj.node) if isinstance(x, ast.Subscript) and U(x.value) == jv and isinstance(x.slice, ast.Constant)}
    ctx.check(wkeys == rkeys and len(wkeys) == 3, "C16.R4", lj, lj.node, f"JSON keys written == keys read: {sorted(wkeys)}", f"JSON writer keys {sorted(wkeys)} != reader keys {sorted(rkeys)}",
              construct="json key sets")
    rmap = {}
    for st in statements(lj.node):
        if isinstance(st, ast.Assign) and isinstance(st.value, ast.Subscript) and U(st.value.value) == jv and isinstance(st.targets[0], ast.Attribute):
            rmap[st.value.slice.value] = "self." + st.targets[0].attr
    ctx.check(all(rmap.get(k) == v for k, v in wmap.items()), "C16.R4", lj, lj.node, "each key is read back into the attribute it was written from",
              f"JSON reader/writer attribute mapping differs: {wmap} vs {rmap}", construct="json key -> attribute")
    tup = any(isinstance(x, ast.Call) and U(x.func) == "tuple" for x in ast.walk(lj.node))
    ctx.check(tup, "C16.R4", lj, lj.node, "shapes re-tupled after JSON", "shapes read from JSON stay lists: they never compare equal to recorded tuple shapes", construct="json shapes re-tupled")
    lc = ctx.ix.func(MOD, f"{CLS}._load_csv", "C16.R4")
    rd = [c for c in ast.walk(lc.node) if isinstance(c, ast.Call) and U(c.func) == "pd.read_csv"]
    ok = bool(rd) and any(k.arg == "dtype" and "'ID'" in U(k.value) and ("IDType" in U(k.value) or "str" in U(k.value)) for k in rd[0].keywords)
    ctx.check(ok, "C16.R4", lc, rd[0] if rd else lc.node, "CSV identifiers read as strings", "CSV identifiers are not forced to strings: numeric-looking identifiers change type")


def r4b_from_pytorch_keeps_shapes(ctx):
    """'shapes preserved, for scalar and vector-valued parameters alike': `from_pytorch` takes the value of individual i as `tensor[i].tolist()` -
    a scalar for a 1-D tensor, a list for a 2-D one.  Re-shaping the tensor first (`reshape(n, -1)`) gives every scalar parameter the shape (1,)."""
    from ..astq import Canon
    import re as _re
    ctx.rule("C16.R4b", "from_pytorch: the value of individual i is `tensor[i].tolist()` (no re-shaping of the tensors)", 1)
    f = ctx.ix.func(MOD, f"{CLS}.from_pytorch", "C16.R4b")
    ctx.analysed(f)
    L = Canon(f.node).lines(False, True)
    text = "; ".join(ln for ln in L if ".tolist()" in ln or "add_individual_parameters" in ln or "reshape" in ln or ".view(" in ln)
    ok = any(_re.search(r"\{(%\d+): \$1\[\1\]\[(%\d+)\]\.tolist\(\) for \1 in (%\d+|\$1(\.keys\(\))?|list\(\$1(\.keys\(\))?\))\}", ln) for ln in L)
    ctx.form("C16.R4b", f, f.node, text, {text} if ok else set(), [".tolist()", "add_individual_parameters("], "per-individual value = tensor[i].tolist()",
             "from_pytorch no longer takes the per-individual values as `tensor[i].tolist()`: the shape of a parameter given as a 1-D tensor (a scalar per individual) is not preserved",
             forbidden=[r"\.reshape\(", r"\.view\(", r"\.flatten\(", r"\.unsqueeze\(", r"atleast_"], construct="per-individual values")


def r5_exact_export(ctx):
    """'convert losslessly': the table / CSV / JSON writers export the values with every digit they have (pandas and json write the
    shortest exact representation of a double by default) - no default float format, rounding or narrowing cast."""
    ctx.rule("C16.R5", "the writers of the container export values unchanged (no float_format, rounding or narrowing cast)", 3)
    LOSSY_KW = ("float_format", "decimals", "double_precision", "precision")
    for name in ("_save_csv", "_save_json", "to_dataframe", "save"):
        f = ctx.ix.func(MOD, f"{CLS}.{name}", "C16.R5")
        bad = None
        for n in ast.walk(f.node):
            if isinstance(n, ast.Call):
                fn_ = U(n.func)
                if any(k.arg in LOSSY_KW for k in n.keywords) or fn_.split(".")[-1] in ("round", "around", "format_float_positional", "format_float_scientific") or fn_ in ("round",):
                    bad = n
            if isinstance(n, ast.Dict) and any(isinstance(k, ast.Constant) and k.value in LOSSY_KW for k in n.keys):
                bad = n
            if isinstance(n, ast.Constant) and isinstance(n.value, str) and ("%." in n.value or ":." in n.value) and any(c in n.value for c in "gfe") and len(n.value) < 12:
                bad = n
        ctx.check(bad is None, "C16.R5", f, bad if bad is not None else f.node, f"{name}: values exported with all their digits",
                  f"`{U(bad)[:70] if bad is not None else ''}` makes {name} write the values with a reduced precision: a save / load round trip no longer gives the values back")


def r6_readers_keep_everything(ctx):
    """'names, shapes and values are preserved': what a reader gets from the file / table is handed on whole - no row or column is dropped
    on the way (a column that is NaN for every stored individual is still a component of a parameter)."""
    ctx.rule("C16.R6", "the readers of the container drop no row or column of what they read (no dropna / drop / usecols / nrows ...)", 4)
    DROPPING = {"dropna", "drop", "drop_duplicates", "filter", "select_dtypes", "truncate", "head", "tail", "sample", "nlargest", "nsmallest", "query"}
    DROPPING_KW = {"usecols", "nrows", "skiprows", "skipfooter", "index_col", "na_values", "on_bad_lines", "comment"}
    for name in ("_load_csv", "_load_json", "load", "from_dataframe"):
        f = ctx.ix.func(MOD, f"{CLS}.{name}", "C16.R6")
        bad = None
        for n in ast.walk(f.node):
            if isinstance(n, ast.Call) and isinstance(n.func, ast.Attribute):
                if n.func.attr in DROPPING:
                    bad = n
                if n.func.attr in ("read_csv", "read_table", "read_json") and any(k.arg in DROPPING_KW for k in n.keywords):
                    bad = n
        ctx.check(bad is None, "C16.R6", f, bad if bad is not None else f.node, f"{name}: every row and column read is handed on",
                  f"`{U(bad)[:80] if bad is not None else ''}` makes {name} leave out rows / columns of what was stored: a parameter (or a component of a vector-valued one) can disappear on "
                  "a save / load round trip", construct=f"{name}: nothing dropped")


def rules(ctx):
    r2b_values_stored_as_given(ctx)
    r1_shape_cases(ctx)
    r2_validate_before_commit(ctx)
    r3_codec(ctx)
    r3d_rows_follow_the_column_names(ctx)
    r4_tensor_json(ctx)
    r4b_from_pytorch_keeps_shapes(ctx)
    r5_exact_export(ctx)
    r6_readers_keep_everything(ctx)
    ctx.trust("pandas DataFrame / json round trip of Python scalars and lists")


F = "src/leaspy/io/outputs/individual_parameters.py"
VARIANTS = [
    V("scalar-shape-subscripted", F, "if p_shape == () or (p_shape == (1,) and \"source\" not in p_name):", "if p_shape == (1,) and \"source\" not in p_name:", "C16.R1"),
    V("commit-before-shape-check", F, "        self._indices.append(index)\n        self._individual_parameters[index] = individual_parameters\n", "",
      "ANALYSIS-ERROR"),
    V("append-before-validation", F, "        if index in self._indices:\n", "        self._indices.append(index) if False else None\n        if index in self._indices:\n", None),
    V("duplicate-not-refused", F, "        if index in self._indices:\n            raise LeaspyIndividualParamsInputError(\n                f\"The index {index} has already been added before\"\n            )\n", "", "C16.R2"),
    V("wrong-exception", F, "raise LeaspyIndividualParamsInputError(\n                f\"The index {index} has already been added before\"", "raise KeyError(\n                f\"The index {index} has already been added before\"", "C16.R2"),
    V("json-shape-key-renamed", F, "\"parameters_shape\": self._parameters_shape,", "\"shapes\": self._parameters_shape,", "C16.R4"),
    V("csv-ids-not-str", F, "df = pd.read_csv(path, dtype={\"ID\": IDType}).set_index(\"ID\")", "df = pd.read_csv(path).set_index(\"ID\")", "C16.R4"),
    V("split-first-underscore", F, "split, _, suffix = name.rpartition(\"_\")", "split, _, suffix = name.partition(\"_\")", "C16.R3"),
    V("suffix-not-checked", F, "if split == \"\" or not suffix.isdigit():", "if split == \"\":", "C16.R3"),
    V("no-length-check", F, "            if v != len(indices):\n", "            if False:\n", "C16.R4"),
    V("silent-rename-pshapes", F, "pshapes", "shapes", None, count=4),
]
