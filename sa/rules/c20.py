"""C20 - benchmark models implement their documented estimators (partial: dispatch, tables, formula shapes)."""
from __future__ import annotations

import ast

import sympy as sp

from ..astq import Canon, Inliner, U, kwarg, statements
from ..cfg import CFG, header_walk
from ..index import AnalysisError, walk_no_nested
from ..normalform import NFUnsupported, Normalizer, equal
from ..selftest import V

PROP = "C20"
LEVEL_TEXT = (
    "Static check of the two benchmark models: (R1) constant model - every PredictionType member is handled by _get_feature_values (exhaustiveness over the enum), "
    "MAX <-> nanmax over the visit axis, MEAN <-> nanmean over the visit axis, LAST <-> the row of the largest age, LAST_KNOWN <-> first non-NaN per feature in "
    "age-descending order; the personalisation keys the values by the model's features and the model reads them back by the same features and repeats them once per "
    "requested age; (R2) LME - every parameter read by the personalisation / the trajectory is written by the fit (writer/reader key agreement), the three age "
    "normalisations (fit, personalise, estimate) share the normal form (age - ages_mean)/ages_std, the random effects are inv(Z'Z + C) Z' r in non-commutative normal "
    "form with C the inverse of the fitted unscaled covariance, the intercept-only shortcut is sum(r)/(n + c), residuals are y - X fe, and the trajectory is X (fe + re) "
    "with X = [1, age_norm] and a zero random slope when the model has none. NOT decided: numpy NaN semantics, agreement with statsmodels' own conditional means "
    "(needs that library at run time), numerical accuracy."
)

CA = "leaspy.algo.personalize.constant_prediction_algo"
LP = "leaspy.algo.personalize.lme_personalize"
LF = "leaspy.algo.fit.lme_fit"


def r1_constant(ctx):
    ctx.rule("C20.R1", "constant model: prediction-type dispatch and key agreement", 8)
    ix = ctx.ix
    enum = ix.find_class("PredictionType")
    members = [n for n, _ in ix.enum_members(enum)]
    f = ix.func(CA, "ConstantPredictionAlgorithm._get_feature_values", "C20.R1")
    cfg = CFG(f.node)
    handled = {}
    for n, st in cfg.stmt.items():
        if isinstance(st, ast.If) and isinstance(st.test, ast.Compare) and U(st.test.left) == "self.prediction_type" and isinstance(st.test.ops[0], ast.Eq):
            m = U(st.test.comparators[0]).split(".")[-1]
            rets = [b for b in st.body if isinstance(b, ast.Return)]
            handled[m] = rets[0].value if rets else None
    tail = [st for st in f.node.body if isinstance(st, ast.Return)]
    unhandled = [m for m in members if m not in handled]
    ctx.check(len(unhandled) <= 1 and bool(tail), "C20.R1", f, f.node, f"members {sorted(handled)} tested, {unhandled} handled by the final branch",
              f"prediction types {unhandled} have no handler (exhaustiveness over PredictionType {members})", construct="exhaustive dispatch")
    if unhandled and tail:
        handled[unhandled[0]] = tail[0].value
    from ..astq import Canon
    cn = Canon(f.node)
    order = "sorted(range(len($1)), key=$1.__getitem__, reverse=True)"
    want = {"MAX": "np.nanmax($2, axis=0)", "MEAN": "np.nanmean($2, axis=0)", "LAST": f"$2[{order}[0]]",
            "LAST_KNOWN": f"$2[{order}][(~np.isnan($2[{order}])).argmax(axis=0), range($2.shape[1])]"}
    alt = {"LAST": {f"$2[{order}][0]"}, "MAX": {"np.nanmax($2, 0)"}, "MEAN": {"np.nanmean($2, 0)"}}
    for m in members:
        if m not in want:
            ctx.unknown("C20.R1", f, f.node, f"new prediction type {m}: no documented estimator to compare with", construct=f"prediction type {m}")
            continue
        got = cn.text(handled[m]) if handled.get(m) is not None else None
        ctx.check(got == want[m] or got in alt.get(m, ()), "C20.R1", f, handled.get(m) or f.node, f"{m} -> {want[m]}   ($1 = times, $2 = values)",
                  f"prediction type {m} returns `{got}`; documented `{want[m]}` ($1 = times, $2 = values)", construct=f"prediction type {m}")
    g = ix.func(CA, "ConstantPredictionAlgorithm._get_individual_last_values", "C20.R1")
    ctx.check("dict(zip(features, self._get_feature_values(times, values)))" in U(g.node), "C20.R1", g, g.node, "values keyed by the feature names", "values are no longer keyed by the feature names")
    h = ix.func(CA, "ConstantPredictionAlgorithm._compute_individual_parameters", "C20.R1")
    hs = U(h.node)
    ok = "features=model.features" in hs and "dataset.get_times_patient(individual)" in hs and "dataset.get_values_patient(individual)" in hs and "str(idx)" in hs and "idx = dataset.indices[individual]" in hs
    ctx.check(ok, "C20.R1", h, h.node, "each individual's own visits, keyed by its identifier and the model's features", "the personalisation no longer uses each individual's own visits / identifier / the model's features")
    m = ix.func("leaspy.models.constant", "ConstantModel.compute_individual_trajectory", "C20.R1")
    rets = Canon(m.node).returns()
    ok = len(rets) == 1 and rets[0].replace(" ", "") in ("torch.tensor([[[$2[f]forfin$0.features]]*len($1)],dtype=torch.float32)",)
    ctx.check(ok, "C20.R1", m, m.node, "the stored values (read by the same feature names) repeated once per requested age", "the constant trajectory is no longer the stored per-feature values repeated for each requested age")
    c = ix.func(CA, "ConstantPredictionAlgorithm.__init__", "C20.R1")
    ctx.check("PredictionType(settings.parameters['prediction_type'])" in U(c.node), "C20.R1", c, c.node, "prediction type validated through the enum", "the prediction type is no longer validated through PredictionType(...)")


def _nc(expr_node, env):
    """non-commutative normal form of numpy linear-algebra expressions (np.dot / @ / .T / np.linalg.inv)."""
    class N(Normalizer):
        def tosym(self, e):
            t = U(e)
            if t in env:
                return env[t]
            if isinstance(e, ast.Attribute) and e.attr == "T":
                b = self.tosym(e.value)
                return sp.Symbol(str(b) + "_T", commutative=False)
            if isinstance(e, ast.Call):
                fn = U(e.func)
                if fn == "np.dot" and len(e.args) == 2:
                    return self.tosym(e.args[0]) * self.tosym(e.args[1])
                if fn == "np.linalg.inv" and len(e.args) == 1:
                    return self.tosym(e.args[0]) ** -1
            if isinstance(e, ast.BinOp) and isinstance(e.op, ast.MatMult):
                return self.tosym(e.left) * self.tosym(e.right)
            return super().tosym(e)
    return N({})(expr_node)


def r2_lme(ctx):
    ctx.rule("C20.R2", "LME: parameter tables, age normalisation, random-effects formula, trajectory", 9)
    ix = ctx.ix
    fit = ix.func(LF, "LMEFitAlgorithm._run", "C20.R2")
    written = set()
    for x in ast.walk(fit.node):
        if isinstance(x, ast.Assign) and U(x.targets[0]) == "parameters" and isinstance(x.value, ast.Dict):
            written = {k.value for k in x.value.keys if isinstance(k, ast.Constant)}
    if not written:
        raise AnalysisError("C20.R2", "anchor vanished: `parameters = {...}` of the LME fit")
    ctx.check("model.load_parameters(parameters)" in U(fit.node), "C20.R2", fit, fit.node, "the fitted parameters are loaded into the model", "the fit no longer loads its parameters into the model", construct="load_parameters")
    readers = [ix.func(LP, "LMEPersonalizeAlgorithm._get_individual_random_effects_and_residuals", "C20.R2"), ix.func("leaspy.models.lme", "LMEModel.compute_individual_trajectory", "C20.R2")]
    for r in readers:
        read = {x.slice.value for x in ast.walk(r.node) if isinstance(x, ast.Subscript) and U(x.value) in ("model.parameters", "self.parameters") and isinstance(x.slice, ast.Constant)}
        ctx.check(read <= written, "C20.R2", r, r.node, f"parameters read {sorted(read)} are all written by the fit", f"{r.qual} reads {sorted(read - written)} which the fit never writes (fit writes {sorted(written)})",
                  construct="parameters read vs written")
    # age normalisations
    a, m, s = sp.symbols("age ages_mean ages_std", real=True)
    ref = (a - m) / s
    sites = [
        (fit, "ages_norm", {"ages": a, "ages_mean": m, "ages_std": s}),
        (readers[0], "ages_norm", {"times": a, "model.parameters['ages_mean']": m, "model.parameters['ages_std']": s}),
        (readers[1], "ages_norm", {"np.array(timepoints).reshape(-1)": a, "self.parameters['ages_mean']": m, "self.parameters['ages_std']": s}),
    ]
    for f, var, env in sites:
        st = [x for x in statements(f.node) if isinstance(x, ast.Assign) and U(x.targets[0]) == var]
        if not st:
            ctx.violation("C20.R2", f, f.node, "ages are no longer normalised", construct=f"{var} in {f.name}")
            continue

        class N(Normalizer):
            def tosym(self, e):
                t = U(e)
                if t in env:
                    return env[t]
                return super().tosym(e)
        try:
            got = N({})(st[0].value)
            ctx.check(equal(got, ref), "C20.R2", f, st[0], "(age - ages_mean)/ages_std", f"age normalisation is {got}; the other sites use (age - ages_mean)/ages_std")
        except NFUnsupported as e:
            ctx.unknown("C20.R2", f, st[0], str(e))
    fs = U(fit.node)
    ok = "ages_mean, ages_std = (np.mean(ages).item(), np.std(ages).item())" in fs
    ctx.check(ok, "C20.R2", fit, fit.node, "normalisation constants = mean / std of the training ages", "the stored normalisation constants are no longer the mean / std of the training ages", construct="normalisation constants")
    ok = "cov_re_unscaled_inv = np.linalg.inv(fitted_lme.cov_re_unscaled)" in fs and "'fe_params': fitted_lme.fe_params" in fs
    ctx.check(ok, "C20.R2", fit, fit.node, "C = inverse of the fitted unscaled random-effects covariance; fe = fitted fixed effects", "stored variance components / fixed effects changed", construct="stored components")
    # random effects
    g = ix.func(LP, "LMEPersonalizeAlgorithm._generic_get_random_effects", "C20.R2")
    inl = Inliner(g.node)
    rets = [x for x in statements(g.node) if isinstance(x, ast.Return)]
    Z = sp.Symbol("Z", commutative=False)
    Zt = sp.Symbol("Z_T", commutative=False)
    r = sp.Symbol("resid", commutative=False)
    C = sp.Symbol("cov_re_unscaled_inv", commutative=False)
    try:
        got = _nc(inl.resolve(rets[0].value), {"Z": Z, "resid": r, "cov_re_unscaled_inv": C})
        ref = (Zt * Z + C) ** -1 * (Zt * r)
        ctx.check(sp.expand(got - ref) == 0, "C20.R2", g, rets[0], "random effects = inv(Z'Z + C) Z' r", f"random effects are {got}; documented {ref}")
    except (NFUnsupported, IndexError) as e:
        ctx.unknown("C20.R2", g, g.node, f"random-effects expression outside the supported subset: {e}")
    p = readers[0]
    ps = U(p.node)
    ok = "residuals = values - X @ model.parameters['fe_params']" in ps and "X = sm.add_constant(ages_norm, prepend=True, has_constant='add')" in ps
    ctx.check(ok, "C20.R2", p, p.node, "residuals = y - [1, age_norm] fe", "residuals are no longer y - X fe with X = [1, age_norm]", construct="residuals")
    ok = "random_intercept = np.sum(residuals) / (n + cov_re_unscaled_inv.item())" in ps and "n = len(values)" in ps
    ctx.check(ok, "C20.R2", p, p.node, "intercept-only shortcut = sum(r)/(n + c)", "the intercept-only random effect is no longer sum(r)/(n + c)", construct="intercept-only shortcut")
    ok = "re = cls._generic_get_random_effects(residuals, X, cov_re_unscaled_inv).squeeze()" in ps and "{'random_intercept': re[0], 'random_slope_age': re[1]}" in ps
    ctx.check(ok, "C20.R2", p, p.node, "(intercept, slope) = generic formula with Z = X", "random intercept / slope are no longer the two components of the generic formula with Z = X", construct="intercept and slope")
    ok = "values, times = cls._remove_nans(values, times)" in ps
    ctx.check(ok, "C20.R2", p, p.node, "missing values dropped together with their ages", "missing values are no longer dropped (with their ages) before computing residuals", construct="NaN removal")
    t = readers[1]
    ts = U(t.node)
    trets = Canon(t.node).returns()
    ok = len(trets) == 1 and trets[0] == ("torch.tensor(sm.add_constant((np.array($1).reshape(-1) - $0.parameters['ages_mean']) / $0.parameters['ages_std'], prepend=True, has_constant='add') "
                                          "@ ($0.parameters['fe_params'] + re_params), dtype=torch.float32).reshape((1, -1, 1))")
    ctx.check(ok, "C20.R2", t, t.node, "trajectory = [1, age_norm] (fe + re): a straight line in age", "the LME trajectory is no longer X (fe + re)")
    ok = "re_params = np.array([individual_parameters['random_intercept'].item(), 0])" in ts and "if not self.with_random_slope_age" in ts
    ctx.check(ok, "C20.R2", t, t.node, "random slope forced to 0 when the model has none", "the random slope is not forced to 0 for an intercept-only model", construct="no-slope case")
    ok = "exog_re = X" in fs and "exog_re = None" in fs and "if model.with_random_slope_age" in fs
    ctx.check(ok, "C20.R2", fit, fit.node, "random-effects design = X with a random slope, intercept only otherwise", "the random-effects design of the fit changed", construct="random-effects design")


def rules(ctx):
    r1_constant(ctx)
    r2_lme(ctx)
    ctx.trust("numpy nanmax / nanmean / argmax / fancy indexing semantics; statsmodels MixedLM results (fe_params, cov_re_unscaled)")


C = "src/leaspy/algo/personalize/constant_prediction_algo.py"
P = "src/leaspy/algo/personalize/lme_personalize.py"
VARIANTS = [
    V("max-is-mean", C, "            return np.nanmax(values, axis=0)", "            return np.nanmean(values, axis=0)", "C20.R1"),
    V("mean-wrong-axis", C, "            return np.nanmean(values, axis=0)", "            return np.nanmean(values, axis=1)", "C20.R1"),
    V("last-is-first", C, "sorted(range(len(times)), key=times.__getitem__, reverse=True)", "sorted(range(len(times)), key=times.__getitem__)", "C20.R1"),
    V("last-input-order", C, "            return values[sorted_indices[0]]", "            return values[-1]", "C20.R1"),
    V("lme-no-prior-term", P, "        G = np.linalg.inv(tZZ + cov_re_unscaled_inv)", "        G = np.linalg.inv(tZZ)", "C20.R2"),
    V("lme-intercept-shortcut", P, "random_intercept = np.sum(residuals) / (n + cov_re_unscaled_inv.item())", "random_intercept = np.sum(residuals) / n", "C20.R2"),
    V("lme-norm-mismatch", "src/leaspy/models/lme.py", "        ) / self.parameters[\"ages_std\"]", "        )", "C20.R2"),
    V("lme-slope-kept", "src/leaspy/models/lme.py", "[individual_parameters[\"random_intercept\"].item(), 0]", "[individual_parameters[\"random_intercept\"].item(), 1]", "C20.R2"),
    V("silent-rename-local", C, "values_sorted_desc", "vsd", None, count=3),
    V("silent-rename-lme-local", P, "tZZ", "gram", None, count=2),
    V("constant-single-value", "src/leaspy/models/constant.py", "[[values] * len(timepoints)]", "[[values]]", "C20.R1"),
]
