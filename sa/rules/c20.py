"""C20 - benchmark models implement their documented estimators (partial: dispatch, tables, formula shapes)."""
from __future__ import annotations

import ast

import sympy as sp

from ..astq import Canon, Inliner, U, canon_lines, canon_name, kwarg, parse_canon, rhs_of, statements, unify
from ..cfg import CFG, header_walk
from ..index import AnalysisError, walk_no_nested
from ..normalform import NFUnsupported, Normalizer, equal
from ..selftest import V

KNOWN_LME_HELPERS = {"_remove_nans", "_generic_get_random_effects", "_get_individual_random_effects_and_residuals", "_get_reformated", "_get_reformated_subjects"}


def _delegates_to_unknown_helper(f):
    """names of private helpers (not among the confirmed ones) the function hands part of its computation to: a form that is not found in
    the function may well stand in such a helper - not decided, rather than reported as gone"""
    out = []
    for c in ast.walk(f.node):
        if isinstance(c, ast.Call) and isinstance(c.func, ast.Attribute) and isinstance(c.func.value, ast.Name) and c.func.value.id in ("self", "cls") \
                and c.func.attr.startswith("_") and not c.func.attr.startswith("__") and c.func.attr not in KNOWN_LME_HELPERS:
            out.append(c.func.attr)
    return out


PROP = "C20"
LEVEL_TEXT = (
    "Static check of the two benchmark models: (R1) constant model - every PredictionType member is handled by _get_feature_values (exhaustiveness over the enum), "
    "MAX <-> nanmax over the visit axis, MEAN <-> nanmean over the visit axis, LAST <-> the row of the largest age, LAST_KNOWN <-> first non-NaN per feature in "
    "age-descending order; the personalisation keys the values by the model's features and the model reads them back by the same features and repeats them once per "
    "requested age; (R2) LME - every parameter read by the personalisation / the trajectory is written by the fit (writer/reader key agreement), the three age "
    "normalisations (fit, personalise, estimate) share the normal form (age - ages_mean)/ages_std, the random effects are inv(Z'Z + C) Z' r in non-commutative normal "
    "form with C the inverse of the fitted unscaled covariance, the intercept-only shortcut is sum(r)/(n + c), residuals are y - X fe, and the trajectory is X (fe + re) "
    "with X = [1, age_norm] and a zero random slope when the model has none. NOT decided: numpy NaN semantics, agreement with statsmodels' own conditional means "
    "(needs that library at run time), numerical accuracy."
)

CA = "leaspy.algo.personalize.constant_prediction_algo"
LP = "leaspy.algo.personalize.lme_personalize"
LF = "leaspy.algo.fit.lme_fit"


def r1_constant(ctx, rid="C20.R1"):
    ctx.rule(rid, "constant model: prediction-type dispatch and key agreement", 8)
    ix = ctx.ix
    enum = ix.find_class("PredictionType")
    members = [n for n, _ in ix.enum_members(enum)]
    f = ix.func(CA, "ConstantPredictionAlgorithm._get_feature_values", rid)
    cfg = CFG(f.node)
    handled = {}
    for n, st in cfg.stmt.items():
        if isinstance(st, ast.If) and isinstance(st.test, ast.Compare) and U(st.test.left) == "self.prediction_type" and isinstance(st.test.ops[0], ast.Eq):
            m = U(st.test.comparators[0]).split(".")[-1]
            rets = [b for b in st.body if isinstance(b, ast.Return)]
            handled[m] = rets[0].value if rets else None
    tail = [st for st in f.node.body if isinstance(st, ast.Return)]
    unhandled = [m for m in members if m not in handled]
    ctx.check(len(unhandled) <= 1 and bool(tail), rid, f, f.node, f"members {sorted(handled)} tested, {unhandled} handled by the final branch",
              f"prediction types {unhandled} have no handler (exhaustiveness over PredictionType {members})", construct="exhaustive dispatch")
    if unhandled and tail:
        handled[unhandled[0]] = tail[0].value
    cn = Canon(f.node)
    order = "sorted(range(len($1)), key=$1.__getitem__, reverse=True)"
    want = {"MAX": "np.nanmax($2, axis=0)", "MEAN": "np.nanmean($2, axis=0)", "LAST": f"$2[{order}[0]]",
            "LAST_KNOWN": f"$2[{order}][(~np.isnan($2[{order}])).argmax(axis=0), range($2.shape[1])]"}
    # equivalent forms confirmed by reading (argmax returns the first maximum, like the stable descending sort)
    alt = {"LAST": {f"$2[{order}][0]", "$2[$1.argmax()]", "$2[np.argmax($1)]", "$2[np.asarray($1).argmax()]"}, "MAX": {"np.nanmax($2, 0)", "np.fmax.reduce($2, axis=0)", "np.fmax.reduce($2, 0)", "np.fmax.reduce($2)"}, "MEAN": {"np.nanmean($2, 0)"}}
    for m in members:
        if m not in want:
            ctx.unknown(rid, f, f.node, f"new prediction type {m}: no documented estimator to compare with", construct=f"prediction type {m}")
            continue
        got = cn.text(handled[m]) if handled.get(m) is not None else None
        ctx.check(got == want[m] or got in alt.get(m, ()), rid, f, handled.get(m) or f.node, f"{m} -> {want[m]}   ($1 = times, $2 = values)",
                  f"prediction type {m} returns `{got}`; documented `{want[m]}` ($1 = times, $2 = values)", construct=f"prediction type {m}")
    g = ix.func(CA, "ConstantPredictionAlgorithm._get_individual_last_values", rid)
    ctx.check("return dict(zip($k0, $0._get_feature_values($1, $2)))" in canon_lines(g.node), rid, g, g.node, "values keyed by the feature names", "values are no longer keyed by the feature names")
    h = ix.func(CA, "ConstantPredictionAlgorithm._compute_individual_parameters", rid)
    hl = canon_lines(h.node, True, True)
    IP_ = "$0._get_individual_last_values($2.get_times_patient(?i), $2.get_values_patient(?i).numpy(), features=$1.features)"
    ok = unify(hl, ["for (range($2.n_individuals), ?i)", "?ip = " + IP_, "?ips.add_individual_parameters(str($2.indices[?i]), ?ip)", "return ?ips"]) is not None \
        or unify(hl, ["for (range($2.n_individuals), ?i)", "?ips.add_individual_parameters(str($2.indices[?i]), " + IP_ + ")", "return ?ips"]) is not None
    ctx.check(ok, rid, h, h.node, "each individual's own visits, keyed by its identifier and the model's features", "the personalisation no longer uses each individual's own visits / identifier / the model's features")
    # the names the values are keyed by are those of the dataset the values are read from: the model's features are overwritten from
    # this dataset on every call (same names in another column order would otherwise attach each value to the wrong feature)
    hcfg = CFG(h.node)
    hc = Canon(h.node)
    inits = [n for n, st in hcfg.stmt.items() if isinstance(st, ast.Expr) and hc.text(st.value, False) == "$1.initialize($2)"]
    loops_ = [n for n, st in hcfg.stmt.items() if isinstance(st, ast.For)]
    if not inits:
        ctx.violation(rid, h, h.node, "the model's features are not taken from the dataset being personalised (`model.initialize(dataset)` is gone): values are keyed by stale feature names",
                      construct="features from this dataset")
    else:
        guards = hcfg.if_guards(inits[0])
        ok = not guards and all(hcfg.dominates(inits[0], l) for l in loops_)
        ctx.check(ok, rid, h, hcfg.stmt[inits[0]], "the model's features are overwritten from this dataset, unconditionally, before the values are keyed",
                  "`model.initialize(dataset)` is " + (f"only run when `{U(hcfg.stmt[guards[0][0]].test)[:80]}`" if guards else "not run before the values are read")
                  + ": with the same feature names in another column order each value is attached to the wrong feature", construct="features from this dataset")
    m = ix.func("leaspy.models.constant", "ConstantModel.compute_individual_trajectory", rid)
    rets = Canon(m.node).returns()
    ok = len(rets) == 1 and rets[0] in ("torch.tensor([[[$2[%0] for %0 in $0.features]] * len($1)], dtype=torch.float32)",)
    ctx.check(ok, rid, m, m.node, "the stored values (read by the same feature names) repeated once per requested age", "the constant trajectory is no longer the stored per-feature values repeated for each requested age")
    c = ix.func(CA, "ConstantPredictionAlgorithm.__init__", rid)
    ctx.check(any("= PredictionType($1.parameters['prediction_type'])" in ln for ln in canon_lines(c.node)), rid, c, c.node, "prediction type validated through the enum", "the prediction type is no longer validated through PredictionType(...)")


def _nc(expr_node, env):
    """non-commutative normal form of numpy linear-algebra expressions (np.dot / @ / .T / np.linalg.inv)."""
    class N(Normalizer):
        def tosym(self, e):
            t = U(e)
            if t in env:
                return env[t]
            if isinstance(e, ast.Attribute) and e.attr == "T":
                b = self.tosym(e.value)
                return sp.Symbol(str(b) + "_T", commutative=False)
            if isinstance(e, ast.Call):
                fn = U(e.func)
                if fn == "np.dot" and len(e.args) == 2:
                    return self.tosym(e.args[0]) * self.tosym(e.args[1])
                if fn == "np.linalg.inv" and len(e.args) == 1:
                    return self.tosym(e.args[0]) ** -1
            if isinstance(e, ast.BinOp) and isinstance(e.op, ast.MatMult):
                return self.tosym(e.left) * self.tosym(e.right)
            return super().tosym(e)
    return N({})(expr_node)


def r2_lme(ctx):
    ctx.rule("C20.R2", "LME: parameter tables, age normalisation, random-effects formula, trajectory", 9)
    ix = ctx.ix
    fit = ix.func(LF, "LMEFitAlgorithm._run", "C20.R2")
    cf = Canon(fit.node)
    fl = cf.lines(True, True)
    loaded = None
    for c in ast.walk(fit.node):
        if isinstance(c, ast.Call) and isinstance(c.func, ast.Attribute) and c.func.attr == "load_parameters" and cf.text(c.func.value) == "$1" and c.args:
            loaded = c.args[0]
    if loaded is None:
        ctx.violation("C20.R2", fit, fit.node, "the fit no longer loads its parameters into the model", construct="load_parameters")
        return
    ctx.ok("C20.R2", fit, fit.node, "the fitted parameters are loaded into the model", construct="load_parameters")
    dct = loaded
    if isinstance(loaded, ast.Name):
        defs = [x.value for x in statements(fit.node) if isinstance(x, ast.Assign) and U(x.targets[0]) == loaded.id]
        dct = defs[-1] if defs else None
    if not isinstance(dct, ast.Dict):
        raise AnalysisError("C20.R2", "anchor vanished: the dictionary literal of parameters loaded by the LME fit")
    written = {k.value for k in dct.keys if isinstance(k, ast.Constant)}
    stored = {k.value: cf.text(v, True, cf.last_order) for k, v in zip(dct.keys, dct.values) if isinstance(k, ast.Constant)}
    readers = [ix.func(LP, "LMEPersonalizeAlgorithm._get_individual_random_effects_and_residuals", "C20.R2"), ix.func("leaspy.models.lme", "LMEModel.compute_individual_trajectory", "C20.R2")]
    for r in readers:
        read = {x.slice.value for x in ast.walk(r.node) if isinstance(x, ast.Subscript) and U(x.value) in ("model.parameters", "self.parameters") and isinstance(x.slice, ast.Constant)}
        ctx.check(read <= written, "C20.R2", r, r.node, f"parameters read {sorted(read)} are all written by the fit", f"{r.qual} reads {sorted(read - written)} which the fit never writes (fit writes {sorted(written)})",
                  construct="parameters read vs written")
    # age normalisations: the value handed to sm.add_constant, as a function of (ages, mean, std)
    a, m, s = sp.symbols("age ages_mean ages_std", real=True)
    ref = (a - m) / s
    X_ = "sm.add_constant(?{an}, prepend=True, has_constant='add')"
    bf = unify(fl, ["?m, ?s = (np.mean(?{ages}).item(), np.std(?{ages}).item())", "?lme = MixedLM(?{y}, " + X_ + ", ?{groups}, ?zre, missing='raise')...", "?zre = " + X_, "?zre = None"])
    ok = bf is not None and bf["ages"] == "$0._get_reformated($2, 'timepoints')" and stored.get("ages_mean") == bf["m"] and stored.get("ages_std") == bf["s"]
    ctx.check(ok, "C20.R2", fit, fit.node, "normalisation constants = mean / std of the training ages, stored as ages_mean / ages_std",
              "the stored normalisation constants are no longer the mean / std of the training ages", construct="normalisation constants")
    pl = Canon(readers[0].node).lines(True, True)
    tl = Canon(readers[1].node).lines(True, True)
    bp = unify(pl, ["?res = $3 - " + X_ + " @ $1.parameters['fe_params']"])
    bt = unify(tl, ["return torch.tensor(" + X_ + " @ ($0.parameters['fe_params'] + ?re), dtype=torch.float32).reshape((1, -1, 1))"])
    ctx.check(bp is not None, "C20.R2", readers[0], readers[0].node, "residuals = y - [1, age_norm] fe", "residuals are no longer y - X fe with X = [1, age_norm]", construct="residuals")
    if bt is None and _delegates_to_unknown_helper(readers[1]):
        ctx.unknown("C20.R2", readers[1], readers[1].node, f"the trajectory hands part of its computation to {_delegates_to_unknown_helper(readers[1])}: the form X (fe + re) is not found in the function itself")
    else:
        ctx.check(bt is not None, "C20.R2", readers[1], readers[1].node, "trajectory = [1, age_norm] (fe + re): a straight line in age", "the LME trajectory is no longer X (fe + re)")

    def key(txt):
        return U(parse_canon(txt))
    sites = [
        (fit, bf, {key(bf["ages"]): a, canon_name(bf["m"]): m, canon_name(bf["s"]): s} if bf else {}),
        (readers[0], bp, {"P_2": a, "P_1.parameters['ages_mean']": m, "P_1.parameters['ages_std']": s}),
        (readers[1], bt, {"np.array(P_1).reshape(-1)": a, "np.asarray(P_1, dtype=np.float64).reshape(-1)": a, "np.asarray(P_1).reshape(-1)": a, "np.array(P_1, dtype=float).reshape(-1)": a,
                       "P_0.parameters['ages_mean']": m, "P_0.parameters['ages_std']": s}),
    ]
    import re as _re2

    def fold_local(lines_, txt):
        """a local (re-)defined by `x = E`, `x -= A`, `x /= B` ... as one expression (the value it has once all of them ran)"""
        if not _re2.fullmatch(r"%\d+", txt or ""):
            return txt
        expr = None
        for ln in lines_:
            m_ = _re2.match(_re2.escape(txt) + r" (=|\+=|-=|\*=|/=) (.*)$", ln, _re2.S)
            if not m_:
                continue
            op, rhs_ = m_.group(1), m_.group(2)
            expr = rhs_ if op == "=" else (f"(({expr}) {op[0]} ({rhs_}))" if expr is not None else None)
        return expr or txt
    site_lines = {id(fit): fl, id(readers[0]): pl, id(readers[1]): tl}
    for f, bnd, env in sites:
        if not bnd:
            if _delegates_to_unknown_helper(f):
                ctx.unknown("C20.R2", f, f.node, f"the design matrix is built in a helper ({_delegates_to_unknown_helper(f)}): the age normalisation is not found in the function itself", construct=f"age normalisation in {f.name}")
            else:
                ctx.violation("C20.R2", f, f.node, "ages are no longer normalised before the design matrix [1, age] is built", construct=f"age normalisation in {f.name}")
            continue
        bnd = dict(bnd)
        bnd["an"] = fold_local(site_lines[id(f)], bnd["an"])

        class N(Normalizer):
            def tosym(self, e):
                t = U(e)
                if t in env:
                    return env[t]
                return super().tosym(e)
        try:
            got = N({})(parse_canon(bnd["an"]))
            ctx.check(equal(got, ref), "C20.R2", f, f.node, "(age - ages_mean)/ages_std", f"age normalisation is {got}; the other sites use (age - ages_mean)/ages_std", construct=f"age normalisation in {f.name}")
        except (NFUnsupported, SyntaxError) as e:
            ctx.unknown("C20.R2", f, f.node, str(e), construct=f"age normalisation in {f.name}")
    import re as _re
    mfit = _re.fullmatch(r"np\.linalg\.inv\((?P<fit>.+)\.cov_re_unscaled\)", stored.get("cov_re_unscaled_inv", ""))
    fit_txt = mfit.group("fit") if mfit else None
    if fit_txt and _re.fullmatch(r"%\d+", fit_txt):
        defs_ = rhs_of(fl, fit_txt)
        fit_def = defs_[0] if len(defs_) == 1 else ""
    else:
        fit_def = fit_txt or ""
    is_fit = fit_def.startswith("MixedLM(") and fit_def.endswith(".fit(**$0.sm_fit_parameters)")
    ok = bool(fit_txt) and is_fit and stored.get("fe_params") == fit_txt + ".fe_params"
    ctx.check(ok, "C20.R2", fit, fit.node, "C = inverse of the fitted unscaled random-effects covariance; fe = fitted fixed effects", "stored variance components / fixed effects changed", construct="stored components")
    # the other documented components: residual standard deviation = square root of statsmodels' scale (a variance), covariance of the random effects
    if fit_txt and is_fit:
        ns = stored.get("noise_std", "")
        ok_ns = ns in (fit_txt + ".scale ** 0.5", "np.sqrt(" + fit_txt + ".scale)", "math.sqrt(" + fit_txt + ".scale)", fit_txt + ".scale ** (1 / 2)")
        ctx.check(ok_ns, "C20.R2", fit, fit.node, "noise_std = sqrt(scale of the fitted mixed model)", f"the stored noise_std is `{ns.replace(fit_txt, '<fit>')[:80]}`, not the square root of the fitted scale (a variance)",
                  construct="stored noise_std")
        ctx.check(stored.get("cov_re") == fit_txt + ".cov_re", "C20.R2", fit, fit.node, "cov_re = fitted covariance of the random effects", "the stored cov_re is not the fitted covariance of the random effects",
                  construct="stored cov_re")
    # the documented option "independent random effects" constrains the fitted covariance to a diagonal pattern
    b_ind = unify(fl, ["if $0.force_independent_random_effects", "$0.sm_fit_parameters['free'] = MixedLMParams.from_components(fe_params=np.ones(2), cov_re=np.eye(2))"])
    ok_ind = b_ind is not None and b_ind["#0"] < b_ind["#1"]
    has_opt = any(isinstance(x, ast.Attribute) and x.attr == "force_independent_random_effects" for f_ in ix.iter_funcs() if f_.mod == LF for x in ast.walk(f_.node))
    if has_opt:
        ctx.form("C20.R2", fit, fit.node, "; ".join(ln for ln in fl if (ln.startswith("if ") and "force_independent_random_effects" in ln) or ln.startswith("$0.sm_fit_parameters['free']")),
                 {"if $0.force_independent_random_effects; $0.sm_fit_parameters['free'] = MixedLMParams.from_components(fe_params=np.ones(2), cov_re=np.eye(2))"} if ok_ind else set(),
                 ["$0.force_independent_random_effects", "sm_fit_parameters['free']", "cov_re=np.eye(2)"], "independent random effects: the free-parameter pattern has a diagonal covariance",
                 "the option force_independent_random_effects no longer constrains the covariance of the random effects to be diagonal", construct="independent random effects")
    # random effects
    g = ix.func(LP, "LMEPersonalizeAlgorithm._generic_get_random_effects", "C20.R2")
    cg = Canon(g.node)
    rets = cg.returns()
    Z = sp.Symbol("Z", commutative=False)
    Zt = sp.Symbol("Z_T", commutative=False)
    r = sp.Symbol("resid", commutative=False)
    C = sp.Symbol("cov_re_unscaled_inv", commutative=False)
    trunc = [c for c in ast.walk(g.node) if isinstance(c, ast.Call) and U(c.func).split(".")[-1] in ("pinv", "pinvh", "lstsq") and (len(c.args) > 1 or any(k.arg in ("rcond", "rtol", "atol", "cond") for k in c.keywords))]
    if trunc:
        ctx.violation("C20.R2", g, trunc[0], f"`{U(trunc[0])[:70]}` replaces the inverse of Z'Z + C by a pseudo-inverse truncated at a relative threshold: when the fitted covariance is nearly degenerate "
                      "(C has an eigenvalue ~1e9 next to one ~1) the small eigen-direction - the one the random effects live in - is cut, and the random effects collapse to 0 instead of the "
                      "conditional means", construct="generic random effects")
        rets = []
    try:
        if not rets:
            raise IndexError("reported above")
        got = _nc(parse_canon(rets[0]), {"P_1": Z, "P_0": r, "P_2": C})
        ref = (Zt * Z + C) ** -1 * (Zt * r)
        ctx.check(sp.expand(got - ref) == 0, "C20.R2", g, g.node, "random effects = inv(Z'Z + C) Z' r", f"random effects are {got}; documented {ref}", construct="generic random effects")
    except (NFUnsupported, IndexError, SyntaxError) as e:
        if not trunc:
            ctx.unknown("C20.R2", g, g.node, f"random-effects expression outside the supported subset: {e}")
    p = readers[0]
    sub = {k: bp[k] for k in ("res", "an")} if bp else {}
    CI = "$1.parameters['cov_re_unscaled_inv']"
    RI = "np.sum(?res) / (len($3) + " + CI + ".item())"
    ok = bool(sub) and (unify(pl, ["?re = {'random_intercept': " + RI + "}", "return (?re, ?res)"], sub) is not None
                        or unify(pl, ["?ri = " + RI, "?re = {'random_intercept': ?ri}", "return (?re, ?res)"], sub) is not None)
    joined = "; ".join(pl)
    ctx.form("C20.R2", p, p.node, joined, {joined} if ok else set(), ["np.sum(", "len($3) + " + CI + ".item()", "'random_intercept'"], "intercept-only shortcut = sum(r)/(n + c)",
             "the intercept-only random effect is no longer sum(r)/(n + c)", construct="intercept-only shortcut")
    G_ = "$0._generic_get_random_effects(?res, " + X_ + ", " + CI + ").squeeze()"
    ok = bool(sub) and (unify(pl, ["?re = {'random_intercept': " + G_ + "[0], 'random_slope_age': " + G_ + "[1]}", "return (?re, ?res)"], sub) is not None
                        or unify(pl, ["?g = " + G_, "?re = {'random_intercept': ?g[0], 'random_slope_age': ?g[1]}", "return (?re, ?res)"], sub) is not None)
    ctx.form("C20.R2", p, p.node, joined, {joined} if ok else set(), ["$0._generic_get_random_effects(", CI, "[0]", "[1]", "'random_slope_age'"], "(intercept, slope) = generic formula with Z = X",
             "random intercept / slope are no longer the two components of the generic formula with Z = X", construct="intercept and slope")
    # ... and these two are the only estimators: every definition of the returned dictionary is one of them, selected by the model's
    # `with_random_slope_age` alone (a further branch - for short histories, for some ages ... - is another estimator for those individuals)
    import re as _re
    br = unify(pl, ["return (?re, ?res)"], sub) if sub else None
    if br is not None:
        cp_ = Canon(p.node)
        cp_.lines(True, True)
        cfgp = CFG(p.node)
        defs_re = [(n_, st_) for n_, st_ in cfgp.stmt.items() if isinstance(st_, ast.Assign) and isinstance(st_.targets[0], ast.Name) and cp_.text(st_.targets[0], False, cp_.last_order) == br["re"]]
        extra_guards = []
        wrong_arm = []
        for n_, st_ in defs_re:
            for h_, lab_ in cfgp.if_guards(n_):
                g_ = cp_.text(cfgp.stmt[h_].test, True, cp_.last_order)
                if g_ not in ("not $1.with_random_slope_age", "$1.with_random_slope_age"):
                    extra_guards.append((st_, g_))
                elif (lab_ == (g_ == "$1.with_random_slope_age")) != ("'random_slope_age'" in cp_.text(st_.value, False, cp_.last_order)):
                    wrong_arm.append(st_)
        if wrong_arm:
            ctx.violation("C20.R2", p, wrong_arm[0], "the two estimators are exchanged: the intercept-only estimate is used for a model with a random slope and vice versa", construct="closed set of estimators")
        ctx.check(len(defs_re) == 2 and not extra_guards, "C20.R2", p, defs_re[0][1] if defs_re else p.node, "two estimators, selected by with_random_slope_age alone",
                  (f"the random effects of an individual also depend on `{extra_guards[0][1][:80]}`: for the individuals it selects they are not the conditional means given the fitted variance components"
                   if extra_guards else f"{len(defs_re)} definitions of the returned random effects (2 expected: intercept only / intercept and slope)"), construct="closed set of estimators")
    ok = "$3, $2 = $0._remove_nans($3, $2)" in pl
    ctx.check(ok, "C20.R2", p, p.node, "missing values dropped together with their ages", "missing values are no longer dropped (with their ages) before computing residuals", construct="NaN removal")
    t = readers[1]
    ok = False
    if bt is not None:
        # which value under which arm (control dependence, so the orientation of the test does not matter)
        ct_ = Canon(t.node)
        ct_.lines(True, True)
        cfgt = CFG(t.node)
        arms = {}
        for n_, st_ in cfgt.stmt.items():
            if isinstance(st_, ast.Assign) and isinstance(st_.targets[0], ast.Name) and ct_.text(st_.targets[0], False, ct_.last_order) == bt["re"]:
                gs_ = [(ct_.text(cfgt.stmt[h_].test, True, ct_.last_order), lab_) for h_, lab_ in cfgt.if_guards(n_)]
                arms[ct_.text(st_.value, False, ct_.last_order)] = gs_
        ok = arms == {"np.array([$2['random_intercept'].item(), 0])": [("$0.with_random_slope_age", False)],
                      "np.array([$2['random_intercept'].item(), $2['random_slope_age'].item()])": [("$0.with_random_slope_age", True)]}
    if not ok and bt is None and _delegates_to_unknown_helper(t):
        ctx.unknown("C20.R2", t, t.node, "the trajectory form was not found (helper): the no-slope case cannot be located", construct="no-slope case")
    else:
        ctx.check(ok, "C20.R2", t, t.node, "random slope forced to 0 when the model has none", "the random slope is not forced to 0 for an intercept-only model", construct="no-slope case")
    ok = bf is not None and "if $1.with_random_slope_age" in fl
    ctx.check(ok, "C20.R2", fit, fit.node, "random-effects design = X with a random slope, intercept only otherwise", "the random-effects design of the fit changed", construct="random-effects design")


def r3_inputs_untouched(ctx):
    """The LME / constant estimators are linear-algebra on numpy arrays handed in by the caller (ages, values): a repeated estimate gives the
    documented line only if those arrays are left as they were."""
    from ._shared import inplace_on_argument_views
    ctx.rule("C20.R3", "the benchmark estimators never work in place on a (possible) view of the caller's ages / values", 1)
    funcs = [f for f in ctx.ix.iter_funcs() if f.mod in ("leaspy.models.lme", "leaspy.models.constant", LP, LF, CA)]
    sites, holders = inplace_on_argument_views(ctx, funcs)
    for fn, node, desc in sites:
        ctx.violation("C20.R3", fn, node, desc + ": the caller's array is overwritten (normalised ages, ...), so the next estimate with the same array is not the documented one")
    ctx.ok("C20.R3", ("leaspy.models.lme", "LMEModel"), None, f"{len(funcs)} functions of the benchmark models / algorithms scanned", construct="scan")


def rules(ctx):
    r1_constant(ctx)
    r2_lme(ctx)
    r3_inputs_untouched(ctx)
    # a saved and re-loaded benchmark model is the same estimator: the options that select the estimator (prediction type of the constant model
    # is in the algorithm; random slope of the LME is in the model) are written by to_dict and read back by the constructor (same rule as C12.R2)
    from .c12 import r2_hyperparameters
    r2_hyperparameters(ctx, rid="C20.R4", only_classes={"LMEModel", "ConstantModel"})
    # ... with the precision they were saved with: the random effects are inv(Z'Z + C) Z' r with C = cov_re_unscaled_inv read from the model -
    # rounded to single precision, a nearly singular C gives other random effects than the conditional means (same rule as C12.R9)
    from .c12 import r9_stateless_parameters_not_narrowed
    r9_stateless_parameters_not_narrowed(ctx, rid="C20.R5")
    # ... and computed from the *current* parameters: nothing in the benchmark models is memoised across calls (a design matrix cached per ages
    # keeps the age normalisation of the previous fit) - same rule as C13.R5
    from .c13 import r5_shared_defaults
    r5_shared_defaults(ctx, rid="C20.R6", scope="leaspy.models.lme", title="no memoised method / shared container in the LME model (its lines use the normalisation of the current fit)")
    r5_shared_defaults(ctx, rid="C20.R6b", scope="leaspy.models.constant", title="no memoised method / shared container in the constant model")
    r5_shared_defaults(ctx, rid="C20.R6c", scope="leaspy.algo.fit.lme_fit", title="no shared container in the LME fit (options of one fit - a covariance constraint - do not reach the next one)")
    r5_shared_defaults(ctx, rid="C20.R6d", scope="leaspy.algo.personalize", title="no shared container in the personalisation algorithms of the benchmark models")
    ctx.trust("numpy nanmax / nanmean / argmax / fancy indexing semantics; statsmodels MixedLM results (fe_params, cov_re_unscaled)")


C = "src/leaspy/algo/personalize/constant_prediction_algo.py"
P = "src/leaspy/algo/personalize/lme_personalize.py"
VARIANTS = [
    V("max-is-mean", C, "            return np.nanmax(values, axis=0)", "            return np.nanmean(values, axis=0)", "C20.R1"),
    V("mean-wrong-axis", C, "            return np.nanmean(values, axis=0)", "            return np.nanmean(values, axis=1)", "C20.R1"),
    V("last-is-first", C, "sorted(range(len(times)), key=times.__getitem__, reverse=True)", "sorted(range(len(times)), key=times.__getitem__)", "C20.R1"),
    V("last-input-order", C, "            return values[sorted_indices[0]]", "            return values[-1]", "C20.R1"),
    V("lme-no-prior-term", P, "        G = np.linalg.inv(tZZ + cov_re_unscaled_inv)", "        G = np.linalg.inv(tZZ)", "C20.R2"),
    V("lme-intercept-shortcut", P, "random_intercept = np.sum(residuals) / (n + cov_re_unscaled_inv.item())", "random_intercept = np.sum(residuals) / n", "C20.R2"),
    V("lme-norm-mismatch", "src/leaspy/models/lme.py", "        ) / self.parameters[\"ages_std\"]", "        )", "C20.R2"),
    V("lme-slope-kept", "src/leaspy/models/lme.py", "[individual_parameters[\"random_intercept\"].item(), 0]", "[individual_parameters[\"random_intercept\"].item(), 1]", "C20.R2"),
    V("silent-rename-local", C, "values_sorted_desc", "vsd", None, count=3),
    V("silent-rename-lme-local", P, "tZZ", "gram", None, count=2),
    V("constant-single-value", "src/leaspy/models/constant.py", "[[values] * len(timepoints)]", "[[values]]", "C20.R1"),
]
