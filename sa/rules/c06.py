"""C06 - missing and padded observations never influence any result."""
from __future__ import annotations

import ast

from ..astq import Inliner, U, canon_src, kwarg, nested_def, statements, store_targets
from ..cfg import CFG, header_walk
from ..index import AnalysisError, walk_no_nested
from ..selftest import V

PROP = "C06"
LEVEL_TEXT = (
    "Static mask-discipline check: (R1) structural invariants of the WeightedTensor class, of _apply_operation and of the unary-operator factory: masked values "
    "are filled (with 0) before being multiplied by the weights, empty aggregates are filled, every WeightedTensor built from an operand that carries weights "
    "receives those weights (6 return sites of _apply_operation classified by their guards), unary operators see filled values; (R2) mask roots: time points are "
    "weighted by mask.any(feature axis), observations by the mask itself (every observation getter), the dataset mask is padding * not-NaN; (R3) mask-kind abstract "
    "interpretation of every variable graph of every shipped configuration and of every update rule: no reduction over data axes of a value that is neither weighted "
    "by nor zeroed outside a mask at least as strong as the data it derives from, no combination of aggregates taken under different masks, every model value is "
    "zero at padded visits; (R4) observation counts and squared norms are sums of weights / weighted sums of the observation-masked variable. NOT decided: the numbers "
    "themselves, floating-point summation order, the event-prediction code (data-dependent loops)."
)

WT = "leaspy.utils.weighted_tensor._weighted_tensor"


def r1_weighted_tensor(ctx):
    ctx.rule("C06.R1", "WeightedTensor invariants: fill before weighting, weights propagated by every construction", 14)
    ix = ctx.ix
    cls = (WT, "WeightedTensor")
    if cls not in ix.classes:
        raise AnalysisError("C06.R1", "anchor vanished: WeightedTensor")
    # (a) wsum / weighted_value
    from ..astq import Canon
    ws = ix.func(WT, "WeightedTensor.wsum", "C06.R1")
    src = U(ws.node)
    cw = Canon(ws.node)
    rets = cw.returns()
    rtxt = rets[0] if rets else ""
    ctx.form("C06.R1", ws, ws.node, rtxt, {"((%0 * $0.filled(0)).sum(**$kwargs).masked_fill(%0.sum(**$kwargs) == 0, $k0), %0.sum(**$kwargs))"},
             ["$0.filled(0)", "masked_fill(", ".sum(**$kwargs) == 0"], "weights multiply self.filled(0); empty aggregates filled; value-sum and weight-sum over the same axes",
             "wsum multiplies the weights with unfilled values (a NaN / inf at a masked position gives NaN in the sum) or no longer fills empty aggregates", construct="weighted sum",
             forbidden=[r"\* \$0\.value\b", r"\$0\.value \*", r"else \$0\.value\b", r"\* \(?[^()]* else \$0\.value\)"])
    dflt = [st for st in statements(ws.node) if isinstance(st, ast.Assign) and isinstance(st.value, ast.Call) and U(st.value.func) == "torch.ones_like" and U(st.value.args[0]) == "self.value"]
    ctx.check(bool(dflt), "C06.R1", ws, dflt[0] if dflt else ws.node, "no weights = all ones", "an unweighted tensor is no longer summed with unit weights", construct="default weights")
    wv = ix.func(WT, "WeightedTensor.weighted_value", "C06.R1")
    ok = "self.weight * self.filled(0)" in U(wv.node) or "self.filled(0) * self.weight" in U(wv.node)
    ctx.check(ok, "C06.R1", wv, wv.node, "weighted_value = weight * filled(0)", "weighted_value multiplies the weight with unfilled values (0 * NaN = NaN at masked positions)")
    fl = ix.func(WT, "WeightedTensor.filled", "C06.R1")
    ok = "self.value.masked_fill(self.weight == 0, fill_value)" in U(fl.node)
    ctx.check(ok, "C06.R1", fl, fl.node, "filled() replaces exactly the zero-weight entries", "filled() no longer replaces exactly the entries of zero weight")
    # every exit of filled(): the raw values are handed out only when there is nothing to fill (no fill value / no weights); any other exit is
    # a replacement (masked_fill / where) - a product with the mask is not one (0 * nan = nan, 0 * inf = nan under the mask)
    REPL = {"self.value.masked_fill(self.weight == 0, fill_value)", "torch.where(self.weight == 0, fill_value, self.value)", "torch.where(self.weight != 0, self.value, fill_value)",
            "self.value.masked_fill(~self.weight.bool(), fill_value)", "self.value.masked_fill(self.weight.logical_not(), fill_value)"}
    def _tests_over(ret):
        out = []

        def go(body, acc):
            for st in body:
                if st is ret:
                    out.extend(acc)
                if isinstance(st, ast.If):
                    go(st.body, acc + [U(st.test)])
                    go(st.orelse, acc + ["not(" + U(st.test) + ")"])
                elif isinstance(st, (ast.With, ast.For, ast.While, ast.Try)):
                    go(getattr(st, "body", []), acc)
        go(fl.node.body, [])
        return out
    for r in [n for n in walk_no_nested(fl.node) if isinstance(n, ast.Return) and n.value is not None]:
        t = U(r.value)
        if t in REPL:
            ctx.ok("C06.R1", fl, r, "exit of filled(): masked replacement", construct=f"filled exit: {t}")
        elif t == "self.value":
            g = _tests_over(r)
            ok_g = any(x.startswith("fill_value is None or self.weight is None") or x.startswith("self.weight is None or fill_value is None") for x in g)
            if not ok_g and any("fill_value" in x or "weight" in x for x in g):
                ctx.unknown("C06.R1", fl, r, f"filled() hands out the raw values under {g}: not the confirmed test `fill_value is None or self.weight is None`", construct="filled exit: self.value")
                continue
            ctx.check(ok_g, "C06.R1", fl, r, "raw values handed out only when there is no fill value or no weights",
                      f"filled() hands out the unfilled values under {g or 'no condition'}: what lies under the mask reaches the sums", construct="filled exit: self.value")
        elif any(isinstance(b, ast.BinOp) and isinstance(b.op, ast.Mult) and "weight" in U(b) for b in ast.walk(r.value)):
            ctx.violation("C06.R1", fl, r, f"filled() returns `{t}`: a product with the mask is not a replacement (0 * nan = nan, 0 * inf = nan): a non-finite "
                          "value under the mask reaches every sum built on filled(0)", construct=f"filled exit: {t}")
        else:
            ctx.unknown("C06.R1", fl, r, f"exit of filled() `{t}` is neither the raw value nor one of the known replacement forms", construct=f"filled exit: {t}")
    sm = ix.func(WT, "WeightedTensor.sum", "C06.R1")
    ok = "self.wsum(fill_value=fill_value, **kws)[0]" in U(sm.node)
    ctx.check(ok, "C06.R1", sm, sm.node, "sum() of a weighted tensor is the weighted sum", "WeightedTensor.sum no longer goes through wsum when weights exist")
    # (b) constructions inside the class
    for b in ix.classes[cls].body:
        if not isinstance(b, ast.FunctionDef) or b.name in ("__post_init__", "get_filled_value_and_weight"):
            continue
        f = ix.funcs[(WT, f"WeightedTensor.{b.name}")]
        for c in ast.walk(b):
            if isinstance(c, ast.Call) and U(c.func) in ("WeightedTensor", "type(self)"):
                w = c.args[1] if len(c.args) > 1 else kwarg(c, "weight")
                wt = U(w) if w is not None else ""
                # the construction under `if self.weight is None` may pass None
                guarded_none = any(isinstance(i, ast.If) and U(i.test) == "self.weight is None" and any(x is c for s in i.body for x in ast.walk(s)) for i in ast.walk(b))
                ok = ("self.weight" in wt) or guarded_none
                ctx.check(ok, "C06.R1", f, c, "result carries self.weight", f"`{U(c)[:70]}` drops the weights of `self`: masked entries of the result count as observed")
    # (c) _apply_operation
    ao = ix.func(WT, "_apply_operation", "C06.R1")
    cfg = CFG(ao.node)
    rets = [(n, st) for n, st in cfg.stmt.items() if isinstance(st, ast.Return)]
    if len(rets) < 5:
        raise AnalysisError("C06.R1", f"anchor changed: {len(rets)} return sites in _apply_operation (6 confirmed by hand)")
    for n, st in rets:
        v = st.value
        if not (isinstance(v, ast.Call) and U(v.func) == "WeightedTensor"):
            ctx.violation("C06.R1", ao, st, "binary operation returns something else than a WeightedTensor")
            continue
        w = v.args[1] if len(v.args) > 1 else kwarg(v, "weight")
        guards = {U(cfg.stmt[h].test): lab for h, lab in cfg.if_guards(n)}
        b_is_wt = guards.get("isinstance(b, WeightedTensor)")
        a_none = guards.get("a.weight is None")
        b_none = guards.get("b.weight is None")
        if b_is_wt is None:
            # code after the `if isinstance(b, WeightedTensor)` block: b is a plain tensor
            b_is_wt = False
        a_has = (a_none is False) or (a_none is None and any(t == "a.weight is not None" and lab for t, lab in guards.items()))
        b_has = bool(b_is_wt) and (b_none is False)
        a_unknown = a_none is None and not a_has
        wt = U(w) if w is not None else ""
        if a_has or (a_none is False):
            ok = "a.weight" in wt
            need = "a.weight"
        elif b_has:
            ok = "b.weight" in wt
            need = "b.weight"
        elif a_none is True and (not b_is_wt or b_none is True):
            ok = True
            need = "none"
        elif a_unknown and not b_is_wt:
            ok = w is None  # final fall-through: a.weight is None here (the `is not None` case returned above)
            need = "none (a.weight is None on this path)"
        else:
            ok = bool(wt)
            need = "some weight"
        ctx.check(ok, "C06.R1", ao, st, f"weights propagated ({need})", f"`{U(st)[:80]}`: under guards {guards} the result should carry {need} but carries `{wt or 'no weight'}`")
    src = U(ao.node)
    ctx.check("if not torch.equal(a.weight, b.weight)" in src and "raise NotImplementedError" in src, "C06.R1", ao, ao.node, "two different masks are refused, never silently merged",
              "operations between tensors with different masks are no longer refused", construct="different masks refused")
    # (d) unary factory
    fa = ix.func("leaspy.utils.weighted_tensor._factory", "factory_weighted_tensor_unary_operator", "C06.R1")
    inner = nested_def(fa.node)
    src = canon_src(inner) if inner is not None else ""
    ok = "return $0.valued(f($0.filled(fill_value), *$args, **$kwargs))" in src
    ctx.check(ok, "C06.R1", fa, fa.node, "unary operators act on filled values and keep the weights", "the unary-operator factory no longer applies f to filled values and re-attaches the weights")
    # (d') `valued` builds a new object from (new value, same weight): nothing else of the source - a memo, a cached dense view - is carried over
    from ..astq import canon_lines as _cl
    vf = ix.func(WT, "WeightedTensor.valued", "C06.R1")
    vt = "; ".join(_cl(vf.node, True, True))
    ctx.form("C06.R1", vf, vf.node, vt, {"return type($0)($1, $0.weight)", "return WeightedTensor($1, $0.weight)", "return $0.__class__($1, $0.weight)"}, ["$1", "$0.weight"],
             "valued(v) = a fresh WeightedTensor(v, self.weight)", "valued() no longer builds a fresh tensor from (new value, same weight)",
             forbidden=[r"copy\.copy\(", r"copy\(\$0\)", r"__setattr__", r"__dict__", r"replace\("], construct="valued")
    # (e) the module-level helpers the variable graphs are built with
    from ._shared import weighted_helper_forms
    weighted_helper_forms(ctx, "C06.R1")
    gf = ix.func(WT, "WeightedTensor.get_filled_value_and_weight", "C06.R1")
    ok = "(t.filled(fill_value), t.weight)" in U(gf.node) or "t.filled(fill_value), t.weight" in U(gf.node)
    ctx.check(ok, "C06.R1", gf, gf.node, "filled value returned together with the weight", "get_filled_value_and_weight no longer returns the filled value with its weight")


def r2_roots(ctx, rid="C06.R2", title="mask roots: t weighted by mask.any(features), y weighted by the mask"):
    ctx.rule(rid, title, 3)
    ix = ctx.ix
    pd_ = ix.func("leaspy.models.mcmc_saem_compatible", "McmcSaemCompatibleModel.put_data_variables", rid)
    calls = [c for c in ast.walk(pd_.node) if isinstance(c, ast.Call) and U(c.func) == "WeightedTensor"]
    ok = False
    for c in calls:
        if len(c.args) == 2 and U(c.args[0]) == "dataset.timepoints" and U(c.args[1]) in ("dataset.mask.to(torch.bool).any(dim=LVL_FT)", "dataset.mask.to(torch.bool).any(dim=-1)", "dataset.mask.bool().any(dim=LVL_FT)"):
            ok = True
    ctx.check(ok, rid, pd_, calls[0] if calls else pd_.node, "time points weighted by `mask.any over the feature axis`",
              "time points are not weighted by `dataset.mask.any(dim=LVL_FT)`: padded visits (or visits with every feature missing) are treated as real visits")
    n = 0
    for f in ix.iter_funcs():
        if f.name in ("y_getter", "getter") and f.mod.startswith("leaspy.models.obs_models"):
            for r in [s for s in statements(f.node) if isinstance(s, ast.Return)]:
                v = r.value
                if isinstance(v, ast.Call) and U(v.func) == "WeightedTensor":
                    n += 1
                    w = v.args[1] if len(v.args) > 1 else kwarg(v, "weight")
                    if U(v.args[0]) == "dataset.values":
                        ctx.check(w is not None and U(w) in ("dataset.mask.to(torch.bool)", "dataset.mask.bool()", "dataset.mask"), rid, f, r, "observations weighted by the dataset mask",
                                  f"observations are weighted by `{U(w) if w is not None else 'nothing'}`, not by the dataset mask: missing entries count as observed")
                    else:
                        ctx.ok(rid, f, r, "event data (no missing-data mask applies; the weight is the censoring indicator)")
    if n < 2:
        raise AnalysisError(rid, "anchor vanished: observation getters")


def r3_provenance(ctx):
    from ..domains.mask import mask_of_graph
    from ..specgraph import graphs

    ctx.rule("C06.R3", "mask provenance through every variable graph and update rule (mask-kind domain)", 40)
    for g in graphs(ctx):
        res = mask_of_graph(ctx, g)
        flagged = {}
        for c, m in res.flags:
            flagged.setdefault(c.split(":", 1)[1], []).append(m)
        for name, node in g.nodes.items():
            if node.kind != "LinkedVariable":
                continue
            v = res.vals.get(name)
            from ..specgraph import base_functions
            from ..interp import FuncRef
            bf = [b for b in base_functions(g.interp, node.var) if isinstance(b, FuncRef)]
            where = bf[0].func if bf else (g.model.cls[0], g.model.cls[1])
            cons = f"def {bf[0].func.node.name}" if bf else f"variable {name}"
            if name in res.failures:
                if name.startswith("predictions_"):
                    continue  # event-prediction code: outside the rule (data-dependent loops), stated in the level text
                ctx.unknown("C06.R3", where, None, f"{g.cfg.name}: cannot evaluate `{name}` in the mask domain: {res.failures[name]}", construct=cons, instance=f"{g.cfg.name}:{name}")
                continue
            failed_anc = sorted(a_ for a_ in g.ancestors(name) if a_ in res.failures and not a_.startswith("predictions_")) if name in flagged else []
            if failed_anc:
                # flagged only because an ancestor could not be evaluated (its stand-in is the most pessimistic value): not a finding about this node
                ctx.unknown("C06.R3", where, None, f"{g.cfg.name}: `{name}` derives from `{failed_anc[0]}`, which the mask domain could not evaluate: {res.failures[failed_anc[0]][:120]}", construct=cons, instance=f"{g.cfg.name}:{name}")
                continue
            if name in flagged:
                ctx.violation("C06.R3", where, None, f"{g.cfg.name}: variable `{name}`: " + "; ".join(sorted(set(flagged[name])))[:300], construct=cons, instance=f"{g.cfg.name}:{name}")
                continue
            if name == "model":
                ok = getattr(v, "w", None) in ("t", "y") or getattr(v, "zero", None) in ("t", "y")
                ctx.check(ok, "C06.R3", where, None, f"{g.cfg.name}: model values are zero at padded visits ({v!r})",
                          f"{g.cfg.name}: the model value is {v!r}: not zeroed / weighted at padded visits, so padding contributes to attachment terms and statistics", construct=cons, instance=f"{g.cfg.name}:{name}")
            else:
                ctx.ok("C06.R3", where, None, f"{g.cfg.name}: `{name}` = {v!r}: every reduction on the way is mask-aware", construct=cons, instance=f"{g.cfg.name}:{name}")
        for p, which, val, err in res.rules:
            rule = g.nodes[p].var.attrs[which]
            from ..interp import FuncRef
            from ..specgraph import nif_chain
            chain = [c for c, _ in nif_chain(g.interp, rule)]
            fr = [c for c in chain if isinstance(c, FuncRef)]
            where = fr[0].func if fr else ("leaspy.variables.specs", "ModelParameter")
            cons = f"def {fr[0].func.node.name}" if fr else f"{which} of {p}"
            key = f"{which}({p})"
            if err:
                ctx.unknown("C06.R3", where, None, f"{g.cfg.name}: cannot evaluate {key} in the mask domain: {err}", construct=cons, instance=f"{g.cfg.name}:{key}")
            elif key in flagged:
                ctx.violation("C06.R3", where, None, f"{g.cfg.name}: {key}: " + "; ".join(sorted(set(flagged[key])))[:300], construct=cons, instance=f"{g.cfg.name}:{key}")
            else:
                ctx.ok("C06.R3", where, None, f"{g.cfg.name}: {key} aggregates observed entries only", construct=cons, instance=f"{g.cfg.name}:{key}")


def r4_counts(ctx):
    from ..domains.mask import mask_of_graph
    from ..specgraph import graphs

    ctx.rule("C06.R4", "observation counts / squared norms are (weighted) sums over the observation mask", 8)
    GA = ("leaspy.models.obs_models._gaussian", "FullGaussianObservationModel.with_noise_std_as_model_parameter")
    for g in graphs(ctx):
        res = mask_of_graph(ctx, g)
        for name in ("n_obs", "n_obs_per_ft", "y_L2", "y_L2_per_ft"):
            if name not in g.nodes:
                continue
            v = res.vals.get(name)
            par = g.nodes[name].parents
            ok = getattr(v, "agg", None) == "y" and par == ("y",)
            ctx.check(ok, "C06.R4", GA, None, f"{g.cfg.name}: `{name}` aggregated over observed entries of y",
                      f"{g.cfg.name}: `{name}` = {v!r} computed from {par}: not a (weighted) sum over the observation mask", construct=f"definition of {name}", instance=g.cfg.name)
    ix = ctx.ix
    f = ix.func(*GA, "C06.R4")
    src = U(f.node)
    for nm, fn in (("n_obs", "wsum_dim_return_sum_of_weights_only"), ("y_L2", "wsum_dim_return_weighted_sum_only"), ("n_obs_per_ft", "wsum_dim_return_sum_of_weights_only"), ("y_L2_per_ft", "wsum_dim_return_weighted_sum_only")):
        ok = f"'{nm}': LinkedVariable(Sqr('y').then({fn}" in src
        ctx.check(ok, "C06.R4", f, f.node, f"{nm} = {fn}(y^2)", f"`{nm}` is no longer `{fn}` of the squared observations", construct=f"{nm} wiring")


RAW_FIELDS = {"values", "timepoints"}
RAW_EXCEPTIONS = {
    ("leaspy.algo.personalize.scipy_minimize", "ScipyMinimizeAlgorithm.obj_with_jac"): "unreachable code after `raise NotImplementedError` (jacobian not implemented)",
}


def r5_raw_padded_tensors(ctx):
    """`Dataset.values` / `Dataset.timepoints` are padded, zero-filled tensors: what lies under the mask is an implementation detail of the
    loader (and a user may build a Dataset otherwise).  In the computation packages they may only be used as the *value* of a
    WeightedTensor whose weight derives from the mask, or be tested against None / asked for their shape."""
    ctx.rule("C06.R5", "raw padded tensors of a Dataset (values, timepoints) only enter computations as the value of a mask-weighted WeightedTensor", 3)
    ix = ctx.ix
    n = 0
    for f in ix.iter_funcs():
        if not f.mod.startswith(("leaspy.models", "leaspy.algo", "leaspy.samplers", "leaspy.variables", "leaspy.utils")):
            continue
        parents = {}
        for p_ in ast.walk(f.node):
            for ch in ast.iter_child_nodes(p_):
                parents[ch] = p_
        for a in ast.walk(f.node):
            if not (isinstance(a, ast.Attribute) and a.attr in RAW_FIELDS and isinstance(a.value, ast.Name) and a.value.id in ("dataset", "data_set", "ds")):
                continue
            par = parents.get(a)
            ok, why = False, ""
            if isinstance(par, ast.Compare) and any(isinstance(c, ast.Constant) and c.value is None for c in par.comparators):
                ok, why = True, "None test"
            elif isinstance(par, ast.Attribute) and par.attr in ("shape", "dtype", "device", "ndim"):
                ok, why = True, f".{par.attr}"
            elif isinstance(par, ast.Call) and U(par.func) == "WeightedTensor" and par.args and par.args[0] is a:
                w = par.args[1] if len(par.args) > 1 else kwarg(par, "weight")
                ok = w is not None and ".mask" in U(w)
                why = f"value of WeightedTensor(..., {U(w) if w is not None else 'no weight'})"
            elif f.key in RAW_EXCEPTIONS:
                ok, why = True, RAW_EXCEPTIONS[f.key]
            n += 1
            ctx.check(ok, "C06.R5", f, a, f"`{U(a)}`: {why}", f"`{U(par)[:70] if par is not None else U(a)}` uses the raw padded tensor `{U(a)}` outside a mask-weighted WeightedTensor: "
                      "what is stored under the mask (fill value, padding) enters the result")


def r6_algorithms_keep_weights(ctx):
    """Sufficient statistics such as `y_x_model` are WeightedTensors whose weights are the observation mask; the algorithm layer only ever
    combines them with WeightedTensor arithmetic (which propagates the weights: R1).  Unwrapping (`.value`) and re-wrapping without the
    weight loses the mask for every later update rule."""
    ctx.rule("C06.R6", "the fit / sampler layer never rebuilds a WeightedTensor without its weights", 1)
    n = 0
    for f in ctx.ix.iter_funcs():
        if not (f.mod.startswith("leaspy.algo") or f.mod.startswith("leaspy.samplers")):
            continue
        for c in ast.walk(f.node):
            if not isinstance(c, ast.Call):
                continue
            ctor = U(c.func) == "WeightedTensor" or (isinstance(c.func, ast.Call) and U(c.func.func) == "type")
            if not ctor:
                continue
            w = (c.args[1] if len(c.args) > 1 else None) or kwarg(c, "weight")
            unwraps = any(isinstance(x, ast.Attribute) and x.attr in ("value", "weighted_value") for a_ in c.args[:1] for x in ast.walk(a_))
            n += 1
            ctx.check(not (w is None and unwraps), "C06.R6", f, c, "weights kept", f"`{U(c)[:80]}` rebuilds a weighted value from `.value` without its weight: the observation mask of the statistic is lost "
                      "and later updates sum over missing entries too")
    ctx.ok("C06.R6", ("leaspy.algo", "<package>"), None, f"{n} construction(s) of weighted tensors in leaspy.algo / leaspy.samplers; none drops the weights", construct="algo layer")


def r8_state_stores_data_unchecked(ctx):
    """What sits under the mask of a data variable (the fill of a missing entry, of a padded visit) is arbitrary: loading the data into a
    State never looks at the values - a refusal, a warning or a branch that depends on the raw content also depends on the masked entries."""
    from ..astq import Canon
    ctx.rule("C06.R8", "State.__setitem__ / put_data_variables take no decision on the content of the value they store", 2)
    for mod, qual in (("leaspy.variables.state", "State.__setitem__"), ("leaspy.models.mcmc_saem_compatible", "McmcSaemCompatibleModel.put_data_variables"),
                      ("leaspy.models.mcmc_saem_compatible", "McmcSaemCompatibleModel._put_data_timepoints")):
        f = ctx.ix.try_func(mod, qual)
        if f is None:
            continue
        cfg = CFG(f.node)
        cn = Canon(f.node)
        CONTENT = ("isfinite", "isnan", "isinf", ".any()", ".all()", ".max()", ".min()", ".sum()", ".mean()", ".item()", "allclose", "torch.equal")
        bad = None
        for h in cfg.nodes(lambda s_: isinstance(s_, (ast.If, ast.While, ast.Assert))):
            t = cn.text(cfg.stmt[h].test, True)
            if any(tok in t for tok in CONTENT) and (".value" in t or "dataset." in t or any(p_ in t for p_ in ("$1", "$2"))):
                bad = (cfg.stmt[h], t)
                break
        ctx.check(bad is None, "C06.R8", f, bad[0] if bad else f.node, "no test on the content of the stored value",
                  f"`{bad[1][:90] if bad else ''}` decides on the raw content of the value being stored: the entries under the mask (fill values of missing / padded observations) "
                  "take part in it, so an arbitrary fill value changes the outcome (an exception instead of a result)")


def r9_lme_drops_missing_visits(ctx):
    """The mixed-effects benchmark works on numpy arrays, outside the weighted tensors: its personalisation drops the visits whose outcome is
    missing *together with their ages* before the design matrix is built, so that counts (Z'Z, n) and sums run over observed entries only."""
    from ..astq import Canon
    ctx.rule("C06.R9", "LME personalisation: missing outcomes are dropped with their ages before anything is computed from them", 2)
    LP = "leaspy.algo.personalize.lme_personalize"
    rn = ctx.ix.func(LP, "LMEPersonalizeAlgorithm._remove_nans", "C06.R9")
    ctx.analysed(rn)
    L = Canon(rn.node).lines(False, True)
    import re as _re
    text = "; ".join(L)
    ok = _re.fullmatch(r"\$0 = \$0\.flatten\(\); (%\d+) = ~np\.isnan\(\$0\); (\$0 = \$0\[\1\]; \$1 = \$1\[\1\]|\$1 = \$1\[\1\]; \$0 = \$0\[\1\]); return \(\$0, \$1\)", text) is not None
    ctx.form("C06.R9", rn, rn.node, text, {text} if ok else set(), ["np.isnan($0)", "$0[", "$1["], "_remove_nans keeps the entries (and ages) where the outcome is not NaN",
             "_remove_nans no longer drops the missing outcomes together with their ages", construct="_remove_nans")
    f = ctx.ix.func(LP, "LMEPersonalizeAlgorithm._get_individual_random_effects_and_residuals", "C06.R9")
    ctx.analysed(f)
    cfg = CFG(f.node)
    drops = [n for n, st in cfg.stmt.items() if isinstance(st, ast.Assign) and isinstance(st.value, ast.Call) and U(st.value.func).endswith("._remove_nans")
             and isinstance(st.targets[0], ast.Tuple) and [U(t) for t in st.targets[0].elts] == [U(a) for a in st.value.args]]
    params = [a.arg for a in f.node.args.args]
    uses = [n for n, st in cfg.stmt.items() if st is not None and n not in drops and any(isinstance(x, ast.Name) and x.id in params[2:] and isinstance(x.ctx, ast.Load) for x in header_walk(st))]
    ok = bool(drops) and all(cfg.all_paths_pass(cfg.entry, drops, end=u) for u in uses)
    ctx.check(ok, "C06.R9", f, cfg.stmt[drops[0]] if drops else f.node, "`values, times = _remove_nans(values, times)` before any use of the subject's values or ages",
              "the subject's values / ages are used without having gone through `_remove_nans` first: visits without an outcome enter the design matrix and the counts, "
              "so the random effects depend on how many outcome-less visits the subject has", construct="missing visits dropped first")


def rules(ctx):
    r8_state_stores_data_unchecked(ctx)
    r1_weighted_tensor(ctx)
    r5_raw_padded_tensors(ctx)
    r6_algorithms_keep_weights(ctx)
    r2_roots(ctx)
    r3_provenance(ctx)
    r4_counts(ctx)
    r9_lme_drops_missing_visits(ctx)
    # the constant benchmark model works on numpy arrays too: its summaries ignore the missing entries (nanmax / nanmean / first non-NaN), a missing
    # entry never competes as a 0 (same rule as C20.R1)
    from .c20 import r1_constant
    r1_constant(ctx, rid="C06.R10")
    # the root of every mask: Dataset builds `mask` = (padding mask) * (not-NaN) on the rows it fills, zero-fills the NaNs afterwards and
    # restores them from the mask when values are read back (same rule as the Dataset part of C14.R3, decided on the same code)
    from .c14 import r3b_dataset_mask
    ctx.rule("C06.R7", "Dataset: mask = padding mask * not-NaN on the filled rows; NaN zero-filled after; restored from the mask on read-back", 5)
    r3b_dataset_mask(ctx, rid="C06.R7")
    ctx.trust("torch.masked_fill / sum semantics; weights of data variables are 0/1 masks")
    ctx.assume("loops over data-dependent ranges (mixture density) are summarised by one symbolic iteration")


W = "src/leaspy/utils/weighted_tensor/_weighted_tensor.py"
GAU = "src/leaspy/models/obs_models/_gaussian.py"
VARIANTS = [
    V("mask-is-a-ratio", "src/leaspy/io/data/dataset.py", "        mask = padding_mask * mask_missingvalues\n", "        mask = padding_mask / mask_missingvalues\n", "C06.R7"),
    V("padded-rows-from-one", "src/leaspy/io/data/dataset.py", "            padding_mask[i, 0:nb_vis, :] = 1.0\n", "            padding_mask[i, 1:nb_vis, :] = 1.0\n", "C06.R7"),
    V("filled-by-product", W, "        return self.value.masked_fill(self.weight == 0, fill_value)\n", "        if fill_value == 0:\n            return self.value * self.weight\n        return self.value.masked_fill(self.weight == 0, fill_value)\n", "C06.R1"),
    V("wsum-unfilled", W, "        weighted_values = weight * self.filled(0)\n", "        weighted_values = weight * self.value\n", "C06.R1"),
    V("weighted-value-unfilled", W, "        return self.weight * self.filled(0)\n", "        return self.weight * self.value\n", "C06.R1"),
    V("neg-drops-weight", W, "        return WeightedTensor(-1 * self.value, self.weight)", "        return WeightedTensor(-1 * self.value)", "C06.R1"),
    V("t-weight-all", "src/leaspy/models/mcmc_saem_compatible.py", "dataset.timepoints, dataset.mask.to(torch.bool).any(dim=LVL_FT)", "dataset.timepoints, dataset.mask.to(torch.bool).all(dim=LVL_FT)", "C06.R2"),
    V("y-unweighted", GAU, "        return WeightedTensor(dataset.values, weight=dataset.mask.to(torch.bool))", "        return WeightedTensor(dataset.values)", "C06.R2"),
    V("unmasked-model-sq", GAU, "s2 = sum_dim(WeightedTensor(model_x_model, y_x_model.weight))", "s2 = sum_dim(model_x_model)", "C06.R3"),
    V("raw-value-summed", GAU, "        s1 = sum_dim(y_x_model)\n", "        s1 = y_x_model.value.sum()\n", "C06.R3"),
    V("model-not-zeroed", "src/leaspy/models/logistic.py", "        return WeightedTensor(torch.sigmoid(model_logit), weights).weighted_value", "        return torch.sigmoid(model_logit)", "C06.R3"),
    V("nll-drops-weight", "src/leaspy/variables/distributions.py", """        return WeightedTensor(
            (
                0.5 * ((x.value - loc) / scale) ** 2
                + torch.log(scale)
                + cls.nll_constant_standard
            ),
            x.weight,
        )""", """        return WeightedTensor(
            (
                0.5 * ((x.value - loc) / scale) ** 2
                + torch.log(scale)
                + cls.nll_constant_standard
            ),
        )""", "C06.R3"),
    V("count-model-entries", GAU, "\"n_obs\": LinkedVariable(\n                    Sqr(\"y\").then(wsum_dim_return_sum_of_weights_only)", "\"n_obs\": LinkedVariable(\n                    Sqr(\"model\").then(wsum_dim_return_sum_of_weights_only)", "C06.R4"),
    V("silent-mask-from-y", GAU, "s2 = sum_dim(WeightedTensor(model_x_model, y_x_model.weight))", "s2 = sum_dim(WeightedTensor(model_x_model, state[\"y\"].weight))", None),
    V("init-from-unmasked-sum", "src/leaspy/models/logistic.py", "        values_mu, values_sigma = compute_patient_values_distribution(df)\n", "        values_mu, values_sigma = compute_patient_values_distribution(df)\n        values_mu = dataset.values.sum(dim=(0, 1)) / dataset.n_observations_per_ft\n", "C06.R5"),
    V("wsum-fill-only-when-nan", W, "        weighted_values = weight * self.filled(0)\n", "        vals = self.filled(0) if torch.isnan(self.value).any() else self.value\n        weighted_values = weight * vals\n", "C06.R1"),
    V("silent-rename-wsum-locals", "src/leaspy/utils/weighted_tensor/_weighted_tensor.py", "        weighted_values = weight * self.filled(0)\n        weighted_sum = weighted_values.sum(**kws)\n        sum_weights = weight.sum(**kws)\n        return weighted_sum.masked_fill(sum_weights == 0, fill_value), sum_weights",
      "        wv = weight * self.filled(0)\n        total = wv.sum(**kws)\n        n_w = weight.sum(**kws)\n        return total.masked_fill(n_w == 0, fill_value), n_w", None),
]
