"""C11 - seeded runs are reproducible and independent of logging and process history."""
from __future__ import annotations

import ast

from ..astq import U, call_name, statements, store_targets
from ..cfg import CFG, header_walk
from ..effects import SEEDING, CallGraph, StateWrites, global_writes, rng_draws, seeding_calls
from ..index import AnalysisError, walk_no_nested
from ..selftest import V
from ._shared import callgraph, prior_sampling_sites, state_writes

PROP = "C11"
LEVEL_TEXT = (
    "Static effect analysis over the resolved call graph of the whole package: (R1) the generator families seeded by _initialize_seed (python, numpy, torch) "
    "include every family drawn from in anything reachable from BaseAlgorithm.run; (R2) in run, the seeding call dominates the call of _run, and no algorithm "
    "constructor draws; (R3) on the public paths fit / personalize / simulate nothing that may draw is reachable before a seeding call that takes the algorithm's "
    "seed; (R4) the logging region (FitOutputManager.iteration, the __str__ chains, State.save) has an empty random-draw summary, writes no live State and no "
    "process-wide setting; (R5) every attribute of FitOutputManager read on the per-iteration path is assigned on every path of its constructor, and the "
    "console-print branch does not depend on an output folder; (R6) no process-history channel: nothing reachable from run writes class attributes, module "
    "globals or process-wide torch/numpy settings except inside a try/finally that restores them; (R7) the algorithm deep-copies settings.parameters. "
    "Unresolved call sites inside each region are counted against a hand-confirmed bound. NOT decided: bit identity across machines / BLAS, hash-seed dependent "
    "set iteration across processes."
)

BASE = "leaspy.algo.base"
FOM = "leaspy.algo.fit.fit_output_manager"


def _entry(ctx, mod, qual, rule):
    return ctx.ix.func(mod, qual, rule)


def _draws_in(ctx, cg, keys, extra_sampling=None):
    """{func key: [(family, node, text)]} of direct draws in the given functions (+ prior-sampling call sites)."""
    out = {}
    for k in keys:
        f = ctx.ix.funcs[k]
        d = rng_draws(ctx.ix, f)
        if extra_sampling and k in extra_sampling:
            d = d + [("torch", n, "prior sampling (PRIOR_SAMPLES)") for n in extra_sampling[k]]
        # the distribution families' own `sample` methods are accounted for at the sites that request PRIOR_SAMPLES
        if d:
            out[k] = d
    return out


def r1_families(ctx, cg):
    ctx.rule("C11.R1", "seeded generator families include every family drawn from under BaseAlgorithm.run", 12)
    seedf = _entry(ctx, BASE, "BaseAlgorithm._initialize_seed", "C11.R1")
    seeded = {fam for fam, _ in seeding_calls(seedf)}
    param = [p.arg for p in seedf.node.args.args if p.arg not in ("self", "cls")]
    for fam, c in seeding_calls(seedf):
        ok = c.args and U(c.args[0]) == param[0]
        ctx.check(ok, "C11.R1", seedf, c, f"{fam} generator seeded with the given seed", f"{fam} generator is seeded with `{U(c.args[0]) if c.args else ''}`, not the seed handed in")
    for fam in ("python", "numpy", "torch"):
        ctx.check(fam in seeded, "C11.R1", seedf, seedf.node, f"{fam} seeded", f"the {fam} random generator is no longer seeded", construct=f"seeds {fam}")
    run = _entry(ctx, BASE, "BaseAlgorithm.run", "C11.R1")
    seen = cg.reach([run])
    ps = prior_sampling_sites(ctx, cg)
    draws = _draws_in(ctx, cg, seen, ps)
    n = 0
    for k, ds in sorted(draws.items()):
        f = ctx.ix.funcs[k]
        for fam, node, txt in ds:
            n += 1
            ctx.check(fam in seeded, "C11.R1", f, node, f"{fam} draw `{txt}` under a seeded generator",
                      f"`{txt}` draws from the {fam} generator, which _initialize_seed does not seed: seeded runs are not reproducible")
    ctx.extra["functions_reachable_from_run"] = len(seen)
    ctx.extra["draw_sites_under_run"] = n


def r2_seed_first(ctx, cg):
    ctx.rule("C11.R2", "seed before _run; constructors draw nothing", 3)
    run = _entry(ctx, BASE, "BaseAlgorithm.run", "C11.R2")
    cfg = CFG(run.node)
    seed_nodes = [n for n, st in cfg.stmt.items() if st is not None and any(isinstance(x, ast.Call) and U(x.func) in ("self._initialize_seed", "BaseAlgorithm._initialize_seed") for x in header_walk(st))]
    run_nodes = [n for n, st in cfg.stmt.items() if st is not None and any(isinstance(x, ast.Call) and U(x.func) == "self._run" for x in header_walk(st))]
    if not run_nodes:
        raise AnalysisError("C11.R2", "anchor vanished: call of self._run in BaseAlgorithm.run")
    for rn in run_nodes:
        ok = any(cfg.dominates(s, rn) for s in seed_nodes)
        ctx.check(ok, "C11.R2", run, cfg.stmt[rn], "_initialize_seed dominates _run", "a path reaches self._run(...) without seeding first")
    for sn in seed_nodes:
        c = [x for x in header_walk(cfg.stmt[sn]) if isinstance(x, ast.Call) and U(x.func).endswith("_initialize_seed")][0]
        ctx.check(c.args and U(c.args[0]) == "self.seed", "C11.R2", run, c, "seeded with self.seed", f"seeded with `{U(c.args[0]) if c.args else ''}`, not the configured seed")
    # overriding run() elsewhere ?
    for f in ctx.ix.overrides(run.cls, "run"):
        if f.key != run.key:
            ctx.violation("C11.R2", f, f.node, "an algorithm overrides run() and bypasses the seeding", construct="def run")
    # constructors
    base = run.cls
    ctors = []
    for sub in ctx.ix.subclasses(base):
        m = ctx.ix.method(sub, "__init__")
        if m is not None and m not in ctors:
            ctors.append(m)
    seen = cg.reach(ctors)
    draws = _draws_in(ctx, cg, seen, prior_sampling_sites(ctx, cg))
    for k, ds in draws.items():
        for fam, node, txt in ds:
            ctx.violation("C11.R2", ctx.ix.funcs[k], node, f"`{txt}` is reachable from an algorithm constructor ({' -> '.join(cg.path_to(seen, k)[-4:])}): drawn before any seed is set")
    ctx.ok("C11.R2", run, run.node, f"{len(ctors)} algorithm constructors reach {len(seen)} functions, none draws", construct="constructors draw nothing")


PUBLIC = [("leaspy.models.base", "BaseModel.fit"), ("leaspy.models.base", "BaseModel.personalize"), ("leaspy.models.base", "BaseModel.simulate")]


def r3_pre_seed(ctx, cg):
    ctx.rule("C11.R3", "nothing random before the seed on fit / personalize / simulate", 3)
    ps = prior_sampling_sites(ctx, cg)
    for mod, qual in PUBLIC:
        f = ctx.ix.try_func(mod, qual)
        if f is None:
            raise AnalysisError("C11.R3", f"anchor vanished: {qual}")
        cfg = CFG(f.node)
        # seeding points inside the public method: algorithm.run(...) (seeds first, R2) or an explicit _initialize_seed(algorithm.seed)
        seed_pts = []
        for n, st in cfg.stmt.items():
            if st is None:
                continue
            for x in header_walk(st):
                if isinstance(x, ast.Call) and isinstance(x.func, ast.Attribute):
                    if x.func.attr == "_initialize_seed" and x.args and U(x.args[0]).endswith(".seed"):
                        seed_pts.append((n, "explicit"))
                    if x.func.attr == "run" and U(x.func.value) in ("algorithm", "algo"):
                        seed_pts.append((n, "run"))
        if not seed_pts:
            ctx.violation("C11.R3", f, f.node, "the public method never reaches algorithm.run / a seeding call", construct=f"def {f.name}")
            continue
        bad = 0
        for s in cg.sites[f.key]:
            n = cfg.node_containing(s.node)
            if n is None:
                continue
            if any(sn == n and kind == "run" for sn, kind in seed_pts):
                continue
            if s.kind not in ("exact", "typed", "indirect", "byname") or not s.targets:
                continue
            seen = cg.reach(s.targets)
            draws = _draws_in(ctx, cg, seen, ps)
            if not draws:
                continue
            # guarded by an explicit seeding that dominates it ?  (conditional seeding `if algorithm is not None:` is accepted when the
            # draw site is dominated by the if-header of that seeding or by the seeding itself)
            dominated = False
            for sn, kind in seed_pts:
                if cfg.dominates(sn, n):
                    dominated = True
                elif kind == "explicit":
                    hs = [h for h, lab in cfg.if_guards(sn) if "is not None" in U(cfg.stmt[h].test) and lab]
                    if hs and all(cfg.dominates(h, n) for h in hs) and cfg.stmt[sn].lineno < cfg.stmt[n].lineno:
                        dominated = True
            k0 = sorted(draws)[0]
            fam, node, txt = draws[k0][0]
            if dominated:
                ctx.ok("C11.R3", f, s.node, f"may draw ({ctx.ix.funcs[k0].qual}: {txt}) but only after the seed is set")
            else:
                bad += 1
                ctx.violation("C11.R3", f, s.node, f"`{U(s.node.func)}` may draw random numbers before any seed is set "
                              f"({' -> '.join(cg.path_to(seen, k0)[-4:])}: {txt}): a seeded {f.name} depends on what was drawn earlier in the process")
        if not bad:
            ctx.ok("C11.R3", f, f.node, "every call that may draw is preceded by a seeding call", construct=f"def {f.name}")


LOG_ENTRIES = [(FOM, "FitOutputManager.iteration"), ("leaspy.models.base", "BaseModel.__str__"), ("leaspy.variables.state", "State.save"),
               ("leaspy.algo.base", "BaseAlgorithm.__str__"), ("leaspy.algo.fit.mcmc_saem", "TensorMcmcSaemAlgorithm.log_current_iteration")]
UNRESOLVED_LOGGING_MAX = 6  # confirmed by reading: colormaps['Dark2'](...), estimation_postprocessor, callable parameters of the plotting helpers


def r4_logging(ctx, cg, sw):
    ctx.rule("C11.R4", "logging region: no random draw, no live-state write, no process-wide setting", 4)
    entries = []
    for mod, qual in LOG_ENTRIES:
        f = ctx.ix.try_func(mod, qual)
        if f is None:
            raise AnalysisError("C11.R4", f"anchor vanished: {qual}")
        entries.append(f)
    for sub in ctx.ix.overrides(entries[3].cls, "__str__") + ctx.ix.overrides(entries[1].cls, "__str__"):
        if sub not in entries:
            entries.append(sub)
    for c in ctx.ix.classes:
        if c[0].startswith("leaspy.samplers"):
            m = ctx.ix.method(c, "__str__")
            if m is not None and m not in entries:
                entries.append(m)
    seen = cg.reach(entries)
    ps = prior_sampling_sites(ctx, cg)
    draws = _draws_in(ctx, cg, seen, ps)
    for k, ds in draws.items():
        for fam, node, txt in ds:
            ctx.violation("C11.R4", ctx.ix.funcs[k], node, f"logging reaches a random draw `{txt}` ({' -> '.join(cg.path_to(seen, k)[-5:])}): "
                          "turning logging on changes the random stream, hence the result")
    n_live = 0
    for k in seen:
        f = ctx.ix.funcs[k]
        for node, desc in sw.live_writes(f):
            n_live += 1
            ctx.violation("C11.R4", f, node, f"logging {desc} ({' -> '.join(cg.path_to(seen, k)[-4:])})")
        for node, desc in global_writes(ctx.ix, f):
            if _restored(f, node):
                continue
            ctx.violation("C11.R4", f, node, f"logging writes {desc}")
    un = cg.unresolved_in(seen)
    if len(un) > UNRESOLVED_LOGGING_MAX:
        ctx.unknown("C11.R4", entries[0], entries[0].node, f"{len(un)} unresolved call sites in the logging region (hand-confirmed bound {UNRESOLVED_LOGGING_MAX}): "
                    + "; ".join(f"{s.func.qual}:{s.node.lineno} {U(s.node.func)[:30]}" for s in un[:8]), construct="unresolved calls in the logging region")
    for e in entries[:5]:
        ctx.ok("C11.R4", e, e.node, f"region of {len(seen)} functions: no draw, no live-state write, no process-wide setting ({len(un)} unresolved call sites <= {UNRESOLVED_LOGGING_MAX})",
               construct=f"def {e.name}")
    ctx.extra["logging_region_functions"] = len(seen)
    ctx.assume(f"the {len(un)} unresolved call sites of the logging region (matplotlib colormap call, caller-supplied post-processor, plotting callbacks) have no effect on the state or the generators")


def _restored(f, node) -> bool:
    """A process-wide setting written inside a try whose finally writes the same kind of setting back (context-manager idiom)."""
    for t in ast.walk(f.node):
        if isinstance(t, ast.Try) and t.finalbody:
            inside = any(x is node for b in t.body for x in ast.walk(b)) or any(x is node for b in t.finalbody for x in ast.walk(b))
            if inside:
                fin_calls = {U(c.func) for b in t.finalbody for c in ast.walk(b) if isinstance(c, ast.Call)}
                if isinstance(node, ast.Call) and U(node.func) in fin_calls:
                    return True
    # also: the set-call itself sits right before a try whose finally restores (yield in between)
    if isinstance(node, ast.Call):
        name = U(node.func)
        for t in ast.walk(f.node):
            if isinstance(t, ast.Try) and t.finalbody:
                fin_calls = {U(c.func) for b in t.finalbody for c in ast.walk(b) if isinstance(c, ast.Call)}
                if name in fin_calls:
                    return True
    return False


def r5_definite_assignment(ctx):
    ctx.rule("C11.R5", "attributes of FitOutputManager read per iteration are assigned on every constructor path; printing does not need a folder", 8)
    ix = ctx.ix
    init = ix.func(FOM, "FitOutputManager.__init__", "C11.R5")
    cfg = CFG(init.node)
    assigned = {}
    for n, st in cfg.stmt.items():
        if isinstance(st, (ast.Assign, ast.AnnAssign)):
            for t in store_targets(st):
                if isinstance(t, ast.Attribute) and U(t.value) == "self":
                    assigned.setdefault(t.attr, []).append(n)
    cls = init.cls
    read = {}
    for b in ix.classes[cls].body:
        if isinstance(b, ast.FunctionDef) and b.name != "__init__":
            for x in ast.walk(b):
                if isinstance(x, ast.Attribute) and U(x.value) == "self" and isinstance(x.ctx, ast.Load):
                    if ix.method(cls, x.attr) is None:
                        read.setdefault(x.attr, (ix.funcs[(cls[0], f"{cls[1]}.{b.name}")], x))
    for a, (f, node) in sorted(read.items()):
        sites = assigned.get(a, [])
        if not sites:
            later = [x for b in ix.classes[cls].body if isinstance(b, ast.FunctionDef) for x in ast.walk(b)
                     if isinstance(x, ast.Attribute) and x.attr == a and isinstance(x.ctx, ast.Store)]
            ctx.check(bool(later), "C11.R5", f, node, f"self.{a} set outside the constructor", f"self.{a} is read but never assigned", construct=f"self.{a}")
            continue
        definite = cfg.all_paths_pass(cfg.entry, sites)
        ctx.check(definite, "C11.R5", init, cfg.stmt[sites[0]], f"self.{a} assigned on every constructor path",
                  f"self.{a} is assigned only on some constructor paths (e.g. only when an output folder is configured) but read by {f.qual}: "
                  "AttributeError at the first logged iteration", construct=f"self.{a}")
    # print branch must not be behind the no-folder return
    it = ix.func(FOM, "FitOutputManager.iteration", "C11.R5")
    icfg = CFG(it.node)
    prints = [n for n, st in icfg.stmt.items() if st is not None and any(isinstance(x, ast.Call) and U(x.func).startswith("self.print_") for x in header_walk(st))]
    rets = [n for n, st in icfg.stmt.items() if isinstance(st, ast.Return) and any("path_output" in U(icfg.stmt[h].test) for h, lab in icfg.if_guards(n))]
    for p in prints:
        blocked = False
        for r in rets:
            for h, lab in icfg.if_guards(r):
                if "path_output" in U(icfg.stmt[h].test) and icfg.dominates(h, p):
                    blocked = True
        ctx.check(not blocked, "C11.R5", it, icfg.stmt[p], "console printing does not depend on an output folder",
                  "console printing is skipped (or crashes) when no output folder is configured: `print_periodicity` alone has no effect")


def r14_ambient_tensor_type(ctx):
    """'whatever was done earlier in the process': the sampling-based algorithms create their tensors with the ambient default type, so the
    device manager they all run under *sets* it on every path before handing over (not only when a device switch is asked for) - otherwise
    a default dtype left by earlier activity in the interpreter decides the result of a seeded run."""
    ctx.rule("C11.R14", "the device manager sets the default tensor type on every path before its body runs, and restores the default afterwards", 2)
    f = ctx.ix.func("leaspy.algo.algo_with_device", "AlgorithmWithDeviceMixin._device_manager", "C11.R14")
    ctx.analysed(f)
    cfg = CFG(f.node)

    def sets(st):
        return st is not None and any(isinstance(c, ast.Call) and U(c.func) in ("torch.set_default_tensor_type", "torch.set_default_dtype") for c in header_walk(st))
    setters = [n for n, st in cfg.stmt.items() if sets(st)]
    yields = [n for n, st in cfg.stmt.items() if st is not None and any(isinstance(c, (ast.Yield, ast.YieldFrom)) for c in header_walk(st))]
    if not yields:
        ctx.unknown("C11.R14", f, f.node, "the device manager no longer yields", construct="type set before the body")
        return
    for y in yields:
        ok = y in setters or cfg.all_paths_pass(cfg.entry, [s_ for s_ in setters if s_ != y], end=y)
        ctx.check(ok, "C11.R14", f, cfg.stmt[y], "the default tensor type is set on every path to the `yield`",
                  "a path reaches the `yield` without setting the default tensor type: the run then creates its tensors with whatever default dtype earlier activity "
                  "left in the process, so the same seeded call gives another result (or aborts on a dtype mismatch)", construct="type set before the body")
    # restored to the class default on the way out (finally)
    restore = [n for n in setters if any(isinstance(c, ast.Call) and c.args and U(c.args[0]) == "self._default_algorithm_tensor_type" for c in header_walk(cfg.stmt[n]))
               and any(cfg.reachable(y, n) for y in yields) and n not in yields]
    in_finally = any(isinstance(t, ast.Try) and any(cfg.stmt[n] in list(ast.walk(ast.Module(body=t.finalbody, type_ignores=[]))) for n in restore) for t in ast.walk(f.node))
    ctx.check(bool(restore) and in_finally, "C11.R14", f, cfg.stmt[restore[0]] if restore else f.node, "default tensor type restored in a `finally`",
              "the default tensor type is not restored in a `finally` after the body: a later run in the process inherits this one's type", construct="type restored afterwards")


def r16_seed_presence_not_truthiness(ctx):
    """'a fixed seed': 0 is a seed.  Whether a configured seed is taken over is decided by its presence (`"seed" in settings`, `is not None`),
    never by its truth value - `if settings.get("seed"):` drops the seed 0 and the run is then not seeded at all."""
    ctx.rule("C11.R16", "a configured seed is recognised by its presence, never by its truth value (0 is a seed)", 1)
    n_ok = 0

    def reads_seed(e):
        t = U(e)
        return t in ("seed", "self.seed", "settings.seed", "algorithm_settings.seed") or (isinstance(e, ast.Subscript) and isinstance(e.slice, ast.Constant) and e.slice.value == "seed") \
            or (isinstance(e, ast.Call) and isinstance(e.func, ast.Attribute) and e.func.attr in ("get", "pop") and e.args and isinstance(e.args[0], ast.Constant) and e.args[0].value == "seed")
    for f in ctx.ix.iter_funcs():
        if f.mod not in ("leaspy.algo.settings", "leaspy.algo.base", "leaspy.models.base"):
            continue
        for n in walk_no_nested(f.node):
            tests = []
            if isinstance(n, (ast.If, ast.While, ast.IfExp)):
                tests.append(n.test)
            if isinstance(n, ast.BoolOp):
                tests.extend(n.values[:-1] if isinstance(n.op, ast.Or) else n.values)
            for t in tests:
                core_ = t.operand if isinstance(t, ast.UnaryOp) and isinstance(t.op, ast.Not) else t
                if reads_seed(core_):
                    ctx.violation("C11.R16", f, t, f"`{U(t)[:60]}` decides on the truth value of the seed: the seed 0 is treated as 'no seed', so a run configured with it is never seeded and "
                                  "two identical calls give different results", construct=f"truthiness of the seed in {f.qual}")
                elif isinstance(core_, ast.Compare) and any(reads_seed(x) or (isinstance(x, ast.Constant) and x.value == "seed") for x in [core_.left] + list(core_.comparators)):
                    n_ok += 1
                    ctx.ok("C11.R16", f, t, f"`{U(t)[:60]}`: presence / None test", construct=f"seed test in {f.qual}")
    if not n_ok:
        ctx.unknown("C11.R16", ("leaspy.algo.settings", "AlgorithmSettings.load"), None, "no presence test about the seed found any more", construct="seed tests")


def r6_history(ctx, cg):
    ctx.rule("C11.R6", "no process-history channel under run (class attributes, module globals, process-wide settings)", 1)
    run = _entry(ctx, BASE, "BaseAlgorithm.run", "C11.R6")
    entries = [run] + [ctx.ix.funcs[(m, q)] for m, q in PUBLIC if (m, q) in ctx.ix.funcs]
    seen = cg.reach(entries)
    n = 0
    for k in seen:
        f = ctx.ix.funcs[k]
        for node, desc in global_writes(ctx.ix, f):
            if _restored(f, node):
                ctx.ok("C11.R6", f, node, f"{desc}: restored in a finally")
                continue
            if desc.startswith("process-wide setting warnings."):
                continue
            n += 1
            ctx.violation("C11.R6", f, node, f"{desc} survives the call ({' -> '.join(cg.path_to(seen, k)[-4:])}): a later run in the same process depends on this one")
    ctx.ok("C11.R6", run, run.node, f"{len(seen)} functions reachable from run / fit / personalize / simulate: no surviving global write", construct="global writes under run")


def r7_deepcopy(ctx, rid="C11.R7"):
    ctx.rule(rid, "algorithm parameters are a deep copy of settings.parameters", 1)
    f = ctx.ix.func(BASE, "BaseAlgorithm.__init__", rid)
    for st in statements(f.node):
        if isinstance(st, ast.Assign) and any(U(t) == "self.algo_parameters" for t in st.targets):
            v = st.value
            ok = isinstance(v, ast.Call) and U(v.func) in ("deepcopy", "copy.deepcopy") and v.args and U(v.args[0]) == "settings.parameters"
            ctx.check(ok, rid, f, st, "deepcopy(settings.parameters)",
                      "the algorithm shares (or only shallow-copies) settings.parameters: values it rewrites (e.g. n_burn_in_iter, annealing.n_iter) leak into the caller's settings and into the next run")
            return
    raise AnalysisError(rid, "anchor vanished: self.algo_parameters = ... in BaseAlgorithm.__init__")


def r13_log_folders_created(ctx):
    """'Turning logging on never aborts the run': every folder the output manager writes into (convergence files, plots, patient plots) is
    created when the outputs are configured - unconditionally, since each kind of output has its own, independent periodicity."""
    ctx.rule("C11.R13", "every log folder handed to the output manager is created unconditionally by OutputsSettings", 3)
    f = ctx.ix.func("leaspy.algo.settings", "OutputsSettings._check_needed_folders_are_empty_or_create_them", "C11.R13")
    cfg = CFG(f.node)
    paths = {U(t).split(".", 1)[1] for st in statements(f.node) if isinstance(st, ast.Assign) for t in st.targets if U(t).startswith("self.") and U(t).endswith("_path") and U(t) != "self.root_path"}
    created = {}
    for n, st in cfg.stmt.items():
        if st is None:
            continue
        for c in header_walk(st):
            if isinstance(c, ast.Call) and isinstance(c.func, ast.Attribute) and c.func.attr == "_check_folder_is_empty_or_create_it" and c.args and U(c.args[0]).startswith("self."):
                created[U(c.args[0]).split(".", 1)[1]] = (n, c)
    fom = ctx.ix.func("leaspy.algo.fit.fit_output_manager", "FitOutputManager.__init__", "C11.R13")
    used = {x.attr for x in ast.walk(fom.node) if isinstance(x, ast.Attribute) and U(x.value) == "outputs" and x.attr.endswith("_path") and x.attr != "root_path"}
    for pth in sorted(used | paths):
        if pth not in created:
            ctx.violation("C11.R13", f, f.node, f"the folder `{pth}` used by the output manager is never created: the first file written into it aborts the run", construct=f"folder {pth}")
            continue
        n, c = created[pth]
        guards = [(U(cfg.stmt[h].test), lab) for h, lab in cfg.if_guards(n)]
        ctx.check(not guards, "C11.R13", f, c, f"`{pth}` created unconditionally", f"the folder `{pth}` is only created when `{guards[0][0][:70] if guards else ''}`: a run that logs into it under another combination "
                  "of periodicities aborts with FileNotFoundError at the first write", construct=f"folder {pth}")


def r19_palette_sized_by_count(ctx):
    """'Turning logging on never aborts the run': a table indexed by the running index of a loop over a configured count (patients to plot)
    has to be as long as that count for every configuration.  A fixed palette (the `.colors` of a qualitative colormap, a literal list)
    indexed by the bare loop index raises IndexError as soon as the configured count exceeds its length."""
    ctx.rule("C11.R19", "in the fit-logging code a table indexed by a loop index is not a fixed-length palette (sized by a call taking the count, cycled, or indexed modulo its length)", 1)
    n = 0
    for f in ctx.ix.iter_funcs():
        if f.mod != FOM:
            continue
        loopvars = set()
        for l in ast.walk(f.node):
            if isinstance(l, (ast.For, ast.comprehension)):
                for t in ast.walk(l.target):
                    if isinstance(t, ast.Name):
                        loopvars.add(t.id)
        defs = {}
        for st in ast.walk(f.node):
            if isinstance(st, ast.Assign) and len(st.targets) == 1 and isinstance(st.targets[0], ast.Name):
                defs.setdefault(st.targets[0].id, []).append(st.value)
        for sub in ast.walk(f.node):
            if not (isinstance(sub, ast.Subscript) and isinstance(sub.value, ast.Name) and isinstance(sub.slice, ast.Name) and sub.slice.id in loopvars
                    and isinstance(sub.ctx, ast.Load) and sub.value.id in defs):
                continue
            n += 1
            fixed = [v for v in defs[sub.value.id]
                     if isinstance(v, (ast.List, ast.Tuple)) or (isinstance(v, ast.Attribute) and v.attr in ("colors", "by_key"))
                     or (isinstance(v, ast.Call) and U(v.func) in ("list", "tuple") and v.args and isinstance(v.args[0], ast.Attribute) and v.args[0].attr == "colors")]
            ctx.check(not fixed, "C11.R19", f, sub, f"`{sub.value.id}` is computed (not a fixed-length palette) where it is indexed by the loop index `{sub.slice.id}`",
                      f"`{U(sub)}`: `{sub.value.id}` is the fixed-length table `{U(fixed[0])[:60] if fixed else ''}` indexed by the bare loop index `{sub.slice.id}`: a configured count larger than the table "
                      "raises IndexError in the logging call and aborts the fit", construct=f"{f.qual}: {U(sub)}")
    # zero loop-indexed tables is a legitimate state of the code (e.g. `zip(..., colors)`): the rule forbids a construct, it does not demand one;
    # the `fixed-palette` variant of the catalogue shows on every thorough run that the rule still matches
    ctx.ok("C11.R19", (FOM, "FitOutputManager"), None, f"{n} loop-indexed table(s) in the fit-logging code, none a fixed-length palette", construct="loop-indexed tables")


def r10_no_bare_squeeze_in_logging(ctx):
    """'Turning logging on never aborts the run': the logging code plots / writes arrays whose shapes depend on the data (one visit, one
    feature, one source ...).  `x.squeeze()` without a dimension drops EVERY singleton axis, so an individual with a single visit or a
    model with a single feature changes the rank handed to matplotlib / csv - which then raises and aborts the fit."""
    ctx.rule("C11.R10", "the fit-logging code never squeezes without naming the axis", 1)
    n = 0
    for f in ctx.ix.iter_funcs():
        if f.mod != "leaspy.algo.fit.fit_output_manager":
            continue
        for c in ast.walk(f.node):
            if isinstance(c, ast.Call) and ((isinstance(c.func, ast.Attribute) and c.func.attr == "squeeze") or U(c.func) in ("torch.squeeze", "np.squeeze")):
                n += 1
                named = bool(c.args[1:] if U(c.func) in ("torch.squeeze", "np.squeeze") else c.args) or any(k.arg in ("dim", "axis") for k in c.keywords)
                ctx.check(named, "C11.R10", f, c, "squeeze of a named axis", f"`{U(c)[-60:]}` drops every singleton axis: with a single visit (or feature) the array loses the axis the plot / file code "
                          "indexes, the logging call raises and the fit is aborted")
    ctx.ok("C11.R10", ("leaspy.algo.fit.fit_output_manager", "FitOutputManager"), None, f"{n} squeeze call(s) in the logging code, all with an explicit axis", construct="squeeze calls")


def rules(ctx):
    cg = callgraph(ctx)
    sw = state_writes(ctx)
    r1_families(ctx, cg)
    r2_seed_first(ctx, cg)
    r3_pre_seed(ctx, cg)
    r4_logging(ctx, cg, sw)
    r5_definite_assignment(ctx)
    r6_history(ctx, cg)
    r14_ambient_tensor_type(ctx)
    r16_seed_presence_not_truthiness(ctx)
    r7_deepcopy(ctx)
    r10_no_bare_squeeze_in_logging(ctx)
    r19_palette_sized_by_count(ctx)
    r13_log_folders_created(ctx)
    # 'whatever was fitted earlier in the process': what a run leaves behind must not seed the next one. Same structural rules as
    # C13.R1 (a model never keeps the individual latent values / data of a run: the next run would start from them instead of from
    # seeded draws) and C13.R5 (nothing is written through process-wide containers), decided on the same code.
    from .c13 import r1_typestate, r5_shared_defaults
    r1_typestate(ctx, rid="C11.R8", title="no run leaves individual latent values / data in the model (the next seeded run would start from them)")
    r5_shared_defaults(ctx, rid="C11.R9")
    # the jobs handed to joblib run in worker processes whose generators the seeding of run() does not reach (and which keep their state
    # from one call to the next): nothing may be drawn inside a job (same rule as C07.R3)
    from .c07 import r3_job_effects
    r3_job_effects(ctx, rid="C11.R11", title="nothing is drawn inside the per-subject jobs (worker processes are not seeded by run())")
    # "the same seeded call repeated gives the same answer": no call rewrites, in place, a tensor it read from the model (parameters, state
    # values, and their numpy views) - the second call would start from other parameters (same rule as C13.R6)
    from ._shared import inplace_on_state_values
    ctx.rule("C11.R12", "no in-place write into a tensor obtained from the model's parameters / state (a repeated seeded call would see other values)", 8)
    sites, holders = inplace_on_state_values(ctx)
    for fn, node, desc in sites:
        ctx.violation("C11.R12", fn, node, desc + ": the model is not the same after the call, so the identical seeded call repeated gives another result")
    for fn, names in holders:
        ctx.ok("C11.R12", fn, fn.node, f"locals aliasing model values {names}: never written in place", construct=f"def {fn.name}")
    # "the same seeded call repeated": an algorithm object run twice builds its samplers anew (same rule as C07.R13)
    # "independent of logging": printing the algorithm (`__str__` of the samplers) changes nothing - the proposal scales have `_update_std` as
    # their only writer, in-place writes through a view included (same rule as C19.R3)
    # "the same seeded call repeated": what the caller put into the settings (the table of visits) is the same at the second call (same rule as C13.R15)
    from .c13 import r15_user_objects_in_the_settings_only_read
    r15_user_objects_in_the_settings_only_read(ctx, rid="C11.R18", why="the second, identically seeded call built from the same settings sees another table (another order of the subjects) and gives the draws to other subjects")
    from .c19 import r3_std
    r3_std(ctx, rid="C11.R17", title="the proposal scales are written by _update_std only (printing a sampler, logging, ... never rescales them)")
    from .c07 import r13_fresh_samplers_every_run
    r13_fresh_samplers_every_run(ctx, rid="C11.R15", why="the same seeded run repeated on the same algorithm object starts from the proposal scales adapted by the first run and gives another result")
    st = cg.stats()
    ctx.extra["call_sites"] = st
    ctx.trust("effect tables for torch / numpy / random / scipy.stats draws (sa/effects.py); joblib / matplotlib do not draw from the seeded generators")


AB = "src/leaspy/algo/base.py"
FM = "src/leaspy/algo/fit/fit_output_manager.py"
MB = "src/leaspy/models/base.py"
VARIANTS = [
    V("no-numpy-seed", AB, "            np.random.seed(seed)\n", "", "C11.R1"),
    V("seed-after-run", AB, "        self._initialize_seed(self.seed)\n        time_beginning = time.time()", "        time_beginning = time.time()", "C11.R2"),
    V("draw-in-constructor", "src/leaspy/algo/algo_with_samplers.py", "        self.current_iteration: int = 0\n", "        self.current_iteration: int = 0\n        self._jitter = torch.rand(())\n", "C11.R2"),
    V("init-before-seed", MB, """        if not self.is_initialized:
            if algorithm is not None:
                # the initialization may be random: it has to be seeded as well
                algorithm._initialize_seed(algorithm.seed)
            self.initialize(dataset)""", """        if not self.is_initialized:
            self.initialize(dataset)""", "C11.R3"),
    V("fixed-palette", FM, 'colormaps["Dark2"](np.linspace(0, 1, number_of_patient_plot + 2))', 'colormaps["Dark2"].colors', "C11.R19"),
    V("logging-draws", FM, "    def print_time(self):\n", "    def print_time(self):\n        self._tick = torch.rand(())\n", "C11.R4"),
    V("logging-writes-state", FM, "        model.state.save(\n", "        model.state.put_individual_latent_variables(None)\n        model.state.save(\n", "C11.R4"),
    V("path-attrs-conditional", FM, "        self.path_output = None\n        self.path_plot = None\n", "", "C11.R5"),
    V("print-needs-folder", FM, """        if self.periodicity_print is not None:
            if iteration == 0 or iteration % self.periodicity_print == 0:
                self.print_algo_statistics(algo)
                self.print_model_statistics(model)
                self.print_time()

        if self.path_output is None:
            return
""", """        if self.path_output is None:
            return

        if self.periodicity_print is not None:
            if iteration == 0 or iteration % self.periodicity_print == 0:
                self.print_algo_statistics(algo)
                self.print_model_statistics(model)
                self.print_time()
""", "C11.R5"),
    V("class-level-cache", "src/leaspy/algo/fit/mcmc_saem.py", "        sufficient_statistics = model.compute_sufficient_statistics(state)\n", "        sufficient_statistics = model.compute_sufficient_statistics(state)\n        TensorMcmcSaemAlgorithm._last_stats = sufficient_statistics\n", "C11.R6"),
    V("shallow-params", AB, "self.algo_parameters = deepcopy(settings.parameters)", "self.algo_parameters = settings.parameters", "C11.R7"),
    V("silent-seed-helper", AB, "        self._initialize_seed(self.seed)\n        time_beginning = time.time()", "        seed = self.seed\n        self._initialize_seed(self.seed)\n        time_beginning = time.time()", None),
    V("silent-rename-run-kwargs", AB, "run_kwargs", "kw", None, count=4),
]
