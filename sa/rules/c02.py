"""C02 - a rejected proposal leaves no trace in the state."""
from __future__ import annotations

import ast

from ..astq import Inliner, U, kwarg, call_name, local_defs, statements, store_targets
from ..cfg import CFG, header_walk
from ..index import AnalysisError, walk_no_nested
from ..selftest import V
from ._samplers import branch_paths_pass, branch_reaches, negation_of, sample_functions

PROP = "C02"
LEVEL_TEXT = (
    "Static fork/revert protocol check: (R1) in State.__setitem__ the snapshot of exactly (name,)+sorted_children is taken, when auto-fork is on, "
    "at a point dominating the store; (R2) typestate of every concrete sampler `sample`: each state.put of a proposal is followed on every path - "
    "before any other state write, the loop back-edge or the exit - by exactly one acceptance decision, and the revert sits on the rejecting side with the "
    "right polarity (`if not accepted: revert()` / `revert(~accepted)`); (R3) the full revert restores the whole snapshot then clears it, the partial revert "
    "iterates the whole snapshot, stores None when either side is unset, clears the snapshot; (R4) the partial revert *selects* (torch.where, old value on the "
    "reverting side) instead of blending arithmetically, so that a non-finite proposal cannot leak NaN into rejected rows (0*inf); (R5) between a proposal and a "
    "per-individual revert the individual sampler only reads variables that keep the individual axis in every shipped model configuration (axis-0 abstract domain "
    "over the extracted variable graphs). NOT decided: bit-exactness of tensor values, exactness of the closure (C15)."
)

STATE = "leaspy.variables.state"


def r1_snapshot(ctx, rid="C02.R1", title="snapshot of (name,)+sorted_children before the store, under auto_fork_type is not None"):
    ctx.rule(rid, title, 2)
    # what is put aside keeps every key it was given - also those whose value is unset (None): the snapshot records *that* a derived value was
    # not computed yet, and a revert resets it (a key dropped here keeps whatever was computed from the rejected proposal)
    from ..astq import canon_lines as _cl
    tc = ctx.ix.func(STATE, "StateForkType.to_cache", rid)
    tl = "; ".join(_cl(tc.node, True, True))
    import re as _re
    tc_ok = _re.fullmatch(r"if \$0 is \$0\.REF; return \$1; return \{(%\d+): copy\.deepcopy\((%\d+)\) for \1, \2 in \$1\.items\(\)\}", tl) is not None \
        or _re.fullmatch(r"if \$0 is \$0\.REF; return \$1; return copy\.deepcopy\(\$1\)", tl) is not None
    # helpers of the module the snapshot goes through: a copy may be taken there
    helper_txt = ""
    for c_ in ast.walk(tc.node):
        if isinstance(c_, ast.Call) and isinstance(c_.func, (ast.Attribute, ast.Name)):
            hn = c_.func.attr if isinstance(c_.func, ast.Attribute) else c_.func.id
            for hf in ctx.ix.iter_funcs():
                if hf.mod == STATE and hf.name == hn and hf.key != tc.key:
                    helper_txt += ast.unparse(hf.node)
    copies_somewhere = any(tok in tl + helper_txt for tok in ("deepcopy(", ".clone(", "torch.clone("))
    if not copies_somewhere:
        ctx.violation(rid, tc, tc.node, f"the COPY strategy of the snapshot no longer deep-copies what it keeps (`{tl[-110:]}`): a `detach()` / `clone`-less copy shares its storage with the live tensors, "
                      "so a caller that recycles a tensor it read from the state changes what a revert restores - the very case the COPY strategy exists for", construct="to_cache copies under COPY")
        tc_ok = None
    if tc_ok is not None:
      ctx.form(rid, tc, tc.node, tl, {tl} if tc_ok else set(), ["return $1", "copy.deepcopy("], "to_cache keeps every key (by reference, or deep-copied)",
             "StateForkType.to_cache no longer returns every entry it is given: an entry left out of the snapshot (e.g. a derived value that is still unset) is not reset by a revert, "
             "so what was computed from the rejected assignment stays in the cache", forbidden=[r"\bfor\b[^{}]*\bif\b", r"is not None", r"\.pop\("], construct="to_cache keeps every key")
    f = ctx.ix.func(STATE, "State.__setitem__", rid)
    cfg = CFG(f.node)
    inl = Inliner(f.node)
    key = [p.arg for p in f.node.args.args][1]
    stores = [n for n in cfg.nodes(lambda s: isinstance(s, ast.Assign) and any(
        isinstance(t, ast.Subscript) and U(t.value) == "self._values" and U(t.slice) == key for t in s.targets))]
    snaps = [n for n in cfg.nodes(lambda s: isinstance(s, ast.Assign) and any(U(t) == "self._last_fork" for t in s.targets))]
    if len(stores) != 1:
        raise AnalysisError(rid, "anchor vanished: the store `self._values[name] = value` in State.__setitem__")
    if not snaps:
        ctx.violation(rid, f, f.node, "State.__setitem__ takes no snapshot (`self._last_fork = ...`): nothing to revert to", construct="def __setitem__")
        return
    store = stores[0]
    # every assignment stores (and therefore snapshots): a put that returns early leaves the snapshot of an *earlier* assignment as the
    # reference of the next revert, which then undoes an accepted move (or finds nothing to revert)
    ctx.check(cfg.all_paths_pass(cfg.entry, [store]), rid, f, cfg.stmt[store], "every normal path through __setitem__ reaches the store (no silent early return)",
              "State.__setitem__ can return without storing / snapshotting (e.g. when the value is unchanged): the next revert then restores the snapshot of an earlier, "
              "already accepted assignment", construct="no early return before the store")
    for sn in snaps:
        hs = [h for h, pol in cfg.if_guards(sn)]
        ctx.check(bool(hs) and cfg.all_paths_pass(cfg.entry, [hs[-1]], end=store), rid, f, cfg.stmt[sn], "the auto-fork test is evaluated on every path to the store",
                  "some path reaches the store without evaluating the auto-fork test: no snapshot on that path", construct="auto-fork test on every path")
    for sn in snaps:
        st = cfg.stmt[sn]
        before = cfg.reachable(sn, store) and not cfg.reachable(store, sn)
        gs = cfg.if_guards(sn)
        guarded = any(pol is True and U(cfg.stmt[h].test) in ("self.auto_fork_type is not None",) for h, pol in gs) or \
            any(pol is False and U(cfg.stmt[h].test) in ("self.auto_fork_type is None",) for h, pol in gs)
        # every path entry -> store with auto-fork on passes the snapshot: the guard's True branch must always pass sn before store
        ctx.check(before, rid, f, st, "snapshot precedes the store on every path",
                  "the snapshot is taken after (or not before) the store: it would capture the proposed value, so a revert restores nothing")
        # key set
        comps = [x for x in ast.walk(st.value) if isinstance(x, ast.DictComp)]
        if len(comps) != 1:
            ctx.unknown(rid, f, st, "snapshot is not built by a single dict comprehension over the keys")
            continue
        dc = comps[0]
        it = inl.resolve(dc.generators[0].iter)
        tgt = U(dc.generators[0].target)
        txt = U(it)
        want = {f"({key},) + self.dag.sorted_children[{key}]", f"self.dag.sorted_children[{key}] + ({key},)",
                f"[{key}] + list(self.dag.sorted_children[{key}])", f"({key}, *self.dag.sorted_children[{key}])"}
        keys_ok = txt in want and U(dc.key) == tgt and U(dc.value) == f"self._values[{tgt}]" and not dc.generators[0].ifs
        ctx.check(keys_ok and guarded, rid, f, dc, "snapshot = {k: self._values[k] for k in (name,)+sorted_children[name]} when auto-fork is on",
                  f"snapshot keys are `{txt}` (values `{U(dc.value)}`), not exactly the variable and all its transitive children - a revert would leave "
                  "derived values computed from the rejected proposal" if not keys_ok else "snapshot not taken exactly when auto_fork_type is not None")


def r2_typestate(ctx):
    ctx.rule("C02.R2", "propose -> decide -> revert-on-reject typestate in every concrete sampler", 4)
    for sf in sample_functions(ctx.ix, "C02.R2"):
        f, cfg = sf.f, sf.cfg
        puts = [(n, x) for n, x, how in sf.writes]
        if not puts:
            ctx.violation("C02.R2", f, f.node, "sampler never writes a proposal into the state", construct="def sample")
            continue
        for pn, px in puts:
            ends = sf.ends_for(pn)
            decs = [(n, c, kind, var) for n, c, kind, var in sf.decisions if cfg.reachable(pn, n)]
            dnodes = [d[0] for d in decs]
            all_pass = all(cfg.all_paths_pass(pn, dnodes, end=e) for e in ends) if dnodes else False
            if not all_pass:
                ctx.violation("C02.R2", f, px, "a path from this proposal reaches the next iteration / the exit without an acceptance decision")
                continue
            # no other state write between the put and the decision
            others = [n for n, x, how in sf.writes if n != pn and cfg.reachable(pn, n) and any(cfg.reachable(n, d) for d in dnodes)
                      and not cfg.reachable(dnodes[0], n)]
            if others:
                ctx.violation("C02.R2", f, cfg.stmt[others[0]], "another state write sits between the proposal and its decision (the snapshot of the proposal is overwritten)")
                continue
            # a decision whose outcome is thrown away cannot steer anything: the only sound continuation is an unconditional full revert
            thrown = [d for d in decs if d[3] is None]
            bad_thrown = False
            for dn, dc, dkind, dvar in thrown:
                full = [n for n, c in sf.reverts if not c.args and not c.keywords and cfg.reachable(dn, n)]
                if full and all(cfg.all_paths_pass(dn, full, end=e) for e in ends):
                    ctx.ok("C02.R2", f, dc, "outcome not used, and every path from here reverts the whole proposal")
                else:
                    bad_thrown = True
                    ctx.violation("C02.R2", f, dc, f"the outcome of `{U(dc)[:60]}` is thrown away and a path from it reaches the next proposal / the exit without `state.revert()`: "
                                  "the proposal stays in the state although it was not accepted")
            decs = [d for d in decs if d[3] is not None]
            if bad_thrown or not decs:
                continue
            dn, dc, dkind, dvar = decs[0]
            revs = [(n, c) for n, c in sf.reverts if cfg.reachable(dn, n)]
            if not revs:
                ctx.violation("C02.R2", f, dc, "no state.revert after the decision: a rejected proposal stays in the state")
                continue
            if dkind == "scalar":
                ok = False
                reason = ""
                for rn, rc in revs:
                    if rc.args or rc.keywords:
                        reason = "full rejection must call state.revert() without subset"
                        continue
                    pol = None
                    guard = None
                    for h, lab in cfg.if_guards(rn):
                        t = cfg.stmt[h].test
                        if not cfg.reachable(dn, h):
                            continue
                        if negation_of(t, dvar):
                            pol, guard = (lab is True), h
                        elif isinstance(t, ast.Name) and t.id == dvar:
                            pol, guard = (lab is False), h
                    if pol is None:
                        reason = "state.revert() is not control-dependent on the decision"
                        continue
                    if not pol:
                        reason = f"state.revert() runs when the proposal is ACCEPTED (`{U(cfg.stmt[guard].test)}`) and not when it is rejected"
                        continue
                    reject_label = True if negation_of(cfg.stmt[guard].test, dvar) else False
                    every = all(branch_paths_pass(cfg, guard, reject_label, [rn], e) for e in ends)
                    leaks = any(branch_reaches(cfg, guard, not reject_label, rn, ends) for _ in (0,))
                    if not every:
                        reason = "on the rejecting side a path skips state.revert()"
                        continue
                    if leaks:
                        reason = "state.revert() is also reachable on the accepting side"
                        continue
                    ok = True
                ctx.check(ok, "C02.R2", f, px, f"`{dvar} = self._metropolis_step(alpha)`; revert() exactly on the `not {dvar}` side, before the next proposal",
                          reason or "revert protocol not recognised")
            else:
                ok = False
                reason = ""
                for rn, rc in revs:
                    arg = rc.args[0] if rc.args else (rc.keywords[0].value if rc.keywords and rc.keywords[0].arg == "subset" else None)
                    if arg is None:
                        reason = "per-individual decision followed by a FULL revert: accepted individuals lose their proposal"
                        continue
                    a = arg
                    if isinstance(arg, ast.Name) and arg.id != dvar:
                        d = sf.inl.single(arg.id)
                        a = d if d is not None else arg
                    if not negation_of(a, dvar):
                        if (isinstance(a, ast.Name) and a.id == dvar):
                            reason = f"state.revert({U(arg)}) reverts the ACCEPTED individuals (mask is not negated)"
                        else:
                            reason = f"revert subset `{U(arg)}` is not the negation of the acceptance mask `{dvar}`"
                        continue
                    uncond = all(cfg.all_paths_pass(dn, [rn], end=e) for e in ends)
                    if not uncond:
                        reason = "a path from the decision skips state.revert(~accepted)"
                        continue
                    ok = True
                ctx.check(ok, "C02.R2", f, px, f"`{dvar} = self._group_metropolis_step(alpha)`; revert(~{dvar}) on every path",
                          reason or "revert protocol not recognised")
        for k in sf.classes:
            ctx.ok("C02.R2", f, f.node, f"definition used by concrete sampler {k[1]}", construct=f"def sample [{k[1]}]", instance=k[1])


def _revert_facts(ctx, rule):
    f = ctx.ix.func(STATE, "State.revert", rule)
    cfg = CFG(f.node)
    subset = [p.arg for p in f.node.args.args][1] if len(f.node.args.args) > 1 else None
    if subset is None:
        raise AnalysisError(rule, "anchor vanished: State.revert(subset)")
    full_guard = None
    for h in cfg.nodes(lambda s: isinstance(s, ast.If)):
        t = U(cfg.stmt[h].test)
        if t == f"{subset} is None":
            full_guard = (h, True)
        elif t == f"{subset} is not None":
            full_guard = (h, False)
    if full_guard is None:
        raise AnalysisError(rule, "anchor vanished: `if subset is None` in State.revert")
    return f, cfg, subset, full_guard


def _fork_aliases(f, cfg):
    """names the snapshot goes by in State.revert: `self._last_fork` and locals bound to it (`x = self._last_fork`, also inside a tuple
    assignment, possibly as `self._last_fork or {}`); plus the CFG nodes that clear `self._last_fork` (assignment of None, also in a tuple)."""
    names = {"self._last_fork"}
    clears = []

    def src_is_fork(v):
        return U(v) == "self._last_fork" or (isinstance(v, ast.BoolOp) and isinstance(v.op, ast.Or) and U(v.values[0]) == "self._last_fork")
    for n, st in cfg.stmt.items():
        if not isinstance(st, ast.Assign):
            continue
        pairs = []
        t, v = st.targets[0], st.value
        if isinstance(t, ast.Tuple) and isinstance(v, ast.Tuple) and len(t.elts) == len(v.elts):
            pairs = list(zip(t.elts, v.elts))
        else:
            pairs = [(t, v)]
        for a, b in pairs:
            if isinstance(a, ast.Name) and src_is_fork(b):
                names.add(a.id)
            if U(a) == "self._last_fork" and U(b) == "None":
                clears.append(n)
    return names, clears


def r3_revert_structure(ctx, rid="C02.R3", title="structure of State.revert (full and partial branch)"):
    ctx.rule(rid, title, 4)
    f, cfg, subset, (gh, glab) = _revert_facts(ctx, rid)
    FORK, CLEARS = _fork_aliases(f, cfg)
    # a snapshot taken out of the object before anything else ("consumed first") is cleared on every path
    consumed_first = any(cfg.dominates(c, gh) for c in CLEARS)
    ifst = cfg.stmt[gh]
    full_body = ifst.body if glab else ifst.orelse
    # full branch
    upd = [s for s in full_body if isinstance(s, ast.Expr) and isinstance(s.value, ast.Call) and U(s.value.func) == "self._values.update"
           and s.value.args and U(s.value.args[0]) in FORK]
    clr = [s for s in full_body if isinstance(s, ast.Assign) and U(s.targets[0]) == "self._last_fork" and U(s.value) == "None"]
    ctx.check(bool(upd), rid, f, upd[0] if upd else ifst, "full revert restores every snapshotted entry",
              "full revert does not restore the whole snapshot (`self._values.update(self._last_fork)`)")
    ctx.check((bool(clr) and bool(upd) and full_body.index(clr[0]) > full_body.index(upd[0])) or (consumed_first and bool(upd)), rid, f, clr[0] if clr else ifst,
              "snapshot cleared after the restore", "snapshot is not cleared after the full restore (a second revert would resurrect stale values)")
    # no-fork guard
    rs = [n for n in cfg.nodes(lambda s: isinstance(s, ast.Raise))]
    ok_guard = any(any((U(cfg.stmt[h].test) in {f"{x} is None" for x in FORK} and lab) or (U(cfg.stmt[h].test) in {f"{x} is not None" for x in FORK} and not lab)
                       for h, lab in cfg.if_guards(r)) for r in rs)
    # ... and the test is made on the snapshot itself, not on a stand-in that is never None (`self._last_fork or {}`)
    for nm in FORK - {"self._last_fork"}:
        for st in statements(f.node):
            if isinstance(st, ast.Assign):
                t, v = st.targets[0], st.value
                pairs = list(zip(t.elts, v.elts)) if isinstance(t, ast.Tuple) and isinstance(v, ast.Tuple) and len(t.elts) == len(v.elts) else [(t, v)]
                if any(U(a) == nm and isinstance(b, ast.BoolOp) for a, b in pairs) and any(t_ == f"{nm} is None" for t_ in [U(cfg.stmt[h].test) for r in rs for h, _ in cfg.if_guards(r)]):
                    ok_guard = False
    ctx.check(ok_guard, rid, f, f.node, "revert without snapshot raises", "revert without a snapshot does not raise", construct="guard: self._last_fork is None")
    # partial branch
    loops = [n for n in cfg.nodes(lambda s: isinstance(s, ast.For) and U(s.iter) in {f"{x}.items()" for x in FORK})]
    if not loops:
        ctx.violation(rid, f, f.node, "partial revert does not iterate over the whole snapshot `self._last_fork.items()`", construct="partial branch")
        return
    lp = cfg.stmt[loops[0]]
    kname, oldname = (U(lp.target.elts[0]), U(lp.target.elts[1])) if isinstance(lp.target, ast.Tuple) else (None, None)
    ctx.ok(rid, f, lp, "partial revert iterates the whole snapshot")
    # None handling
    # an entry is reset exactly when the snapshot OR the current value is unset: truth table of the tests guarding `self._values[k] = None`
    defs = local_defs(f.node)
    cur_names = {n for n, vs in defs.items() if len(vs) == 1 and vs[0] is not None and U(vs[0]) == f"self._values[{kname}]"} | {f"self._values[{kname}]"}

    def tt(e, a, b):
        """value of a test over the atoms a = 'snapshot is None', b = 'current is None' (None: not such a test)"""
        if isinstance(e, ast.BoolOp):
            vs = [tt(v, a, b) for v in e.values]
            if any(v is None for v in vs):
                return None
            return all(vs) if isinstance(e.op, ast.And) else any(vs)
        if isinstance(e, ast.UnaryOp) and isinstance(e.op, ast.Not):
            v = tt(e.operand, a, b)
            return None if v is None else not v
        if isinstance(e, ast.Compare) and len(e.ops) == 1 and isinstance(e.ops[0], (ast.Is, ast.IsNot)) and U(e.comparators[0]) == "None":
            who = U(e.left)
            v = a if who == oldname else b if who in cur_names else None
            return None if v is None else (v if isinstance(e.ops[0], ast.Is) else not v)
        return None

    resets, undecided = [], []
    for s in ast.walk(lp):
        if isinstance(s, ast.If):
            for side, blk in ((True, s.body), (False, s.orelse)):
                if any(isinstance(b_, ast.Assign) and U(b_.targets[0]) == f"self._values[{kname}]" and U(b_.value) == "None" for b_ in blk):
                    if tt(s.test, False, False) is None:
                        undecided.append(s)
                    resets.append((s, side))
    if undecided:
        ctx.unknown(rid, f, undecided[0], f"unrecognised test `{U(undecided[0].test)[:80]}` in front of the reset of an entry in the partial revert", construct="None handling in partial revert")
    else:
        table = {(a, b): any(tt(s.test, a, b) == side for s, side in resets) for a in (False, True) for b in (False, True)}
        want = {(a, b): a or b for a in (False, True) for b in (False, True)}
        missing = [k for k in want if want[k] and not table[k]]
        extra = [k for k in want if table[k] and not want[k]]
        name = {(True, False): "snapshot unset / current set", (False, True): "snapshot set / current unset", (True, True): "both unset", (False, False): "both set"}
        ctx.check(not missing and not extra, rid, f, resets[0][0] if resets else lp, "an entry is reset exactly when it is unset on either side (recomputed lazily)",
                  ("partial revert does not reset entries in the case " + ", ".join(name[k] for k in missing) + ": the blend then reads an unset value or the proposal's value survives"
                   if missing else "partial revert wipes entries that are set on both sides: the reverted value of a root variable is lost"),
                  construct="None handling in partial revert")
    after = [n for n in cfg.nodes(lambda s: isinstance(s, ast.Assign) and U(s.targets[0]) == "self._last_fork" and U(s.value) == "None")
             if cfg.reachable(loops[0], n) and n not in [cfg.node_of(c) for c in clr]]
    ctx.check((bool(after) and cfg.all_paths_pass(loops[0], after)) or consumed_first, rid, f, cfg.stmt[after[0]] if after else lp,
              "snapshot cleared after the partial revert", "snapshot not cleared after the partial revert", construct="clear after partial revert")


def r4_selection(ctx, rid="C02.R4"):
    ctx.rule(rid, "partial revert selects old/current values with the mask (no arithmetic blend)", 1)
    f, cfg, subset, (gh, glab) = _revert_facts(ctx, rid)
    defs = local_defs(f.node)
    FORK, _ = _fork_aliases(f, cfg)
    loops = [s for s in statements(f.node) if isinstance(s, ast.For) and U(s.iter) in {f"{x}.items()" for x in FORK}]
    if not loops:
        raise AnalysisError(rid, "anchor vanished: loop over self._last_fork.items() in State.revert")
    lp = loops[0]
    kname, oldname = U(lp.target.elts[0]), U(lp.target.elts[1])
    curnames = {n for n, vs in defs.items() if any(v is not None and U(v) == f"self._values[{kname}]" for v in vs)}

    def polarity(e, depth=0):
        """+1: mask true where reverting; -1: true where keeping; None unknown."""
        if depth > 6:
            return None
        if isinstance(e, ast.Name):
            if e.id == subset:
                return 1
            vs = defs.get(e.id)
            if not vs or any(v is None for v in vs):
                return None
            ps = {polarity(v, depth + 1) for v in vs}
            return ps.pop() if len(ps) == 1 else None
        if isinstance(e, ast.UnaryOp) and isinstance(e.op, (ast.Invert, ast.Not)):
            p = polarity(e.operand, depth + 1)
            return -p if p else None
        if isinstance(e, ast.Call):
            fn = U(e.func)
            if fn in ("unsqueeze_right", "unsqueeze_left", "torch.logical_not") and e.args:
                p = polarity(e.args[0], depth + 1)
                return (-p if p else None) if fn == "torch.logical_not" else p
            if isinstance(e.func, ast.Attribute) and e.func.attr in ("to", "bool", "expand", "expand_as", "view", "reshape", "unsqueeze"):
                return polarity(e.func.value, depth + 1)
            if isinstance(e.func, ast.Attribute) and e.func.attr == "logical_not":
                p = polarity(e.func.value, depth + 1)
                return -p if p else None
        if isinstance(e, ast.Subscript):
            return polarity(e.value, depth + 1)
        return None

    def side(e):
        """'old' / 'cur' / None for an operand of the selection"""
        while isinstance(e, ast.Attribute) and e.attr in ("value", "weighted_value"):
            e = e.value
        if isinstance(e, ast.Name):
            if e.id == oldname:
                return "old"
            if e.id in curnames:
                return "cur"
        if U(e) == f"self._values[{kname}]":
            return "cur"
        return None

    n = 0
    for st in ast.walk(lp):
        if not (isinstance(st, ast.Assign) and U(st.targets[0]) == f"self._values[{kname}]"):
            continue
        if U(st.value) == "None":
            continue
        n += 1
        v = st.value
        # unwrap  cur_v.valued(<selection>) / WeightedTensor(<selection>, cur.weight)
        if isinstance(v, ast.Call) and isinstance(v.func, ast.Attribute) and v.func.attr == "valued" and v.args:
            v = v.args[0]
        elif isinstance(v, ast.Call) and U(v.func) == "WeightedTensor" and v.args:
            v = v.args[0]
        if isinstance(v, ast.Call) and U(v.func) == "torch.where" and len(v.args) == 3:
            p = polarity(v.args[0])
            a, b = side(v.args[1]), side(v.args[2])
            if p is None or a is None or b is None or a == b:
                ctx.unknown(rid, f, st, f"cannot classify the operands of the selection: mask polarity {p}, operands {a}/{b}")
                continue
            good = (p == 1 and a == "old" and b == "cur") or (p == -1 and a == "cur" and b == "old")
            ctx.check(good, rid, f, st, "torch.where(mask-of-reverted, old, current): rejected rows get exactly their old value",
                      "selection has the old value on the KEPT side: reverted individuals keep the proposal and accepted ones lose it")
        elif isinstance(v, ast.Call) and isinstance(v.func, ast.Attribute) and v.func.attr == "where" and len(v.args) == 2 and side(v.func.value) is not None:
            # method form  a.where(mask, b)  ==  torch.where(mask, a, b) for plain tensors; a (possibly) WeightedTensor receiver dispatches to a
            # method of the repository's own class, whose body decides whether this is a selection
            p = polarity(v.args[0])
            a, b = side(v.func.value), side(v.args[1])
            wt = ctx.ix.find_class("WeightedTensor")
            wm = ctx.ix.method(wt, "where") if wt is not None else None
            if wm is not None:
                blend = [x for x in ast.walk(wm.node) if isinstance(x, ast.BinOp) and isinstance(x.op, (ast.Mult, ast.Add, ast.Sub))]
                sel = [x for x in ast.walk(wm.node) if isinstance(x, ast.Call) and U(x.func) in ("torch.where",) or (isinstance(x, ast.Call) and isinstance(x.func, ast.Attribute) and x.func.attr == "where"
                                                                                                                  and U(x.func.value) not in ("self",))]
                if blend:
                    ctx.violation(rid, wm, blend[0], f"`WeightedTensor.where` (used by the per-individual revert) blends arithmetically (`{U(blend[0])[:60]}`): a non-finite proposed value "
                                  "gives NaN (inf*0) in the rows being reverted instead of their old value")
                    continue
                if not sel:
                    ctx.unknown(rid, wm, wm.node, "WeightedTensor.where is neither a torch.where selection nor an arithmetic blend")
                    continue
            if p is None or a is None or b is None or a == b:
                ctx.unknown(rid, f, st, f"cannot classify the operands of the selection: mask polarity {p}, operands {a}/{b}")
                continue
            good = (p == 1 and a == "old" and b == "cur") or (p == -1 and a == "cur" and b == "old")
            ctx.check(good, rid, f, st, "a.where(mask-of-reverted, current) with a = old: rejected rows get exactly their old value",
                      "selection has the old value on the KEPT side: reverted individuals keep the proposal and accepted ones lose it")
        elif any(isinstance(x, ast.BinOp) and isinstance(x.op, (ast.Mult, ast.Add)) for x in ast.walk(v)) and oldname in {
                x.id for x in ast.walk(v) if isinstance(x, ast.Name)}:
            ctx.violation(rid, f, st, "arithmetic blend old*mask + current*~mask: a non-finite proposed value gives NaN (inf*0) in the rows being "
                          "reverted instead of their old value")
        else:
            ctx.unknown(rid, f, st, "unrecognised idiom for the per-individual restore")
    if n == 0:
        ctx.violation(rid, f, lp, "partial revert never restores a value")
    # alignment of the mask: the individuals are on the leading axis, so the (n_individuals,) mask gets exactly old.ndim - mask.ndim trailing axes
    rb = [a.arg for a in f.node.args.args + f.node.args.kwonlyargs if a.arg == "right_broadcasting"]
    if not rb:
        return

    def ndim_val(e, o, t, depth=0):
        if depth > 6:
            return None
        if isinstance(e, ast.Constant) and isinstance(e.value, int) and not isinstance(e.value, bool):
            return e.value
        if isinstance(e, ast.Name):
            vs = defs.get(e.id)
            return ndim_val(vs[0], o, t, depth + 1) if vs and len(vs) == 1 and vs[0] is not None else None
        what = e.value if isinstance(e, ast.Attribute) and e.attr == "ndim" else e.func.value if isinstance(e, ast.Call) and isinstance(e.func, ast.Attribute) and e.func.attr == "dim" and not e.args else None
        if what is not None:
            return o if side(what) is not None else t if polarity(what) is not None else None
        if isinstance(e, ast.BinOp) and isinstance(e.op, (ast.Add, ast.Sub, ast.Mult)):
            a, b = ndim_val(e.left, o, t, depth + 1), ndim_val(e.right, o, t, depth + 1)
            if a is None or b is None:
                return None
            return a + b if isinstance(e.op, ast.Add) else a - b if isinstance(e.op, ast.Sub) else a * b
        if isinstance(e, ast.Call) and U(e.func) in ("max", "min") and len(e.args) >= 2 and not e.keywords:
            vs = [ndim_val(a, o, t, depth + 1) for a in e.args]
            return None if any(v is None for v in vs) else (max if U(e.func) == "max" else min)(vs)
        return None

    cfg_ = CFG(f.node)
    aligned, reported = [], False
    # a restore written as an item assignment into a copy of the current value (`new = cur.clone(); new[mask] = old[mask]`): rows are picked on
    # the leading axis by construction, but what is put back is coerced to the dtype of the *current* (proposal-derived) tensor
    oldish = {oldname}
    for _ in range(3):
        for st in statements(f.node):
            if isinstance(st, ast.Assign) and any(isinstance(x, ast.Name) and x.id in oldish for x in ast.walk(st.value)):
                tg, vl = st.targets[0], st.value
                if isinstance(vl, ast.IfExp):
                    vl = vl.body
                if isinstance(tg, ast.Tuple) and isinstance(vl, ast.Tuple) and len(tg.elts) == len(vl.elts):
                    for t_, v_ in zip(tg.elts, vl.elts):
                        if isinstance(t_, ast.Name) and any(isinstance(x, ast.Name) and x.id in oldish for x in ast.walk(v_)):
                            oldish.add(t_.id)
                elif isinstance(tg, ast.Name) and isinstance(vl, (ast.Attribute, ast.Name, ast.Subscript)):
                    oldish.add(tg.id)
    def _is_copy(name):
        ds = [d.value for d in statements(f.node) if isinstance(d, ast.Assign) and len(d.targets) == 1 and isinstance(d.targets[0], ast.Name) and d.targets[0].id == name]
        VIEWS = {"view", "reshape", "squeeze", "unsqueeze", "expand", "expand_as", "t", "detach", "flatten", "narrow", "select", "transpose", "permute", "view_as", "to", "float", "double", "contiguous",
                 "as_tensor", "asarray", "from_numpy", "get", "pop", "values", "items"}
        return bool(ds) and all(isinstance(v_, ast.Call) and (v_.func.attr if isinstance(v_.func, ast.Attribute) else U(v_.func).split(".")[-1]) not in VIEWS for v_ in ds)
    for st in statements(f.node):
        if isinstance(st, ast.Assign) and isinstance(st.targets[0], ast.Subscript) and isinstance(st.targets[0].value, ast.Name) and polarity(st.targets[0].slice) is not None \
                and not _is_copy(st.targets[0].value.id) and not isinstance(st.value, ast.Constant):
            tn = st.targets[0].value.id
            ctx.violation(rid, f, st, f"`{U(st)[:80]}` rewrites in place " + ("the snapshot tensor" if tn in oldish else "the cached tensor") + f" `{tn}` itself (no copy is taken): every other holder of that "
                          "tensor - the REF snapshot, a history of kept draws, a cloned state - sees its rows change, so values recorded earlier are overwritten by later iterations",
                          construct="restore in place")
            reported = True
            continue
        if isinstance(st, ast.Assign) and isinstance(st.targets[0], ast.Subscript) and isinstance(st.targets[0].value, ast.Name) and polarity(st.targets[0].slice) is not None \
                and any(isinstance(x, ast.Name) and x.id in oldish for x in ast.walk(st.value)) and st.targets[0].value.id not in oldish:
            ctx.violation(rid, f, st, f"`{U(st)[:80]}` restores the rejected rows by item assignment into (a copy of) the current value: what is put back takes the dtype of the tensor derived from "
                          "the proposal, so a previous value of higher precision (float64 set from a table) comes back rounded - not the value the individual had; "
                          "the confirmed form selects with torch.where, which keeps both", construct="restore by item assignment")
            reported = True
    for nid, st in cfg_.stmt.items():
        if st is None or not isinstance(st, ast.Assign):
            continue
        c = st.value
        if not (isinstance(c, ast.Call) and U(c.func) == "unsqueeze_right" and c.args and polarity(c.args[0]) is not None):
            continue
        guards = [(U(cfg_.stmt[h].test), lab) for h, lab in cfg_.if_guards(nid)]
        nd = kwarg(c, "ndim") or (c.args[1] if len(c.args) > 1 else None)
        if nd is None:
            ctx.unknown(rid, f, st, "unsqueeze_right without its number of axes", construct="mask alignment")
            reported = True
            continue
        grid = [(o, t, ndim_val(nd, o, t)) for o in range(0, 5) for t in range(0, o + 1)]
        if any(v is None for _, _, v in grid):
            ctx.unknown(rid, f, st, f"cannot evaluate the number of trailing axes `{U(nd)[:60]}` given to the mask", construct="mask alignment")
            reported = True
            continue
        bad = [(o, t, v) for o, t, v in grid if v != o - t]
        if bad:
            o, t, v = bad[0]
            ctx.violation(rid, f, st, f"the mask gets `{U(nd)[:60]}` trailing axes: {v} instead of {o - t} for a {o}-dimensional value and a {t}-dimensional mask - the selection then broadcasts "
                          "to another shape or lines the mask up with another axis than the individuals", construct="mask alignment")
            reported = True
            continue
        if (rb[0], True) in guards and len(guards) >= 1:
            aligned.append(st)
    if reported:
        return
    ctx.check(bool(aligned), rid, f, aligned[0] if aligned else lp, "with right_broadcasting the mask is extended by old.ndim - mask.ndim trailing axes (individuals stay on the leading axis)",
              "with right_broadcasting (the default, used by the samplers) the mask is no longer extended on the right: a (n_individuals,) mask is lined up with the LAST axis of the values",
              construct="mask alignment")


def r5_reads_before_partial_revert(ctx):
    from ..specgraph import graphs
    from ..domains.axis import axis_of_graph
    from ..interp import Interp, Obj

    ctx.rule("C02.R5", "variables read between a proposal and its per-individual revert keep the individual axis", 8)
    sfs = [sf for sf in sample_functions(ctx.ix, "C02.R5") if sf.kind == "individual"]
    if not sfs:
        raise AnalysisError("C02.R5", "anchor vanished: individual sampler")
    gs = graphs(ctx)
    for sf in sfs:
        cfg = sf.cfg
        puts = [n for n, x, how in sf.writes]
        revs = [n for n, c in sf.reverts if c.args or c.keywords]
        if not puts or not revs:
            continue
        between = [(n, x) for n, x in sf.reads if any(cfg.reachable(p, n) for p in puts) and any(cfg.reachable(n, r) for r in revs)
                   and not any(cfg.reachable(r, n) for r in revs)]
        templates = []
        for n, x in between:
            templates.extend(sf.read_templates(n))
        seen = set()
        for g in gs:
            axes = axis_of_graph(ctx, g)
            for v in [n.name for n in g.by_kind("IndividualLatentVariable")]:
                I = g.interp
                for t in templates:
                    try:
                        name = I.eval(t, {"__mod__": sf.f.mod, "__owner__": sf.f.cls, "self": Obj(sf.f.cls, {"name": v})})
                    except Exception as e:
                        ctx.unknown("C02.R5", sf.f, t, f"cannot evaluate the variable name read: {e}")
                        continue
                    if name not in g.nodes:
                        ctx.violation("C02.R5", sf.f, t, f"reads `{name}` which is not a variable of {g.cfg.name}", instance=f"{g.cfg.name}:{v}")
                        continue
                    bad = [a for a in ({name} | g.ancestors(name)) & (g.descendants(v) | {v}) if axes.get(a) not in ("IND",)]
                    key = (name, tuple(sorted(bad)))
                    if bad and all(str(axes.get(b)).startswith("UNKNOWN") for b in bad):
                        ctx.unknown("C02.R5", sf.f, t, f"`{name}` in {g.cfg.name}: the axis-0 domain could not evaluate {sorted(bad)[:3]} ({str(axes.get(sorted(bad)[0]))[:120]})", instance=f"{g.cfg.name}:{v}")
                    elif bad:
                        ctx.violation("C02.R5", sf.f, t, f"`{name}` read before revert(~accepted) mixes individuals in {g.cfg.name} via {sorted(bad)[:3]} "
                                      f"(axis-0 {[axes.get(b) for b in sorted(bad)[:3]]}): its cached value is wrong for reverted individuals", instance=f"{g.cfg.name}:{v}")
                    else:
                        ctx.ok("C02.R5", sf.f, t, f"`{name}` and what it evaluates downstream of `{v}` keep the individual axis in {g.cfg.name}", instance=f"{g.cfg.name}:{v}")


def r6_put_out_of_place(ctx):
    """The REF snapshot holds the very tensor that was current before the proposal: a proposal applied in place (`value[idx] = v`,
    `index_put_`, ...) changes the snapshot too, and a later revert restores the proposed entries."""
    from .c01 import state_put_out_of_place
    state_put_out_of_place(ctx, rid="C02.R6", why="the by-reference snapshot shares that tensor, so a rejected proposal is 'restored' with the proposed entries in it")


def r7_auto_fork_scoped(ctx, rid="C02.R7", title=None):
    """`with state.auto_fork(None): ...` must switch snapshotting back on however the block is left: if an exception escaping the block
    leaves it off, the next proposals are not forked and `revert()` restores a stale snapshot (or finds none)."""
    ctx.rule(rid, title or "State.auto_fork restores the previous forking mode in a `finally` around the yield", 1)
    f = ctx.ix.func(STATE, "State.auto_fork", rid)
    ys = [n for n in ast.walk(f.node) if isinstance(n, (ast.Yield, ast.YieldFrom))]
    if len(ys) != 1:
        ctx.unknown(rid, f, f.node, f"{len(ys)} yield(s) in State.auto_fork (one expected)")
        return
    saved = [U(st.targets[0]) for st in statements(f.node) if isinstance(st, ast.Assign) and U(st.value) == "self.auto_fork_type" and isinstance(st.targets[0], ast.Name)]
    for st in statements(f.node):
        if isinstance(st, ast.Assign) and isinstance(st.targets[0], ast.Tuple) and isinstance(st.value, ast.Tuple) and len(st.targets[0].elts) == len(st.value.elts):
            saved += [U(a) for a, b in zip(st.targets[0].elts, st.value.elts) if isinstance(a, ast.Name) and U(b) == "self.auto_fork_type"]
    ok = False
    for t in ast.walk(f.node):
        if isinstance(t, ast.Try) and any(y is ys[0] for b in t.body for y in ast.walk(b)):
            for st in t.finalbody:
                if isinstance(st, ast.Assign) and U(st.targets[0]) == "self.auto_fork_type" and U(st.value) in saved:
                    ok = True
    # the block runs under the requested mode: `self.auto_fork_type = <the parameter>` on every path to the yield
    cfgf = CFG(f.node)
    par = [a.arg for a in f.node.args.args[1:]]
    def sets_mode(st):
        if not (isinstance(st, ast.Assign) and par):
            return False
        t, v = st.targets[0], st.value
        if U(t) == "self.auto_fork_type" and U(v) == par[0]:
            return True
        if isinstance(t, ast.Tuple) and isinstance(v, ast.Tuple) and len(t.elts) == len(v.elts):  # a, self.auto_fork_type = self.auto_fork_type, type
            return any(U(a) == "self.auto_fork_type" and U(b) == par[0] for a, b in zip(t.elts, v.elts))
        return False
    sets = [n for n, st in cfgf.stmt.items() if sets_mode(st)]
    yn = [n for n, st in cfgf.stmt.items() if st is not None and any(y is ys[0] for y in header_walk(st))]
    ok_set = bool(sets) and bool(yn) and any(cfgf.dominates(s_, yn[0]) for s_ in sets)
    ctx.check(ok_set, rid, f, cfgf.stmt[sets[0]] if sets else ys[0], "the requested mode is in force inside the block",
              "State.auto_fork does not (always) switch to the requested mode before yielding: the samplers' proposals inside `with state.auto_fork(...)` are not snapshotted, "
              "so a rejection has nothing (or a stale snapshot) to revert to", construct="mode set before the yield")
    ctx.check(ok, rid, f, ys[0], "the previous mode is saved before and restored in `finally` around the yield",
              "State.auto_fork does not restore the previous forking mode in a `finally`: an exception escaping `with state.auto_fork(None)` leaves snapshotting off, "
              "and later rejected proposals are not (or wrongly) reverted")


def r8_clone_keeps_the_snapshot(ctx, rid="C02.R8"):
    """`state.clone(keep_last_fork=True)` hands a copy on which the pending proposal can still be rejected: the clone's snapshot must be a
    copy of the source's *snapshot* (the values before the proposal) - a snapshot rebuilt from the current values 'restores' the proposal."""
    from ..astq import canon_lines
    ctx.rule(rid, "State.clone(keep_last_fork=True): the clone's snapshot is a copy of the source's snapshot", 1)
    f = ctx.ix.func(STATE, "State.clone", rid)
    L = canon_lines(f.node, False, True)
    sets = [ln for ln in L if "._last_fork = " in ln]
    text = "; ".join(sets)
    confirmed = {ln for ln in sets if ln.endswith("._last_fork = copy.deepcopy($0._last_fork)") or ln.endswith("._last_fork = $0._last_fork.copy()") or ln.endswith("._last_fork = dict($0._last_fork)")}
    ctx.form(rid, f, f.node, text, {text} if sets and len(confirmed) == len(sets) else set(), ["$0._last_fork"], "clone._last_fork = copy of self._last_fork",
             "the clone's snapshot is not taken from the source's snapshot: a revert on the clone does not bring back the values from before the pending proposal",
             forbidden=[r"\$0\._values\["], construct="snapshot of the clone")


def rules(ctx):
    r1_snapshot(ctx)
    r2_typestate(ctx)
    r3_revert_structure(ctx)
    r4_selection(ctx)
    r5_reads_before_partial_revert(ctx)
    r6_put_out_of_place(ctx)
    r7_auto_fork_scoped(ctx)
    r8_clone_keeps_the_snapshot(ctx)
    # a revert restores `_values` from `_last_fork`: nothing else in a State may remember values (same rule as C01.R1d)
    from .c01 import r1d_no_other_cache
    r1d_no_other_cache(ctx, rid="C02.R9")
    # "rejected individuals get their state back, accepted ones keep the proposal": the mask handed to the revert is the outcome of the decision,
    # not a rewritten copy of it (same rule as C03.R2b)
    from .c03 import r2b_outcome_used_as_drawn
    r2b_outcome_used_as_drawn(ctx, rid="C02.R2b")
    # a REF snapshot holds the very tensors of the state: a value read from the state and then modified in place changes what a revert
    # restores (and what is kept for accepted individuals) - the restored derived values no longer match the restored ancestors
    from ._shared import inplace_on_state_values
    ctx.rule("C02.R10", "no in-place write into a tensor read from a state (the snapshot a revert restores shares it)", 8)
    sites, holders = inplace_on_state_values(ctx)
    for fn, node, desc in sites:
        ctx.violation("C02.R10", fn, node, desc + ": the snapshot kept for a revert holds the same tensor, so both the restored and the kept values are rewritten and no longer those of their ancestors")
    for fn, names in holders:
        ctx.ok("C02.R10", fn, fn.node, f"locals aliasing state values {names}: never written in place", construct=f"def {fn.name}")
    ctx.trust("torch.where selects element-wise without arithmetic on the unselected operand")
    ctx.assume("samplers are the only callers of State.revert during sampling (checked for C13)")


S = "src/leaspy/variables/state.py"
G = "src/leaspy/samplers/gibbs.py"
VARIANTS = [
    V("silent-extract-assign-helper", S, """            raise LeaspyInputError(f"'{name}' is not intended to be set")
        sorted_children = self.dag.sorted_children[name]""", """            raise LeaspyInputError(f"'{name}' is not intended to be set")
        self._assign(name, value)

    def _assign(self, name, value) -> None:
        sorted_children = self.dag.sorted_children[name]""", None),
    V("auto-fork-not-restored-on-exception", S, "        try:\n            self.auto_fork_type = type\n            yield\n        finally:\n            self.auto_fork_type = orig_auto_fork_type\n",
      "        self.auto_fork_type = type\n        yield\n        self.auto_fork_type = orig_auto_fork_type\n", "C02.R7"),
    V("snapshot-after-store", S, """        if self.auto_fork_type is not None:
            self._last_fork = self.auto_fork_type.to_cache(
                {child: self._values[child] for child in (name,) + sorted_children}
            )
        # TODO? we do not "validate" / "check" input data for now
        #  (it could be a stateless variable method) to remain light
        self._values[name] = value
""", """        self._values[name] = value
        if self.auto_fork_type is not None:
            self._last_fork = self.auto_fork_type.to_cache(
                {child: self._values[child] for child in (name,) + sorted_children}
            )
""", "C02.R1"),
    V("snapshot-name-only", S, "for child in (name,) + sorted_children}", "for child in (name,)}", "C02.R1"),
    V("revert-when-accepted", G, "            if not accepted:\n                state.revert()", "            if accepted:\n                state.revert()", "C02.R2"),
    V("revert-accepted-mask", G, "state.revert(~accepted)", "state.revert(accepted)", "C02.R2"),
    V("no-revert-ind", G, "        state.revert(~accepted)\n", "", "C02.R2"),
    V("full-revert-ind", G, "state.revert(~accepted)", "state.revert()", "C02.R2"),
    V("revert-skipped-sometimes", G, "            if not accepted:\n                state.revert()", "            if not accepted and temperature_inv == 1:\n                state.revert()", "C02.R2"),
    V("full-revert-partial-restore", S, "            self._values.update(self._last_fork)\n", "            self._values[next(iter(self._last_fork))] = next(iter(self._last_fork.values()))\n", "C02.R3"),
    V("silent-snapshot-through-a-local", S, "        for k, old_v in self._last_fork.items():\n", "        fork = self._last_fork\n        for k, old_v in fork.items():\n", None),
    V("fork-not-cleared", S, "            self._values.update(self._last_fork)\n            self._last_fork = None\n", "            self._values.update(self._last_fork)\n", "C02.R3"),
    V("blend-arithmetic", S, "self._values[k] = torch.where(mask, old_v, cur_v)", "self._values[k] = old_v * mask + cur_v * ~mask", "C02.R4"),
    V("where-swapped", S, "self._values[k] = torch.where(mask, old_v, cur_v)", "self._values[k] = torch.where(mask, cur_v, old_v)", "C02.R4"),
    V("read-aggregate-before-partial-revert", G, "            return state.get_tensor_values(\n                (\"nll_attach_ind\", f\"nll_regul_{self.name}_ind\")\n            )",
      "            state[\"nll_attach\"]\n            return state.get_tensor_values(\n                (\"nll_attach_ind\", f\"nll_regul_{self.name}_ind\")\n            )", "C02.R5"),
    # silent
    V("silent-where-negated", S, "self._values[k] = torch.where(mask, old_v, cur_v)", "self._values[k] = torch.where(~mask, cur_v, old_v)", None),
    V("silent-accepted-positive-branch", G, "            if not accepted:\n                state.revert()", "            if accepted:\n                pass\n            else:\n                state.revert()", None),
    V("silent-logical-not", G, "state.revert(~accepted)", "state.revert(torch.logical_not(accepted))", None),
    V("silent-rename-accepted-array", "src/leaspy/samplers/gibbs.py", "accepted_array", "acc", None, count=3),
]
