"""C08 - likelihood terms are the negative log-densities of the documented distributions (partial: the formula shapes)."""
from __future__ import annotations

import ast
import math

import sympy as sp

from ..astq import Canon, U, kwarg, statements
from ..index import AnalysisError, walk_no_nested
from ..normalform import F, NFUnsupported, Normalizer, SymEval, equal, fold_constants, method_inline_hook, sym
from ..selftest import V

PROP = "C08"
LEVEL_TEXT = (
    "Static formula check by algebraic normal form (sympy expand/together/cancel over uninterpreted log/exp/clamp/where atoms; calls between the family's class "
    "methods are inlined; no path exploration): (R1) NormalFamily._nll and the first component of _nll_and_jacobian equal 1/2((x-loc)/scale)^2 + log(scale) + "
    "1/2 log(2 pi) (the class constant is folded numerically), the Jacobian equals (x-loc)/scale^2, both re-wrapped with the weights of x; (R2) the Bernoulli family "
    "delegates to -torch.distributions.Bernoulli(loc).log_prob(x.value) re-wrapped with the weights of x; (R3) right-censored Weibull: _nll = -(log_survival + "
    "log_hazard), log_survival = -(clamp(x - tau, min 0)/nu~)^rho, hazard = rho/nu~ ((x - tau)/nu~)^(rho-1) with nu~ = nu exp(-xi) resp. nu exp(-(xi + s/rho)), "
    "the survival term does not depend on the censoring indicator and the log-hazard is selected by where(indicator != 0, ., 0); (R4) finite penalty: no non-finite "
    "literal in variables/distributions.py, constants.INFINITY folds to a finite float, log / fractional powers of x - tau are applied to a clamped value or on the "
    "guarded side of where(. > 0, ...). NOT decided: floating point, the mixture density, the event-prediction (CIF) code, torch.distributions itself."
)

DIST = "leaspy.variables.distributions"


def r1_gaussian(ctx):
    ctx.rule("C08.R1", "Gaussian negative log-density and its Jacobian (normal form)", 4)
    ix = ctx.ix
    cls = (DIST, "NormalFamily")
    if cls not in ix.classes:
        raise AnalysisError("C08.R1", "anchor vanished: NormalFamily")
    const = None
    for b in ix.classes[cls].body:
        if isinstance(b, (ast.Assign, ast.AnnAssign)) and U(b.targets[0] if isinstance(b, ast.Assign) else b.target) == "nll_constant_standard":
            const = fold_constants(b.value)
            cnode = b
    f0 = ix.func(DIST, "NormalFamily._nll", "C08.R1")
    ctx.check(const is not None and abs(const - 0.5 * math.log(2 * math.pi)) < 1e-12, "C08.R1", f0, cnode if const is not None else f0.node, f"class constant folds to 1/2 log(2 pi) = {const}",
              f"NormalFamily.nll_constant_standard folds to {const}, not 1/2 log(2 pi) = {0.5 * math.log(2 * math.pi):.6f}", construct="nll_constant_standard")
    x, loc, scale, c = sp.symbols("x loc scale c", real=True)
    ref = sp.Rational(1, 2) * ((x - loc) / scale) ** 2 + F["log"](scale) + c
    jref = (x - loc) / scale ** 2
    atoms = {"x.value": x, "cls.nll_constant_standard": c}

    def wrapped(ret):
        """(value expr, weight expr text) of `WeightedTensor(value, weight)`"""
        if isinstance(ret, ast.Call) and U(ret.func) == "WeightedTensor" and len(ret.args) >= 1:
            w = ret.args[1] if len(ret.args) > 1 else kwarg(ret, "weight")
            return ret.args[0], (U(w) if w is not None else None)
        return None, None

    from ..astq import Inliner
    for name, comps in (("_nll", [("nll", ref)]), ("_nll_jacobian", [("jacobian", jref)]), ("_nll_and_jacobian", [("nll", ref), ("jacobian", jref)])):
        f = ix.func(DIST, f"NormalFamily.{name}", "C08.R1")
        inl = Inliner(f.node)
        rets = [s for s in statements(f.node) if isinstance(s, ast.Return)]
        if len(rets) != 1:
            ctx.unknown("C08.R1", f, f.node, "not a single return")
            continue
        rv = rets[0].value
        parts = list(rv.elts) if isinstance(rv, ast.Tuple) else [rv]
        if len(parts) != len(comps):
            ctx.violation("C08.R1", f, rets[0], f"returns {len(parts)} component(s), {len(comps)} expected")
            continue
        for part, (what, want) in zip(parts, comps):
            val, w = wrapped(part)
            if val is None:
                ctx.violation("C08.R1", f, part, f"the {what} is not re-wrapped as WeightedTensor(value, x.weight): the mask of the observations is lost")
                continue
            ctx.check(w == "x.weight", "C08.R1", f, part, f"{what} carries the weights of x", f"the {what} is wrapped with `{w}`, not x.weight", construct=f"{name}: weight of the {what}")
            try:
                class N(Normalizer):
                    def tosym(self, e):
                        t = U(e)
                        if t in atoms:
                            return atoms[t]
                        return super().tosym(e)
                env_ = {"loc": loc, "scale": scale}
                hook_ = method_inline_hook(ix, cls)
                # parameters re-bound before the return (`scale = cls._safe_scale(scale)`) are what the formula sees
                for st_ in sorted(statements(f.node), key=lambda s_: s_.lineno):
                    if isinstance(st_, ast.Assign) and len(st_.targets) == 1 and isinstance(st_.targets[0], ast.Name) and st_.targets[0].id in env_ and st_.lineno < rets[0].lineno:
                        env_[st_.targets[0].id] = N(dict(env_), call_hook=hook_)(st_.value)
                got = N(env_, call_hook=hook_)(inl.resolve(val))
            except NFUnsupported as e:
                ctx.unknown("C08.R1", f, part, f"expression outside the supported subset: {e}")
                continue
            ctx.check(equal(got, want), "C08.R1", f, part, f"{what} = {want}", f"the {what} normal form is {sp.simplify(got)}; documented {want}")


def r2_bernoulli(ctx):
    ctx.rule("C08.R2", "Bernoulli: -torch.distributions.Bernoulli(loc).log_prob(x.value) with the weights of x", 2)
    ix = ctx.ix
    cls = (DIST, "BernoulliFamily")
    fac = None
    for b in ix.classes[cls].body:
        if isinstance(b, (ast.Assign, ast.AnnAssign)) and U(b.targets[0] if isinstance(b, ast.Assign) else b.target) == "dist_factory":
            fac = U(b.value)
            params = None
        if isinstance(b, (ast.Assign, ast.AnnAssign)) and U(b.targets[0] if isinstance(b, ast.Assign) else b.target) == "parameters":
            params = U(b.value)
    ctx.check(fac == "torch.distributions.Bernoulli", "C08.R2", (DIST, "BernoulliFamily"), None, "family bound to torch.distributions.Bernoulli", f"BernoulliFamily is bound to {fac}", construct="dist_factory")
    m = ix.method(cls, "_nll")
    rets = [s for s in statements(m.node) if isinstance(s, ast.Return)]
    ok = len(rets) == 1 and U(rets[0].value) == "WeightedTensor(-cls.dist_factory(*params).log_prob(x.value), x.weight)"
    ctx.check(ok, "C08.R2", m, rets[0] if rets else m.node, "nll = -dist.log_prob(x.value), weights of x kept", f"generic torch-distribution nll is `{U(rets[0].value) if rets else '?'}`")
    ob = ix.func("leaspy.models.obs_models._bernoulli", "BernoulliObservationModel.__init__", "C08.R2")
    ctx.check("dist=Bernoulli('model')" in U(ob.node), "C08.R2", ob, ob.node, "observations ~ Bernoulli(model)", "the binary observation model is no longer Bernoulli(model)", construct="Bernoulli('model')")


def _equal_over_positive_reals(a, b, clamp) -> bool:
    """a == b as functions of positive reals (scales, shapes, the clamped time): powers may be distributed over products there"""
    try:
        T = sp.Symbol("T_clamped", positive=True)
        sub = {clamp: T}
        pos = {}
        for sym_ in (a.free_symbols | b.free_symbols):
            if sym_.name in ("nu", "rho"):
                pos[sym_] = sp.Symbol(sym_.name + "_pos", positive=True)
        d = (a - b).subs(sub).subs(pos).replace(F["exp"], sp.exp)
        d = sp.simplify(sp.powsimp(sp.expand_power_base(sp.expand(d), force=True), force=True))
        return d == 0
    except Exception:
        return False


def r3_weibull(ctx):
    ctx.rule("C08.R3", "right-censored Weibull: survival, hazard, reparametrised scale, censoring dependency", 8)
    ix = ctx.ix
    X, tau, nu, rho, xi, s, ind = sp.symbols("x tau nu rho xi s ind", real=True)
    for cname, with_src in (("WeibullRightCensoredFamily", False), ("WeibullRightCensoredWithSourcesFamily", True)):
        cls = (DIST, cname)
        if cls not in ix.classes:
            raise AnalysisError("C08.R3", f"anchor vanished: {cname}")
        # the censoring indicator is used entry by entry (one per individual AND event type): no reduction of `x.weight` over an axis
        REDUCE = {"any", "all", "sum", "max", "min", "amax", "amin", "mean", "prod", "count_nonzero", "nansum"}
        collapsed = False
        for kk in ix.mro(cls):
            if kk not in ix.classes or kk[0] != DIST:
                continue
            for b in ix.classes[kk].body:
                if not isinstance(b, ast.FunctionDef):
                    continue
                fm = ix.funcs.get((kk[0], f"{kk[1]}.{b.name}"))
                if fm is None:
                    continue
                tainted = set()

                def is_t(e):
                    return any((isinstance(n_, ast.Attribute) and n_.attr == "weight") or (isinstance(n_, ast.Name) and n_.id in tainted) for n_ in ast.walk(e))
                for _ in range(4):
                    for st in statements(b):
                        if isinstance(st, ast.Assign) and is_t(st.value):
                            for t_ in st.targets:
                                for n_ in ast.walk(t_):
                                    if isinstance(n_, ast.Name):
                                        tainted.add(n_.id)
                for c_ in ast.walk(b):
                    if isinstance(c_, ast.Call) and isinstance(c_.func, ast.Attribute) and c_.func.attr in REDUCE:
                        recv_t = is_t(c_.func.value) and U(c_.func.value) != "torch"
                        arg_t = U(c_.func.value) == "torch" and c_.args and is_t(c_.args[0])
                        if recv_t or arg_t:
                            collapsed = True
                            ctx.violation("C08.R3", fm, c_, f"{cname}: `{U(c_)[:70]}` reduces the censoring indicator over an axis: an event observed for one event type then counts as observed "
                                          "for the others (their log-hazard is added although they are censored)", instance=cname)
        if collapsed:
            continue
        ev = SymEval(ix, cls, atoms={"x.value": X, "x.weight": ind})
        args = [sym("xobj"), nu, rho, xi, tau] + ([s] if with_src else [])
        nu_ref = nu * F["exp"](-(xi + s / rho)) if with_src else F["exp"](-xi) * nu
        try:
            m = ix.method(cls, "_extract_reparametrized_nu")
            got_nu = ev.call(m, [nu, rho, xi, tau] + ([s] if with_src else []))
            ctx.check(equal(got_nu, nu_ref), "C08.R3", m, m.node, f"{cname}: nu~ = {nu_ref}", f"{cname}: reparametrised scale is {got_nu}; documented {nu_ref}", instance=cname)
            ms = ix.method(cls, "compute_log_survival")
            got_s = ev.call(ms, args)
            clamp = F["clamp"](X - tau, sp.Integer(0), sp.Symbol("None"))
            ref_s = -((clamp / nu_ref) ** rho)
            same = equal(got_s, ref_s)
            if not same and _equal_over_positive_reals(got_s, ref_s, clamp):
                # the same function of positive reals, written with the power distributed over the factors: are the factors powers of parameters alone?
                lone = [pw for pw in got_s.atoms(sp.Pow) if rho in pw.exp.free_symbols and not pw.base.has(clamp) and pw.base.free_symbols]
                if lone:
                    ctx.violation("C08.R3", ms, ms.node, f"{cname}: the log-survival is written with the power distributed over its factors: `{lone[0]}` is computed on its own. Equal to the documented "
                                  f"{ref_s} over the reals, but in float32 a parameter raised to +-rho under/overflows for sharp hazards (nu**rho beyond 1e38) while the documented ratio stays in range: "
                                  "the value is then 0, inf or NaN instead of the negative log-density", construct=f"{cname}: power of the ratio", instance=cname)
                else:
                    ctx.ok("C08.R3", ms, ms.node, f"{cname}: log-survival equals -(clamp(x - tau, 0)/nu~)^rho over the positive reals", instance=cname)
            else:
                ctx.check(same, "C08.R3", ms, ms.node, f"{cname}: log-survival = -(clamp(x - tau, 0)/nu~)^rho", f"{cname}: log-survival is {got_s}; documented {ref_s}", instance=cname)
            ctx.check(ind not in got_s.free_symbols, "C08.R3", ms, ms.node, f"{cname}: the survival term does not depend on the censoring indicator",
                      f"{cname}: the survival term depends on the censoring indicator: censored individuals lose (part of) their survival contribution", construct="survival independent of the indicator", instance=cname)
            mh = ix.method(cls, "compute_log_likelihood_hazard")
            got_h = ev.call(mh, args)
            W = F["where"]
            gt = sp.Function("cmp_gt")
            ne = sp.Function("cmp_ne")
            hz = rho / nu_ref * ((X - tau) / nu_ref) ** (rho - sp.Integer(1))
            INF = sym("constants.INFINITY")
            h1 = W(gt(X - tau, 0), hz, -INF)
            h2 = W(gt(h1, 0), F["log"](h1), h1)
            ref_h = W(ne(ind, 0), h2, 0)
            ok = equal(sp.expand(got_h - ref_h), 0) if False else (sp.simplify(got_h - ref_h) == 0 or str(sp.expand(got_h)) == str(sp.expand(ref_h)) or equal(got_h, ref_h))
            ctx.check(ok, "C08.R3", mh, mh.node, f"{cname}: log-hazard = where(ind != 0, log(rho/nu~ ((x-tau)/nu~)^(rho-1)) [guarded], 0)",
                      f"{cname}: log-hazard is {got_h}; documented {ref_h}", instance=cname)
            mn = ix.method(cls, "_nll")
            rets = [st for st in statements(mn.node) if isinstance(st, ast.Return)]
            A_ = "($1, $2, $3, $4, $5, *$args)"
            S_, H_ = "$0.compute_log_survival" + A_, "$0.compute_log_likelihood_hazard" + A_
            ok = len(rets) == 1 and Canon(mn.node).text(rets[0].value) in {f"WeightedTensor(-1 * ({S_} + {H_}))", f"WeightedTensor(-({S_} + {H_}))", f"WeightedTensor(-1 * ({H_} + {S_}))", f"WeightedTensor(-({H_} + {S_}))"}
            ctx.check(ok, "C08.R3", mn, rets[0] if rets else mn.node, f"{cname}: nll = -(log-survival + log-hazard)", f"{cname}: nll is `{U(rets[0].value) if rets else '?'}`", instance=cname)
        except NFUnsupported as e:
            ctx.unknown("C08.R3", (DIST, cname), None, f"Weibull code outside the supported subset: {e}", construct=f"{cname} formulas")
    # the time entering the density is exactly t - tau: "close to the reference time" is not "at the reference time" (a tolerance relative to an
    # age of 60-90 years is hours to days: those individuals would get the barrier penalty / lose their survival term)
    from ..astq import canon_lines as _cl
    re_ = ix.func(DIST, "AbstractWeibullRightCensoredFamily._extract_reparametrized_event", "C08.R3")
    rt_ = "; ".join(_cl(re_.node, True, True))
    ctx.form("C08.R3", re_, re_.node, rt_, {"return $0 - $1", "return torch.sub($0, $1)", "return $0.sub($1)"}, ["$0", "$1"], "reparametrised event time = event time - tau, exactly",
             "the reparametrised event time is no longer exactly `event_time - tau`", forbidden=[r"isclose\(", r"allclose\(", r"masked_fill\(", r"torch\.where\(", r"\.round\(", r"torch\.round\(", r"clamp"],
             construct="reparametrised event time")
    om = ix.func("leaspy.models.obs_models._weibull", "AbstractWeibullRightCensoredObservationModel.getter", "C08.R3")
    ctx.check("WeightedTensor(dataset.event_time, dataset.event_bool)" in U(om.node), "C08.R3", om, om.node, "event variable = (event time, censoring indicator as weight)",
              "the event variable no longer carries the censoring indicator as its weight", construct="event getter")


NONFINITE = {"float('inf')", 'float("inf")', "float('-inf')", "float('nan')", "math.inf", "np.inf", "numpy.inf", "torch.inf", "np.nan", "math.nan", "torch.nan", "-np.inf", "-math.inf", "-torch.inf"}


def _positive_by_construction(e, positives) -> bool:
    if isinstance(e, ast.Name):
        return e.id in positives
    if isinstance(e, ast.BinOp) and isinstance(e.op, (ast.Mult, ast.Div)):
        return _positive_by_construction(e.left, positives) and _positive_by_construction(e.right, positives)
    if isinstance(e, ast.Constant) and isinstance(e.value, (int, float)):
        return e.value > 0
    return False


def _sign_core(e, positives):
    """e stripped of factors that are positive by construction (same sign as e)."""
    while isinstance(e, ast.BinOp) and isinstance(e.op, (ast.Mult, ast.Div)):
        if _positive_by_construction(e.right, positives):
            e = e.left
        elif _positive_by_construction(e.left, positives):
            e = e.right
        else:
            break
    return e


def r4_finite(ctx):
    ctx.rule("C08.R4", "finite penalty: no non-finite literal, finite INFINITY, guarded log / power", 3)
    ix = ctx.ix
    m = ix.module(DIST, "C08.R4")
    bad = [n for n in ast.walk(m.tree) if isinstance(n, (ast.Call, ast.Attribute, ast.UnaryOp)) and U(n) in NONFINITE]
    for n in bad:
        ctx.violation("C08.R4", (DIST, "<module>"), n, f"non-finite literal `{U(n)}` in the distribution code: multiplied by a 0 weight it gives NaN")
    ctx.ok("C08.R4", (DIST, "<module>"), None, "no non-finite literal in variables/distributions.py", construct="non-finite literals")
    cm = ix.module("leaspy.constants", "C08.R4")
    val = None
    for n in ast.walk(cm.tree):
        if isinstance(n, (ast.Assign, ast.AnnAssign)) and U(n.targets[0] if isinstance(n, ast.Assign) else n.target) == "INFINITY":
            val = fold_constants(n.value)
            node = n
    ctx.check(val is not None and math.isfinite(val) and val >= 1e300, "C08.R4", ("leaspy.constants", "LeaspyConstants"), node if val is not None else None, f"INFINITY = {val} is finite (and prohibitive)",
              f"constants.INFINITY folds to {val}: not a finite prohibitive float", construct="INFINITY")
    f = ix.func(DIST, "AbstractWeibullRightCensoredFamily.compute_log_likelihood_hazard", "C08.R4")
    src = U(f.node)

    def rep_time_var(fn):
        for st in statements(fn.node):
            if isinstance(st, ast.Assign) and isinstance(st.targets[0], ast.Tuple) and isinstance(st.value, ast.Call) and U(st.value.func).endswith("_extract_reparametrized_parameters"):
                return U(st.targets[0].elts[0])
        return None
    T = rep_time_var(f)
    if T is None:
        raise AnalysisError("C08.R4", "anchor vanished: the reparametrised event time in compute_log_likelihood_hazard")
    # every torch.log / fractional power applied to a value derived from the reparametrised event time sits on the guarded side of a where(. > 0, ...)
    positives = {"nu", "rho"}
    for st in statements(f.node):
        if isinstance(st, ast.Assign) and isinstance(st.targets[0], ast.Tuple) and isinstance(st.value, ast.Call) and U(st.value.func).endswith("_extract_reparametrized_parameters") \
                and len(st.targets[0].elts) >= 3:
            positives.add(U(st.targets[0].elts[2]))  # (event time - tau, indicator, nu~): nu~ = nu * exp(.) > 0
    ok = True
    why = ""
    wheres = [w for w in ast.walk(f.node) if isinstance(w, ast.Call) and U(w.func) == "torch.where" and len(w.args) == 3]
    for c in ast.walk(f.node):
        if isinstance(c, ast.Call) and U(c.func) == "torch.log":
            if c.args and _positive_by_construction(c.args[0], positives):
                continue  # products / quotients of the positive Weibull parameters
            core = _sign_core(c.args[0], positives) if c.args else None
            guarded = any(any(x is c for x in ast.walk(w.args[1])) and U(w.args[0]) in (f"{U(c.args[0])} > 0", f"{U(core)} > 0") for w in wheres)
            if not guarded:
                ok, why = False, f"`{U(c)}` is not on the guarded side of where(. > 0, ...)"
        if isinstance(c, ast.BinOp) and isinstance(c.op, ast.Pow) and T in {n.id for n in ast.walk(c.left) if isinstance(n, ast.Name)}:
            guarded = any(any(x is c for x in ast.walk(w.args[1])) and U(w.args[0]) == f"{T} > 0" for w in wheres)
            if not guarded:
                ok, why = False, f"`{U(c)[:60]}` (fractional power of x - tau) is not guarded by where(x - tau > 0, ...)"
    ctx.check(ok, "C08.R4", f, f.node, "log and fractional power only see positive reparametrised times", why + ": an event before the reference time gives NaN instead of a finite penalty", construct="guarded log / power")
    ctx.check("-constants.INFINITY" in src, "C08.R4", f, f.node, "event before the reference time: finite prohibitive penalty", "no finite penalty for an event before the reference time", construct="penalty value")
    # the finite stand-in for infinity (1e307) only exists in double precision: no aggregation of likelihood terms may down-cast
    n_agg = 0
    for fa in ix.iter_funcs():
        if not (fa.mod.startswith("leaspy.models") or fa.mod.startswith("leaspy.variables") or fa.mod.startswith("leaspy.utils.weighted_tensor")):
            continue
        for c in ast.walk(fa.node):
            if not isinstance(c, ast.Call):
                continue
            fn_ = U(c.func)
            is_agg = fn_.split(".")[-1] in ("sum_dim", "wsum_dim", "wsum_dim_return_weighted_sum_only", "wsum_dim_return_sum_of_weights_only", "sum", "then") or \
                (fn_.endswith(".then") and c.args and U(c.args[0]).split(".")[-1].startswith(("sum_dim", "wsum_dim")))
            if not is_agg:
                continue
            n_agg += 1
            for k in c.keywords:
                if k.arg == "dtype" and U(k.value) not in ("torch.float64", "torch.double", "float", "torch.bool", "bool", "torch.long", "torch.int64", "int"):
                    ctx.violation("C08.R4", fa, c, f"`{U(c)[:80]}` aggregates with dtype `{U(k.value)}`: the values are cast before being summed, and the finite penalty 1e307 "
                                  "(an event before the reference time) overflows to inf in single precision", construct="no down-cast in likelihood aggregations")
    ctx.ok("C08.R4", (DIST, "<module>"), None, f"{n_agg} aggregation calls in models / variables: none down-casts", construct="no down-cast in likelihood aggregations")
    g = ix.func(DIST, "AbstractWeibullRightCensoredFamily.compute_log_survival", "C08.R4")
    Tg = rep_time_var(g)
    clamps = [c for c in ast.walk(g.node) if isinstance(c, ast.Call) and U(c.func) == "torch.clamp" and c.args and U(c.args[0]) == Tg and (U(kwarg(c, "min")) in ("0.0", "0") if kwarg(c, "min") is not None else False)]
    raw_pow = [c for c in ast.walk(g.node) if isinstance(c, ast.BinOp) and isinstance(c.op, ast.Pow) and Tg in {n.id for n in ast.walk(c.left) if isinstance(n, ast.Name)}
               and not any(isinstance(x, ast.Call) and U(x.func) == "torch.clamp" for x in ast.walk(c.left))]
    ctx.check(bool(clamps) and not raw_pow, "C08.R4", g, g.node, "survival evaluated on the clamped time", "survival raises a negative number to a fractional power (NaN)", construct="clamped survival")


ENTRY_POINTS = {
    "nll": {"return $0._nll($1, *$args)"},
    "nll_jacobian": {"return $0._nll_jacobian($1, *$args)"},
    "nll_and_jacobian": {"return $0._nll_and_jacobian($1, *$args)"},
    "regularization": {"if isinstance($1, Tensor); %0 = $0._nll(WeightedTensor($1), *$args); %0 = $0._nll($1, *$args); return %0",
                       "if isinstance($1, Tensor); return $0._nll(WeightedTensor($1), *$args); return $0._nll($1, *$args)"},
}


def r5_entry_points(ctx):
    """What the models call are `nll`, `regularization`, `nll_jacobian`, `nll_and_jacobian`: in the base class they hand over to the `_nll*`
    implementations decided by R1-R3, and no family replaces them by a second formula (a 'fast path' with its own arithmetic is another
    density for the inputs it takes)."""
    ctx.rule("C08.R5", "the public entry points of every distribution family are the base-class dispatchers to `_nll*` (no second formula)", 4)
    ix = ctx.ix
    base = (DIST, "StatelessDistributionFamily")
    if base not in ix.classes:
        raise AnalysisError("C08.R5", "anchor vanished: StatelessDistributionFamily")
    for name, forms in ENTRY_POINTS.items():
        f = ix.func(DIST, f"StatelessDistributionFamily.{name}", "C08.R5")
        cn_ = Canon(f.node)
        text = "; ".join(cn_.lines(True, True))
        if name == "regularization" and text not in forms:
            # the same two arms written the other way round (`if not isinstance(...)`): decided on control dependence, not on the order of the lines
            from ..cfg import CFG
            cfg_ = CFG(f.node)
            arms = {}
            for n_, st_ in cfg_.stmt.items():
                if isinstance(st_, (ast.Assign, ast.Return)) and st_.value is not None and "_nll(" in U(st_.value):
                    arms[cn_.text(st_.value, False, cn_.last_order)] = [(cn_.text(cfg_.stmt[h_].test, False, cn_.last_order), lab_) for h_, lab_ in cfg_.if_guards(n_)]
            if arms == {"$0._nll(WeightedTensor($1), *$args)": [("isinstance($1, Tensor)", True)], "$0._nll($1, *$args)": [("isinstance($1, Tensor)", False)]}:
                forms = forms | {text}
        ctx.form("C08.R5", f, f.node, text, forms, [f"$0._{'nll' if name == 'regularization' else name}("], f"{name} hands over to the family's `_nll*` implementation",
                 f"{name} no longer hands its arguments to the `_nll*` implementation of the family", construct=f"dispatcher {name}")
    x, loc, scale = sp.Symbol("x", real=True), sp.Symbol("loc", real=True), sp.Symbol("scale", positive=True)
    c = sp.Symbol("c", real=True)
    ref = sp.Rational(1, 2) * ((x - loc) / scale) ** 2 + sp.log(scale) + c
    overrides = 0
    for key in sorted(ix.classes):
        if key == base or base not in ix.mro(key):
            continue
        for b in ix.classes[key].body:
            if not (isinstance(b, ast.FunctionDef) and b.name in ENTRY_POINTS):
                continue
            overrides += 1
            f = ix.func(key[0], f"{key[1]}.{b.name}", "C08.R5")
            ctx.analysed(f)
            from ..astq import Inliner
            inl = Inliner(f.node)
            normal = (DIST, "NormalFamily") in ix.mro(key) and b.name in ("nll", "regularization")
            params = [a.arg for a in b.args.args]
            for r in [s_ for s_ in statements(b) if isinstance(s_, ast.Return)]:
                v = r.value
                if isinstance(v, ast.Call) and isinstance(v.func, ast.Attribute) and v.func.attr == b.name and U(v.func.value) == "super()":
                    ctx.ok("C08.R5", f, r, f"`{U(v)[:60]}`: hands over to the inherited dispatcher", construct=f"{key[1]}.{b.name}: delegation")
                    continue
                if not normal or len(params) < 4:
                    ctx.unknown("C08.R5", f, r, f"`{key[1]}.{b.name}` computes a value of its own (`{U(v)[:60]}`), which is not compared with the documented density", construct=f"{key[1]}.{b.name}: own formula")
                    continue
                try:
                    class N5(Normalizer):
                        def tosym(self, e):
                            t = U(e)
                            if t in (params[1], params[1] + ".value"):
                                return x
                            if t == "cls.nll_constant_standard":
                                return c
                            return super().tosym(e)
                    got = N5({params[2]: loc, params[3]: scale}, call_hook=method_inline_hook(ix, key))(inl.resolve(v))
                    got = got.replace(F["log"], sp.log)
                    diff = sp.simplify(sp.expand_log(sp.expand(got - ref), force=True))
                except NFUnsupported as e:
                    ctx.unknown("C08.R5", f, r, f"own formula outside the supported subset: {e}", construct=f"{key[1]}.{b.name}: own formula")
                    continue
                ctx.check(diff == 0, "C08.R5", f, r, f"own formula equal to the Gaussian negative log-density {ref}",
                          f"`{key[1]}.{b.name}` returns a value of its own that differs from the Gaussian negative log-density by {diff} (documented: {ref})", construct=f"{key[1]}.{b.name}: own formula")
    if not overrides:
        ctx.ok("C08.R5", (DIST, "StatelessDistributionFamily"), None, "no distribution family overrides nll / regularization / nll_jacobian / nll_and_jacobian", construct="no override")


def r8_stateless(ctx):
    """The terms are functions of the *current* outcomes and parameters: the density families keep no value from one evaluation to the next."""
    from ..effects import global_writes
    ctx.rule("C08.R8", "density families are stateless: no function reachable from a density entry point (`nll`, `nll_jacobian`, `regularization`, the Weibull terms) stores into a class attribute, a module global "
             "or a memoising decorator (a term served from an earlier evaluation is not the negative log-density of the current values)", 20)
    from ._shared import callgraph
    ENTRY = ("nll", "nll_jacobian", "nll_and_jacobian", "regularization", "_nll", "_nll_jacobian", "_nll_and_jacobian", "compute_nll",
             "compute_log_likelihood_hazard", "compute_log_survival", "compute_predictions", "compute_hazard")
    entries = [f for (mod, qual), f in sorted(ctx.ix.funcs.items())
               if (mod == DIST or mod.startswith("leaspy.models.obs_models")) and qual.split(".")[-1] in ENTRY]
    if len(entries) < 8:
        raise AnalysisError("C08.R8", f"only {len(entries)} density entry points found (anchor vanished?)")
    seen = callgraph(ctx).reach(entries, kinds=("exact", "typed", "indirect"))
    seen = seen[0] if isinstance(seen, tuple) else seen
    n = 0
    for (mod, qual) in sorted(seen):
        f = ctx.ix.funcs[(mod, qual)]
        if not mod.startswith("leaspy."):
            continue
        n += 1
        bad = False
        for node, desc in global_writes(ctx.ix, f):
            if desc.startswith("process-wide setting"):
                continue
            bad = True
            ctx.violation("C08.R8", f, node, f"`{qual}` stores into {desc}: the value survives the evaluation and can be served for other inputs")
        for d in getattr(f.node, "decorator_list", []):
            t = U(d.func if isinstance(d, ast.Call) else d)
            if t.split(".")[-1] in ("lru_cache", "cache", "cached_property", "memoize"):
                bad = True
                ctx.violation("C08.R8", f, d, f"`{qual}` is memoised (`{t}`): tensors hash by identity, a value changed in place is served stale")
        if not bad:
            ctx.ok("C08.R8", f, f.node, "no store outliving the call, no memoising decorator", construct=f"{qual}: stateless")
    if n < 20:
        raise AnalysisError("C08.R8", f"only {n} functions reachable from the density entry points (anchor vanished?)")


def rules(ctx):
    r1_gaussian(ctx)
    r8_stateless(ctx)
    r5_entry_points(ctx)
    # "entry by entry": the entries that take part in an attachment are those of the dataset mask - the outcome variable handed to the
    # Gaussian / Bernoulli densities carries that mask as its weight (a missing outcome filled with 0 is not an observed 0): same rule as C06.R2
    from .c06 import r2_roots
    # "with the weights of x": the likelihood terms served are computed from the *current* outcomes, censoring indicators included - every
    # assignment of a data variable invalidates what was computed from the previous one (same rule as C01.R2)
    from .c01 import r2_invalidate
    r2_invalidate(ctx, rid="C08.R7")
    r2_roots(ctx, rid="C08.R6", title="the outcomes handed to the densities are weighted by the dataset mask (missing entries contribute no term)")
    r2_bernoulli(ctx)
    r3_weibull(ctx)
    r4_finite(ctx)
    ctx.trust("sympy expand/together/cancel; torch.distributions.Bernoulli.log_prob; torch.where / clamp / log semantics")


D = "src/leaspy/variables/distributions.py"
VARIANTS = [
    V("normal-no-log-scale", D, "                + torch.log(scale)\n                + cls.nll_constant_standard\n            ),\n            x.weight,", "                + cls.nll_constant_standard\n            ),\n            x.weight,", "C08.R1"),
    V("normal-constant-wrong", D, "    nll_constant_standard: ClassVar = 0.5 * torch.log(2 * torch.tensor(math.pi))\n\n    @classmethod\n    def mode(cls, loc: torch.Tensor, scale: torch.Tensor)",
      "    nll_constant_standard: ClassVar = 0.5 * torch.log(torch.tensor(math.pi))\n\n    @classmethod\n    def mode(cls, loc: torch.Tensor, scale: torch.Tensor)", "C08.R1"),
    V("jacobian-wrong-power", D, "        return WeightedTensor((x.value - loc) / scale**2, x.weight)", "        return WeightedTensor((x.value - loc) / scale, x.weight)", "C08.R1"),
    V("torch-nll-positive", D, "        return WeightedTensor(-cls.dist_factory(*params).log_prob(x.value), x.weight)", "        return WeightedTensor(cls.dist_factory(*params).log_prob(x.value), x.weight)", "C08.R2"),
    V("family-class-memo", D, "        return torch.exp(-xi) * nu\n", "        cls._last_nu = torch.exp(-xi) * nu\n        return cls._last_nu\n", "C08.R8"),
    V("survival-no-clamp", D, "torch.clamp(event_reparametrized_time, min=0.0)", "event_reparametrized_time", "C08.R3"),
    V("hazard-for-censored", D, "        log_hazard = torch.where(event_bool != 0, log_hazard, 0.0)\n", "", "C08.R3"),
    V("nu-sign", D, "        return torch.exp(-xi) * nu\n", "        return torch.exp(xi) * nu\n", "C08.R3"),
    V("infinite-penalty", "src/leaspy/constants.py", "    INFINITY = float(10**307)", "    INFINITY = float(\"inf\")", "C08.R4"),
    V("inf-literal", D, "            -constants.INFINITY,\n", "            -float(\"inf\"),\n", "C08.R4"),
    V("silent-normal-rewritten", D, "                0.5 * ((x.value - loc) / scale) ** 2\n", "                (x.value - loc) * (x.value - loc) / (2 * scale * scale)\n", None),
    V("silent-rename-rep-time", D, "event_reparametrized_time", "t_rep", None, count=11),
    V("silent-rename-nu-rep", D, "nu_reparametrized", "nu_tilde", None, count=11),
]
