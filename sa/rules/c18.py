"""C18 - simulation honours the requested design."""
from __future__ import annotations

import ast
import json
import os

import networkx as nx

from ..astq import Inliner, U, kwarg, raised_class_name, statements, store_targets
from ..cfg import CFG, header_walk
from ..index import AnalysisError, walk_no_nested
from ..normalform import GuardUnsupported, eval_guard
from ..selftest import V
from ._shared import callgraph, prior_sampling_sites

PROP = "C18"
LEVEL_TEXT = (
    "Static validate-before-use check of the simulation algorithm: (R1) in the constructor region (__init__, _set_param_study, _validate_algo_parameters, "
    "_check_params, _check_features) every partial operation on user-supplied visit parameters - a literal-key subscript, a comparison, an attribute call - is "
    "dominated by a membership / isinstance test whose failure raises LeaspyAlgoInputError (or `continue`s past the use), the required keys being read from the "
    "_PARAM_REQUIREMENTS table of the same class; every raise of the region is a LeaspyAlgoInputError; (R2) no definition `= None` of the rounding precision reaches "
    "its use in `.round(...)` (reaching definitions on the CFG); (R3) nothing that draws is reachable from the constructor, and in _run the model check dominates "
    "every generating call; (R4) the visit loop adds a spacing whose mean is forced > 0 by the validation (guard evaluated over sign cases), so accepted random designs "
    "make progress. NOT decided: values within [0,1], number of generated rows, uniqueness of rounded ages."
)

SIM = "leaspy.algo.simulate.simulate"
CLS = "SimulationAlgorithm"
REGION = ["__init__", "_set_param_study", "_validate_algo_parameters", "_check_params", "_check_features"]


def _requirements(ctx):
    cls = ctx.ix.find_class(CLS)
    for b in ctx.ix.classes[cls].body:
        if isinstance(b, ast.Assign) and U(b.targets[0]) == "_PARAM_REQUIREMENTS" and isinstance(b.value, ast.Dict):
            out = {}
            for k, v in zip(b.value.keys, b.value.values):
                out[k.value] = [e.elts[0].value for e in v.elts if isinstance(e, ast.Tuple)]
            return out
    raise AnalysisError("C18.R1", "anchor vanished: _PARAM_REQUIREMENTS table")


def r1_validate_before_use(ctx):
    ctx.rule("C18.R1", "partial operations on user-supplied visit parameters are dominated by a validating test", 10)
    ix = ctx.ix
    req = _requirements(ctx)
    defaults = json.load(open(os.path.join(ix.src_root, "leaspy", "algo", "data", "default_simulate.json")))["parameters"]
    visit_enum = {n: v for n, v in ix.enum_members(ix.find_class("VisitType"))}
    for name in REGION:
        f = ix.func(SIM, f"{CLS}.{name}", "C18.R1")
        cfg = CFG(f.node)
        inl = Inliner(f.node)
        params = [a.arg for a in f.node.args.args[1:]]
        user_dicts = {"self.param_study"}
        for p in params:
            if p in ("dict_param", "visit_parameters"):
                user_dicts.add(p)
        for st in statements(f.node):
            if isinstance(st, ast.Assign) and isinstance(st.targets[0], ast.Name) and U(st.value) in ("settings.parameters['visit_parameters']", 'settings.parameters["visit_parameters"]'):
                user_dicts.add(st.targets[0].id)
        # every raise is an algorithm-input error
        for r in [s for s in statements(f.node) if isinstance(s, ast.Raise)]:
            ctx.check(raised_class_name(r) == "LeaspyAlgoInputError", "C18.R1", f, r, "refusal is a LeaspyAlgoInputError", f"refusal raises {raised_class_name(r)}")

        def dominated_by_membership(n, dtxt, ktxt):
            """node n only reached when `ktxt in dtxt` holds"""
            for h, lab in cfg.if_guards(n):
                t = cfg.stmt[h].test
                for c in ast.walk(t):
                    if isinstance(c, ast.Compare) and len(c.ops) == 1 and U(c.comparators[0]) == dtxt and U(c.left) == ktxt:
                        if isinstance(c.ops[0], ast.In) and lab and not _under_or(t, c):
                            return True
                        if isinstance(c.ops[0], ast.NotIn) and not lab and not _under_and(t, c):
                            return True
            # `if k not in D: ...; continue / raise` before n in the same block
            for h in cfg.nodes(lambda s: isinstance(s, ast.If)):
                t = cfg.stmt[h].test
                hit = [c for c in ast.walk(t) if isinstance(c, ast.Compare) and len(c.ops) == 1 and U(c.comparators[0]) == dtxt and U(c.left) == ktxt and isinstance(c.ops[0], ast.NotIn)]
                if hit and not _under_and(t, hit[0]) and cfg.dominates(h, n):
                    # the True branch must not fall through to n
                    g = cfg.g.copy()
                    for _, v, d in list(g.out_edges(h, data=True)):
                        if d.get("label") is False:
                            g.remove_edge(h, v)
                    lh = _loop_of(cfg, h)
                    if lh is not None and lh in g:
                        g.remove_node(lh)
                    if n not in g or not any(nx.has_path(g, s, n) for s in g.successors(h)):
                        return True
            return False

        for n, st in cfg.stmt.items():
            if st is None:
                continue
            for x in header_walk(st):
                if not (isinstance(x, ast.Subscript) and isinstance(x.ctx, ast.Load)):
                    continue
                d = U(x.value)
                if d not in user_dicts:
                    # settings.parameters[...] : keys present in the shipped defaults
                    if d == "settings.parameters" and isinstance(x.slice, ast.Constant):
                        ctx.check(x.slice.value in defaults, "C18.R1", f, x, "key present in the shipped default settings", f"`{U(x)}`: key not in default_simulate.json -> KeyError")
                    continue
                k = x.slice
                ktxt = U(k)
                ok, why = False, ""
                # inside a comprehension: `... D[k] ... for k in .. if k in D` (the filter guards the element)
                comp_guard = False
                for cp in ast.walk(st):
                    if isinstance(cp, (ast.DictComp, ast.ListComp, ast.SetComp, ast.GeneratorExp)) and any(y is x for y in ast.walk(cp)):
                        for gen in cp.generators:
                            for cond in gen.ifs:
                                for c in ast.walk(cond):
                                    if isinstance(c, ast.Compare) and len(c.ops) == 1 and isinstance(c.ops[0], ast.In) and U(c.left) == ktxt and U(c.comparators[0]) == d and not _under_or(cond, c):
                                        comp_guard = True
                if comp_guard:
                    ok, why = True, f"comprehension filter `{ktxt} in {d}`"
                elif dominated_by_membership(n, d, ktxt):
                    ok, why = True, f"`{ktxt} in {d}` holds here"
                elif isinstance(k, ast.Constant) and d == "self.param_study":
                    # assigned earlier in this function ?
                    asg = [m for m, s2 in cfg.stmt.items() if isinstance(s2, ast.Assign) and U(s2.targets[0]) == U(x) and cfg.dominates(m, n)]
                    if asg:
                        ok, why = True, "assigned earlier in the function"
                    else:
                        # validated by _check_params(requirements) for the visit type guarding this use
                        chk = [m for m, s2 in cfg.stmt.items() if s2 is not None and any(isinstance(c, ast.Call) and U(c.func) == "self._check_params" for c in header_walk(s2))]
                        vt = None
                        for h, lab in cfg.if_guards(n):
                            t = U(cfg.stmt[h].test)
                            if t.startswith("self.visit_type == VisitType.") and lab:
                                vt = visit_enum.get(t.split(".")[-1])
                        if chk and any(cfg.dominates(c, n) for c in chk) and vt is not None and k.value in req.get(vt, []):
                            ok, why = True, f"required key of visit type '{vt}', checked by _check_params before"
                        else:
                            why = f"`{U(x)}` read without a dominating presence check (visit type guard: {vt}, required keys: {req.get(vt)})"
                else:
                    why = f"`{U(x)}` read from user-supplied parameters without a dominating `{ktxt} in {d}` test"
                ctx.check(ok, "C18.R1", f, x, why, why + ": a malformed design raises KeyError instead of LeaspyAlgoInputError")
        # typed use of values taken from the user dict
        for st in statements(f.node):
            if isinstance(st, ast.Assign) and isinstance(st.targets[0], ast.Name) and isinstance(st.value, ast.Subscript) and U(st.value.value) in user_dicts:
                var = st.targets[0].id
                dn = cfg.node_of(st)
                for n, s2 in cfg.stmt.items():
                    if s2 is None or n == dn or not cfg.reachable(dn, n):
                        continue
                    for x in header_walk(s2):
                        partial = None
                        if isinstance(x, ast.Compare) and any(isinstance(a, ast.Name) and a.id == var for a in [x.left] + x.comparators) and \
                                any(isinstance(o, (ast.Lt, ast.LtE, ast.Gt, ast.GtE)) for o in x.ops):
                            partial = x
                        if isinstance(x, ast.Call) and isinstance(x.func, ast.Attribute) and isinstance(x.func.value, ast.Name) and x.func.value.id == var:
                            partial = x
                        if isinstance(x, ast.Subscript) and isinstance(x.value, ast.Name) and x.value.id == var and isinstance(x.ctx, ast.Load):
                            partial = x
                        if partial is None:
                            continue
                        # reaching definition: only consider uses reached by THIS definition
                        others = [m for m, s3 in cfg.stmt.items() if isinstance(s3, ast.Assign) and any(U(t) == var for t in s3.targets) and m != dn]
                        if cfg.all_paths_pass(dn, others, end=n) and others:
                            continue
                        typed = False
                        for h in cfg.nodes(lambda s: isinstance(s, ast.If)):
                            t = cfg.stmt[h].test
                            if f"isinstance({var}," in U(t) and cfg.dominates(dn, h) and cfg.dominates(h, n):
                                neg = isinstance(t, ast.UnaryOp) and isinstance(t.op, ast.Not)
                                g = cfg.g.copy()
                                for _, v, d2 in list(g.out_edges(h, data=True)):
                                    if d2.get("label") is (False if neg else True):
                                        g.remove_edge(h, v)
                                lh = _loop_of(cfg, h)
                                if lh is not None and lh in g:
                                    g.remove_node(lh)
                                # from the failing branch, n must be unreachable (continue / raise / elif)
                                if n not in g or not any(nx.has_path(g, s, n) for s in g.successors(h)):
                                    typed = True
                        if not typed and name == "_validate_algo_parameters":
                            chk = [m for m, s3 in cfg.stmt.items() if s3 is not None and any(isinstance(c, ast.Call) and U(c.func) == "self._check_params" for c in header_walk(s3))]
                            typed = any(cfg.dominates(c, n) for c in chk)
                        ctx.check(typed, "C18.R1", f, partial, f"`{var}` has a validated type here",
                                  f"`{U(partial)[:60]}` is evaluated although `{var}` may have the wrong type (the type error is recorded but the check carries on): TypeError / AttributeError instead of LeaspyAlgoInputError")
    # visit_type itself
    f = ix.func(SIM, f"{CLS}._validate_algo_parameters", "C18.R1")
    cfg = CFG(f.node)
    got = [st for st in statements(f.node) if isinstance(st, ast.Assign) and isinstance(st.value, ast.Call) and U(st.value.func) == "self._PARAM_REQUIREMENTS.get" and U(st.value.args[0]) == "self.visit_type"]
    ok = False
    if got:
        var = U(got[0].targets[0])
        for r in cfg.nodes(lambda s_: isinstance(s_, ast.Raise)):
            for h, lab in cfg.if_guards(r):
                if U(cfg.stmt[h].test) in (f"not {var}", f"{var} is None") and lab:
                    ok = True
    ctx.check(ok, "C18.R1", f, got[0] if got else f.node, "unknown visit type refused", "an unknown visit type is not refused", construct="unknown visit type")


def _under_or(test, node):
    for b in ast.walk(test):
        if isinstance(b, ast.BoolOp) and isinstance(b.op, ast.Or) and any(x is node for v in b.values for x in ast.walk(v)):
            return True
    return False


def _under_and(test, node):
    for b in ast.walk(test):
        if isinstance(b, ast.BoolOp) and isinstance(b.op, ast.And) and any(x is node for v in b.values for x in ast.walk(v)):
            return True
    return False


def _loop_of(cfg, n):
    best = None
    for h, k in cfg.kind.items():
        if k == "loop" and h != n:
            st = cfg.stmt[h]
            if any(x is cfg.stmt[n] for b in st.body for x in ast.walk(b)):
                if best is None or cfg.stmt[best].lineno < st.lineno:
                    best = h
    return best


def r2_none_use(ctx):
    ctx.rule("C18.R2", "no None definition of the rounding precision reaches `.round(...)`", 1)
    f = ctx.ix.func(SIM, f"{CLS}._generate_dataset", "C18.R2")
    cfg = CFG(f.node)
    uses = []
    for n, st in cfg.stmt.items():
        if st is None:
            continue
        for x in header_walk(st):
            if isinstance(x, ast.Call) and isinstance(x.func, ast.Attribute) and x.func.attr == "round" and len(x.args) == 1 and isinstance(x.args[0], ast.Name) \
                    and U(x.func.value) not in ("np", "numpy", "torch", "math"):
                uses.append((n, x, x.args[0].id))
    if not uses:
        # the rounding may have moved: wherever it is, the ages of BOTH designs (random and table-driven) must pass through it
        moved = []
        cls_ = ctx.ix.find_class(CLS)
        for g in ctx.ix.iter_funcs():
            if g.cls != cls_ and not (g.cls is not None and cls_ in ctx.ix.mro(g.cls)) and not (g.cls is not None and g.cls in ctx.ix.mro(cls_)):
                continue
            for c in ast.walk(g.node):
                if isinstance(c, ast.Call) and ((isinstance(c.func, ast.Attribute) and c.func.attr == "round") or U(c.func) in ("round",)) and any("precision" in U(a_) for a_ in list(c.args) + [k.value for k in c.keywords]):
                    moved.append((g, c))
        if not moved:
            ctx.violation("C18.R2", f, f.node, "the simulated ages are no longer rounded to the precision derived from min_spacing_between_visits", construct="rounding of the ages")
            return
        for g, c in moved:
            gcfg = CFG(g.node)
            cn_ = gcfg.node_containing(c)
            rets = [n for n, st in gcfg.stmt.items() if isinstance(st, ast.Return) and st.value is not None]
            unrounded = [n for n in rets if n != cn_ and not (cn_ is not None and gcfg.dominates(cn_, n))]
            ctx.check(not unrounded, "C18.R2", g, c, f"every value returned by {g.name} went through the rounding",
                      f"the rounding now sits in {g.name}, where `{U(gcfg.stmt[unrounded[0]])[:70] if unrounded else ''}` returns without it: the ages of that design (e.g. a supplied visit table) "
                      "are not rounded to the documented precision", construct="rounding on every path")
        return
    for n, x, var in uses:
        defs = [(m, s) for m, s in cfg.stmt.items() if isinstance(s, (ast.Assign, ast.AnnAssign)) and any(U(t) == var for t in store_targets(s))]
        none_defs = [(m, s) for m, s in defs if isinstance(s.value, ast.Constant) and s.value.value is None]
        bad = None
        for m, s in none_defs:
            others = [k for k, _ in defs if k != m]
            if cfg.path_avoiding(m, others, end=n) is not None:
                bad = s
        ctx.check(bad is None, "C18.R2", f, x, f"every definition of `{var}` reaching the rounding is a number",
                  f"`{var} = None` reaches `{U(x)}` (e.g. min_spacing_between_visits < 0.001 matches no rounding option): round(None) -> TypeError for an accepted design")


def r2b_precision_table(ctx):
    """'ages rounded to the documented precision': the table maps a number of decimals k to the spacing 10**-k, and the number of decimals
    kept is the smallest k whose spacing does not exceed the requested minimal spacing (the finest one when none does)."""
    from ..astq import Canon, unify
    ctx.rule("C18.R2b", "precision table k -> 10**-k; first k (ascending) whose spacing <= min spacing, else the finest", 2)
    f = ctx.ix.func(SIM, f"{CLS}._generate_dataset", "C18.R2b")
    tables = [st for st in statements(f.node) if isinstance(st, ast.Assign) and isinstance(st.value, ast.Dict) and st.value.keys
              and all(isinstance(k, ast.Constant) and isinstance(k.value, int) for k in st.value.keys) and all(isinstance(v, ast.Constant) and isinstance(v.value, (int, float)) for v in st.value.values)
              and "round" in U(st.targets[0])]
    if not tables:
        return  # the table is gone: R2 decides what the rounding then uses
    t = tables[0]
    bad = [(k.value, v.value) for k, v in zip(t.value.keys, t.value.values) if abs(v.value - 10.0 ** (-k.value)) > 1e-12]
    ctx.check(not bad, "C18.R2b", f, t, "k decimals <-> a spacing of 10**-k", f"the precision table maps {bad[0][0] if bad else ''} decimals to a spacing of {bad[0][1] if bad else ''} (10**-k expected): "
              "ages are rounded more coarsely / finely than the minimal spacing asks for (distinct visits merged, or near-duplicates kept)", construct="precision table")
    L = Canon(f.node).lines(False, True)
    b = unify(L, ["?t = {...}", "?p = max(?t)", "for (sorted(?t.items()), (?k, ?v))", "?p = ?k", "?df.loc[:, 'TIME'] = ?df['TIME'].round(?p)"])
    order_ok = b is not None and all(b[f"#{i}"] < b[f"#{i + 1}"] for i in range(4))
    if not order_ok:
        # the same selection written `next((k for k, v in sorted(t.items()) if v <= m), default)`: the default is the finest precision, max(t)
        nx = [c for c in ast.walk(f.node) if isinstance(c, ast.Call) and U(c.func) == "next" and len(c.args) == 2 and isinstance(c.args[0], ast.GeneratorExp)]
        tabs = [st for st in statements(f.node) if isinstance(st, ast.Assign) and isinstance(st.value, ast.Dict) and st.value.keys and all(isinstance(k, ast.Constant) and isinstance(k.value, int) for k in st.value.keys)]
        if len(nx) == 1 and tabs:
            keys = [k.value for k in tabs[0].value.keys]
            tname = U(tabs[0].targets[0])
            try:
                dflt = eval(compile(ast.Expression(nx[0].args[1]), "<default>", "eval"), {"__builtins__": {}, "max": max, "min": min, "len": len, "sorted": sorted}, {tname: dict.fromkeys(keys, 0)})
            except Exception:
                dflt = None
            if dflt is None:
                ctx.unknown("C18.R2b", f, nx[0], f"default precision `{U(nx[0].args[1])[:50]}` cannot be evaluated on the table", construct="precision selection")
            else:
                ctx.check(dflt == max(keys), "C18.R2b", f, nx[0], "when no spacing fits, the finest supported precision is taken",
                          f"when no supported spacing fits, the ages are rounded to `{U(nx[0].args[1])[:40]}` = {dflt} decimals instead of the finest documented precision ({max(keys)})", construct="precision selection")
            return
        ctx.anchor(False, "C18.R2b", f, t, "", "selection of the rounding precision (first entry, in ascending order, whose spacing fits)", construct="precision selection")
        return
    # unique ages: rounding can make two ages of an individual equal - the duplicated (ID, TIME) rows are dropped afterwards
    after = L[b["#4"] + 1:]
    dedup = "; ".join(ln for ln in after if "duplicated" in ln or "drop_duplicates" in ln or "set_index" in ln)
    ctx.form("C18.R2b", f, t, dedup, {f"{b['df']}.set_index(['ID', 'TIME'], inplace=True); return {b['df']}[~{b['df']}.index.duplicated()]"},
             [("duplicated", "drop_duplicates")], "rows with a duplicated (ID, TIME) are dropped after the rounding",
             "rows whose (ID, TIME) is duplicated after the rounding are no longer dropped: an individual can have two visits at the same age", construct="unique ages after rounding")
    test = L[b["#2"] + 1]
    import re as _re
    m = _re.fullmatch(r"if (?P<a>\S+) (?P<op><=|<|>=|>|==|!=) (?P<b>\S+)", test)
    spacing = f.node.args.args[-1].arg if f.node.args.args else None
    ms = Canon(f.node).text(ast.Name(id=spacing, ctx=ast.Load()), False) if spacing else None
    shape_ok = m is not None and b["#2"] + 2 == b["#3"] and L[b["#3"] + 1] == "break"
    if shape_ok and {m.group("a"), m.group("b")} == {b["v"], ms}:
        op = m.group("op") if m.group("a") == b["v"] else {"<=": ">=", "<": ">", ">=": "<=", ">": "<", "==": "==", "!=": "!="}[m.group("op")]
        if op in ("<=", "<"):
            ctx.ok("C18.R2b", f, t, f"smallest number of decimals whose spacing {op} min_spacing_between_visits (finest when none)", construct="precision selection")
        else:
            ctx.violation("C18.R2b", f, t, f"the number of decimals kept is the first one whose spacing is `{op}` the minimal spacing: ages are rounded more coarsely than the requested spacing "
                          "(distinct visits of an individual collapse to one age and are dropped)", construct="precision selection")
    else:
        ctx.anchor(False, "C18.R2b", f, t, "", "selection of the rounding precision (first entry, in ascending order, whose spacing fits)", construct="precision selection")


def r3_generation_after_validation(ctx):
    ctx.rule("C18.R3", "nothing drawn in the constructor; the model check dominates generation", 4)
    ix = ctx.ix
    cg = callgraph(ctx)
    init = ix.func(SIM, f"{CLS}.__init__", "C18.R3")
    seen = cg.reach([init])
    from ..effects import rng_draws
    ps = prior_sampling_sites(ctx, cg)
    n = 0
    for k in seen:
        for fam, node, txt in rng_draws(ix, ix.funcs[k]) + [("torch", c, "prior sampling") for c in ps.get(k, [])]:
            n += 1
            ctx.violation("C18.R3", ix.funcs[k], node, f"`{txt}` reachable from the constructor: something is generated before the design is validated")
    ctx.ok("C18.R3", init, init.node, f"{len(seen)} functions reachable from the constructor, none draws", construct="constructor draws nothing")
    cfg0 = CFG(init.node)
    val = [m for m, s in cfg0.stmt.items() if s is not None and any(isinstance(c, ast.Call) and U(c.func) == "self._validate_algo_parameters" for c in header_walk(s))]
    ctx.check(bool(val) and cfg0.all_paths_pass(cfg0.entry, val), "C18.R3", init, cfg0.stmt[val[0]] if val else init.node, "validation on every constructor path",
              "a constructor path skips _validate_algo_parameters")
    run = ix.func("leaspy.algo.simulate.base", "BaseSimulationAlgorithm._run", "C18.R3")
    cfg = CFG(run.node)
    chk = [m for m, s in cfg.stmt.items() if s is not None and any(isinstance(c, ast.Call) and U(c.func) in ("self._get_leaspy_model", "self._check_logistic_model") for c in header_walk(s))]
    gm = ix.func(SIM, f"{CLS}._get_leaspy_model", "C18.R3")
    ctx.check("self._check_logistic_model(model)" in U(gm.node), "C18.R3", gm, gm.node, "_get_leaspy_model checks the model kind", "_get_leaspy_model no longer checks the model kind", construct="model kind check")
    # what the check accepts: the documented requirement is the logistic model itself - a test by `isinstance` also lets its subclasses through
    # (the joint model), whose simulation then fails midway with another error
    ck = ix.func(SIM, f"{CLS}._check_logistic_model", "C18.R3")
    ccfg = CFG(ck.node)
    tests = [ccfg.stmt[h].test for r_ in ccfg.nodes(lambda s_: isinstance(s_, ast.Raise)) for h, lab in ccfg.if_guards(r_)]
    if not tests:
        ctx.violation("C18.R3", ck, ck.node, "_check_logistic_model no longer refuses anything", construct="model kind test")
    for t_ in tests:
        exact = U(t_) in ("model.__class__.__name__ != 'LogisticModel'", "type(model).__name__ != 'LogisticModel'", "type(model) is not LogisticModel", "model.__class__ is not LogisticModel",
                          "not type(model) is LogisticModel", "type(model) != LogisticModel")
        inst = [c for c in ast.walk(t_) if isinstance(c, ast.Call) and U(c.func) == "isinstance" and len(c.args) == 2]
        if exact:
            ctx.ok("C18.R3", ck, t_, "the model must be exactly a LogisticModel", construct="model kind test")
        elif inst:
            key = ix.find_class(U(inst[0].args[1]).split(".")[-1]) if hasattr(ix, "find_class") else None
            subs = [k for k in (ix.subclasses(key) if key is not None else []) if k != key]
            if subs:
                ctx.violation("C18.R3", ck, t_, f"`{U(t_)[:70]}` also accepts the subclasses of {key[1]} ({', '.join(k[1] for k in subs[:3])}): such a model is not refused before anything is generated, "
                              "and its simulation fails midway with another error than the documented algorithm-input error", construct="model kind test")
            else:
                ctx.ok("C18.R3", ck, t_, f"isinstance test on a class without subclasses", construct="model kind test")
        else:
            ctx.unknown("C18.R3", ck, t_, f"model kind test `{U(t_)[:70]}` not recognised", construct="model kind test")
    gens = [(m, c) for m, s in cfg.stmt.items() if s is not None for c in header_walk(s) if isinstance(c, ast.Call) and U(c.func) in (
        "self._sample_individual_parameters_from_model_parameters", "self._generate_visit_ages", "self._generate_dataset")]
    if len(gens) < 3:
        raise AnalysisError("C18.R3", "anchor vanished: generating calls of BaseSimulationAlgorithm._run")
    for m, c in gens:
        ctx.check(any(cfg.dominates(k, m) for k in chk), "C18.R3", run, c, "model check dominates this generating call",
                  f"`{U(c.func)}` runs before the model kind is checked: random numbers are consumed (and model parameters read) for a simulation that is then refused")


def r4_progress(ctx):
    ctx.rule("C18.R4", "random designs: mean spacing forced > 0 by the validation", 1)
    f = ctx.ix.func(SIM, f"{CLS}._validate_algo_parameters", "C18.R4")
    cfg = CFG(f.node)
    M, S = "self.param_study['distance_visit_mean']", "self.param_study['distance_visit_std']"
    found = False
    for r in cfg.nodes(lambda s: isinstance(s, ast.Raise)):
        gs = cfg.if_guards(r)
        if not any(U(cfg.stmt[h].test) == "self.visit_type == VisitType.RANDOM" and lab for h, lab in gs):
            continue
        if any("distance_visit_mean" in U(cfg.stmt[h].test) for h, _ in gs):
            from ._shared import refusal_side_conditions
            for st_, g_, kind in refusal_side_conditions(cfg, r, lambda g: "distance_visit_mean" in g, U, context={"self.visit_type == VisitType.RANDOM"}):
                ctx.violation("C18.R4", f, st_, f"the refusal of a non-positive mean spacing {kind} `{g_[:80]}`: some random designs with mean spacing <= 0 are accepted", construct="spacing validation unconditional")
        for h, lab in gs:
            t = cfg.stmt[h].test
            if "distance_visit_mean" not in U(t):
                continue
            found = True
            bad = []
            try:
                for m in (-1.0, 0.0, 0.25):
                    for s in (0.0, 0.5):
                        refused = bool(eval_guard(t, {M: m, S: s, M.replace("'", '"'): m, S.replace("'", '"'): s})) == lab
                        if refused != (m <= 0):
                            bad.append((m, s))
            except GuardUnsupported as e:
                ctx.unknown("C18.R4", f, cfg.stmt[h], f"guard outside the supported subset: {e}")
                continue
            ctx.check(not bad, "C18.R4", f, cfg.stmt[h], "refused exactly when the mean spacing is <= 0 (a zero std - regular visits - stays allowed)",
                      f"(mean, std) in {bad} wrongly {'accepted' if any(m <= 0 for m, _ in bad) else 'refused'}: with a non-positive mean spacing the visit loop may never reach the follow-up age")
    if not found:
        ctx.violation("C18.R4", f, f.node, "random designs: the spacing between visits is not validated", construct="spacing validation")
    g = ctx.ix.func(SIM, f"{CLS}._generate_visit_ages", "C18.R4")
    loops = [w for w in ast.walk(g.node) if isinstance(w, ast.While)]
    ok = len(loops) == 1 and any(isinstance(x, ast.AugAssign) and isinstance(x.op, ast.Add) and "distance_visit_mean" in U(x.value) for x in ast.walk(loops[0]))
    ctx.check(ok, "C18.R4", g, loops[0] if loops else g.node, "the visit loop advances by the validated spacing", "the visit loop no longer advances by N(distance_visit_mean, distance_visit_std)", construct="visit loop increment")


def r11_sources_standardised_per_source(ctx):
    """'finite values for every requested feature ... every valid design runs to completion': each source is standardised over the simulated
    individuals (its own column).  Statistics taken over the sources of one individual are NaN for a one-source model (std of one value) and
    make every simulation of such a model fail; with more sources they silently replace the standardisation by another one."""
    import re as _re
    from ..astq import Canon, unify
    ctx.rule("C18.R11", "simulated sources are standardised source by source, over the individuals", 1)
    f = ctx.ix.func(SIM, f"{CLS}._sample_individual_parameters_from_model_parameters", "C18.R11")
    L = Canon(f.node).lines(False, True)
    S_ = "?df[f'sources_{?i}']"
    b = unify(L, ["for (range($1.source_dimension), ?i)", f"{S_} = torch.tensor(np.random.normal(0.0, 1.0, $0.param_study['patient_number']), dtype=torch.float32)",
                  f"{S_} = ({S_} - {S_}.mean()) / {S_}.std()"])
    if b is not None and b["#0"] < b["#1"] < b["#2"]:
        ctx.ok("C18.R11", f, f.node, "each source column: N(0, 1) draws, centred and scaled with its own mean / std over the individuals", construct="standardisation of the sources")
        return
    # sources laid out as ROWS of a table (index = source names) and reduced with the default axis: statistics over the sources of each individual
    rows = [ln for ln in L if _re.search(r"pd\.DataFrame\(.*index=\[f'sources_\{", ln)]
    wrong = None
    for ln in rows:
        m = _re.match(r"(%\d+) = ", ln)
        if not m:
            continue
        nm = m.group(1)
        for l2 in L:
            if _re.search(_re.escape(nm) + r"\.(mean|std)\(\)", l2) and ".T." not in l2:
                wrong = l2
    if wrong is not None:
        ctx.violation("C18.R11", f, f.node, f"`{wrong[:100]}`: the sources are the rows of that table, so `.mean()` / `.std()` (default axis) are taken over the sources of each individual, not over the "
                      "individuals: NaN for a one-source model (every simulation of such a model fails), another standardisation otherwise", construct="standardisation of the sources")
    else:
        ctx.anchor(False, "C18.R11", f, f.node, "", "per-source standardisation of the simulated sources", construct="standardisation of the sources")


STRICTLY_POSITIVE = {"patient_number", "distance_visit_mean"}  # keys the validation refuses when <= 0 (C18.R1 / C18.R4 check those refusals); the others may be 0


def r10_no_division_by_a_design_parameter(ctx):
    """'every design that satisfies the documented requirements runs to completion': the validation accepts 0 for the standard deviations
    (a fixed follow-up, regular visits) and for the means - so the generating code must not divide by one of them (nor take its log)."""
    from ..astq import Inliner
    ctx.rule("C18.R10", "the generating functions never divide by (or take the log of) a design parameter that the validation allows to be 0", 3)
    n = 0
    cp = ctx.ix.func(SIM, f"{CLS}._check_params", "C18.R10")
    from ..astq import canon_lines, unify as _unify
    b_cp = _unify(canon_lines(cp.node, False, True), ["if ?p == 'patient_number' and ?v <= 0", "if ?p.endswith('_std') and ?v < 0"])
    ctx.anchor(b_cp is not None, "C18.R10", cp, cp.node,
               "the validation refuses patient_number <= 0 and only negative standard deviations (table STRICTLY_POSITIVE of this rule)", "validation of the signs of the design parameters", construct="sign table")
    for name in ("_generate_visit_ages", "_generate_dataset", "_sample_individual_parameters_from_model_parameters"):
        f = ctx.ix.func(SIM, f"{CLS}.{name}", "C18.R10")
        inl = Inliner(f.node)

        def key_of(e):
            e = inl.resolve(e)
            for x in ast.walk(e):
                if isinstance(x, ast.Subscript) and U(x.value) == "self.param_study" and isinstance(x.slice, ast.Constant):
                    return x.slice.value
            return None
        for x in ast.walk(f.node):
            den = None
            if isinstance(x, ast.BinOp) and isinstance(x.op, (ast.Div, ast.FloorDiv, ast.Mod)):
                den = x.right
            elif isinstance(x, ast.Call) and U(x.func) in ("np.log", "math.log", "torch.log", "np.reciprocal") and x.args:
                den = x.args[0]
            if den is None:
                continue
            k = key_of(den)
            if k is None:
                continue
            n += 1
            ctx.check(k in STRICTLY_POSITIVE, "C18.R10", f, x, f"`{k}` is refused when <= 0 by the validation",
                      f"`{U(x)[:70]}` divides by the design parameter `{k}`, which the validation allows to be 0 (only negative values are refused): a valid design "
                      "(e.g. a fixed follow-up duration, std = 0) ends in ZeroDivisionError / inf instead of running to completion")
        ctx.ok("C18.R10", f, f.node, "no division by a design parameter that may be 0", construct=f"def {name}")


def r5_beta_domain(ctx):
    """'finite values within [0,1]' and 'every design that satisfies the requirements runs to completion': the noiseless model values are
    the means of Beta draws; mean 0 or 1 gives a zero variance bound and NaN shape parameters (scipy raises / returns NaN).  The values
    are single-precision (model.estimate returns float32 arrays), so the clip bounds must stay strictly inside (0, 1) *as float32*."""
    import struct
    from ..normalform import fold_constants
    ctx.rule("C18.R5", "Beta means clipped strictly inside (0, 1) in single precision before the shape parameters are computed", 2)
    f = ctx.ix.func(SIM, f"{CLS}._generate_dataset", "C18.R5")
    inl = Inliner(f.node)
    clips = [c for c in ast.walk(f.node) if isinstance(c, ast.Call) and isinstance(c.func, ast.Attribute) and c.func.attr in ("clip", "clamp") and "values" in U(c.func.value)]
    if not clips:
        ctx.violation("C18.R5", f, f.node, "the noiseless values are no longer clipped inside (0, 1) before being used as Beta means: a saturated value (0 or 1) gives NaN shape parameters", construct="clip of the Beta means")
        return

    def f32(x):
        return struct.unpack("f", struct.pack("f", x))[0]
    for c in clips:
        lo = kwarg(c, "min") if kwarg(c, "min") is not None else (c.args[0] if len(c.args) > 0 else None)
        hi = kwarg(c, "max") if kwarg(c, "max") is not None else (c.args[1] if len(c.args) > 1 else None)
        vlo = fold_constants(inl.resolve(lo)) if lo is not None else None
        vhi = fold_constants(inl.resolve(hi)) if hi is not None else None
        if vlo is None or vhi is None:
            ctx.unknown("C18.R5", f, c, f"clip bounds `{U(lo) if lo is not None else None}`, `{U(hi) if hi is not None else None}` are not closed constants")
            continue
        ctx.check(f32(vlo) > 0.0, "C18.R5", f, c, f"lower bound {vlo!r} is > 0 as float32 ({f32(vlo)!r})", f"lower clip bound {vlo!r} is {f32(vlo)!r} in single precision: a value of 0 is not moved inside (0, 1)",
                  construct="lower clip bound")
        ctx.check(f32(vhi) < 1.0, "C18.R5", f, c, f"upper bound {vhi!r} is < 1 as float32 ({f32(vhi)!r})",
                  f"upper clip bound {vhi!r} rounds to {f32(vhi)!r} in single precision (the values are float32): a saturated value 1.0 is not moved inside (0, 1), the variance bound mu(1-mu) is 0 "
                  "and the Beta shape parameters are NaN - a valid design does not run to completion", construct="upper clip bound")
    # the clipped values (and nothing else) are the means used for the shape parameters
    from ..astq import Canon, unify
    L = Canon(f.node).lines(True, True)
    import re as _re
    SH = "?{mu} * (?{mu} * (1 - ?{mu}) / ?{v} - 1)"
    b_ = unify(L, ["?df = pd.concat([pd.DataFrame($0.model.estimate(...)[?i].clip(...), ...columns=[?c + '_no_noise' for ?c in $0.features]) for ?i in $0.model.estimate(...).keys()])",
                   f"?df.loc[:, ?ft] = beta.rvs({SH}, (1 - ?{{mu}}) * (?{{mu}} * (1 - ?{{mu}}) / ?{{v}} - 1))"])
    ok = False
    if b_ is not None:
        mu = b_["mu"]
        src_ = f"{b_['df']}[{b_['ft']} + '_no_noise']"
        if _re.fullmatch(r"%\d+", mu):
            defs_ = [ln for ln in L if ln.startswith(mu + " = ")]
            ok = bool(defs_) and all(ln == f"{mu} = {src_}" for ln in defs_)
        else:
            ok = mu == src_
    ctx.check(ok, "C18.R5", f, f.node, "shape parameters derive from the clipped means", "the Beta shape parameters no longer derive from the clipped noiseless values", construct="means feed the shape parameters")
    # the variance handed to the parametrisation stays strictly below mu (1 - mu): otherwise mu (1 - mu) / v - 1 <= 0 and the Beta shape
    # parameters are not positive (scipy returns NaN) - a valid design would not run to completion with finite values
    if b_ is not None:
        v_, mu_ = b_["v"], b_["mu"]
        if _re.fullmatch(r"%\d+", v_):
            vd = [ln[len(v_) + 3:] for ln in L if ln.startswith(v_ + " = ")]
            v_ = vd[0] if len(vd) == 1 else v_
        mm = _re.fullmatch(r"np\.minimum\((?P<var>.+?), (?P<c>[0-9.eE+-]+) \* \((?P<m1>.+?) \* \(1 - (?P<m2>.+?)\)\)\)", v_) or \
            _re.fullmatch(r"np\.minimum\((?P<c>[0-9.eE+-]+) \* \((?P<m1>.+?) \* \(1 - (?P<m2>.+?)\)\), (?P<var>.+?)\)", v_)
        if mm is None:
            ctx.form("C18.R5", f, f.node, v_, set(), ["minimum", mu_ + " * (1 - " + mu_ + ")"], "variance capped below mu (1 - mu)",
                     "the noise variance is no longer capped below mu (1 - mu) before the Beta parametrisation: a noise larger than the attainable variance gives non-positive shape parameters (NaN values)",
                     construct="variance below mu(1-mu)")
        else:
            c_ = float(mm.group("c"))
            same = mm.group("m1") == mu_ and mm.group("m2") == mu_
            ctx.check(same and 0.0 < c_ < 1.0, "C18.R5", f, f.node, f"variance capped at {c_} * mu (1 - mu), strictly below the attainable maximum",
                      f"the noise variance is capped at {c_} * mu (1 - mu)" + ("" if same else " (of another quantity than the mean)") + ": not strictly below the attainable maximum, so mu (1 - mu) / v - 1 "
                      "can be <= 0 and the Beta shape parameters are not positive (NaN values, or an error from the sampler)", construct="variance below mu(1-mu)")


def r6_at_least_one_visit(ctx):
    """'exactly the requested number of individuals ... each with unique, increasing ages' and 'every design that satisfies the
    requirements runs to completion': an individual whose list of ages is empty disappears from the tables built afterwards (or makes
    the estimation fail); a zero-length follow-up is a legitimate design, so the list must be non-empty whatever the loop does."""
    ctx.rule("C18.R6", "random designs: every individual gets at least its baseline visit (the list of ages is never empty)", 1)
    f = ctx.ix.func(SIM, f"{CLS}._generate_visit_ages", "C18.R6")
    cfg = CFG(f.node)
    loops = [w for w in ast.walk(f.node) if isinstance(w, ast.While)]
    if len(loops) != 1:
        ctx.unknown("C18.R6", f, f.node, f"{len(loops)} while-loops in _generate_visit_ages (one expected)")
        return
    apps = [c for c in ast.walk(loops[0]) if isinstance(c, ast.Call) and isinstance(c.func, ast.Attribute) and c.func.attr == "append" and isinstance(c.func.value, ast.Name)]
    if not apps:
        ctx.unknown("C18.R6", f, loops[0], "the visit loop does not append to a list of ages")
        return
    var = apps[0].func.value.id
    inits = [(n, st) for n, st in cfg.stmt.items() if isinstance(st, ast.Assign) and any(isinstance(t, ast.Name) and t.id == var for t in st.targets)]
    uses = [n for n, st in cfg.stmt.items() if isinstance(st, ast.Assign) and isinstance(st.targets[0], ast.Subscript) and any(isinstance(x, ast.Name) and x.id == var for x in ast.walk(st.value))]
    if not inits or not uses:
        ctx.unknown("C18.R6", f, f.node, f"cannot find the initialisation / the hand-over of the list of ages `{var}`")
        return
    n0, st0 = inits[-1]
    nonempty_init = isinstance(st0.value, ast.List) and len(st0.value.elts) >= 1
    all_apps = [cfg.node_containing(c) for c in ast.walk(f.node) if isinstance(c, ast.Call) and isinstance(c.func, ast.Attribute) and c.func.attr == "append"
                and isinstance(c.func.value, ast.Name) and c.func.value.id == var]
    dominating = [a for a in all_apps if a is not None and all(cfg.dominates(a, u) for u in uses) and cfg.dominates(n0, a)]
    ctx.check(nonempty_init or bool(dominating), "C18.R6", f, st0, f"`{var}` starts with the baseline age (or an append dominates its use): never empty",
              f"`{var}` starts empty and is only filled inside `while {U(loops[0].test)[:50]}`: with a zero-length follow-up (a valid design) an individual gets no visit at all",
              construct="list of ages never empty")
    if nonempty_init:
        e0 = st0.value.elts[0]
        first = U(e0)
        if isinstance(e0, ast.Name):  # the definition of that name reaching the initialisation
            ds = [(n, st) for n, st in cfg.stmt.items() if isinstance(st, ast.Assign) and any(isinstance(t, ast.Name) and t.id == e0.id for t in st.targets) and cfg.dominates(n, n0) and n != n0]
            ds = [d for d in ds if all(cfg.dominates(o[0], d[0]) for o in ds)]
            if ds:
                first = U(ds[0][1].value)
        ctx.check("AGE_AT_BASELINE" in first, "C18.R6", f, st0, "the first visit is the baseline age", f"the first visit is `{first[:60]}`, not the baseline age", construct="first visit = baseline")


def r8_table_ages_keyed_by_their_own_id(ctx):
    """'exactly the individuals of a supplied visit table': each individual gets the ages of ITS rows - the dictionary is keyed by the
    groups' own identifiers (`groupby('ID')[...].apply(list).to_dict()`), never paired by position with an independently ordered
    sequence (groupby sorts the identifiers; an index follows first appearance)."""
    ctx.rule("C18.R8", "table-driven design: ages keyed by the identifier of their own group", 1)
    f = ctx.ix.func(SIM, f"{CLS}._generate_visit_ages", "C18.R8")
    cfg = CFG(f.node)
    from ..astq import Canon
    cn = Canon(f.node)
    rets = []
    for n, st in cfg.stmt.items():
        if isinstance(st, ast.Return) and st.value is not None and any(U(cfg.stmt[h].test) == "self.visit_type == VisitType.DATAFRAME" and lab for h, lab in cfg.if_guards(n)):
            rets.append(st)
    if not rets:
        ctx.unknown("C18.R8", f, f.node, "no return under `self.visit_type == VisitType.DATAFRAME` in _generate_visit_ages")
        return
    for r in rets:
        txt = cn.text(r.value)
        good = txt in ("$0.param_study['df_visits'].groupby('ID')['TIME'].apply(list).to_dict()", "$0.param_study['df_visits'].groupby('ID')['TIME'].agg(list).to_dict()")
        if good:
            ctx.ok("C18.R8", f, r, "ages keyed by the groupby's own identifiers")
        elif "zip(" in Inliner(f.node).text(r.value) and "groupby(" in Inliner(f.node).text(r.value):
            txt = Inliner(f.node).text(r.value)
            ctx.violation("C18.R8", f, r, f"`{txt[:100]}` pairs the per-individual ages (groupby: identifiers sorted) by position with another sequence of identifiers: individuals whose "
                          "identifiers do not first appear in sorted order are simulated at another individual's ages")
        else:
            ctx.unknown("C18.R8", f, r, f"`{txt[:100]}`: neither the confirmed form nor a positional pairing")


def r7_options_reach_param_study(ctx):
    """An option that the algorithm reads from `self.param_study` but that `_set_param_study` cannot copy there is silently ignored: it is
    neither validated ('refused with an algorithm-input error') nor honoured ('the documented precision')."""
    ctx.rule("C18.R7", "every key the algorithm reads from param_study can be copied there by _set_param_study", 8)
    ix = ctx.ix
    sp_ = ix.func(SIM, f"{CLS}._set_param_study", "C18.R7")
    req = _requirements(ctx)
    copied = {c.value for c in ast.walk(sp_.node) if isinstance(c, ast.Constant) and isinstance(c.value, str)}
    if any(isinstance(x, ast.Attribute) and x.attr == "_PARAM_REQUIREMENTS" for x in ast.walk(sp_.node)):
        for ks in req.values():
            copied |= set(ks)
    cls = ix.find_class(CLS)
    used = {}
    for f in ix.iter_funcs():
        if f.cls != cls or f.key == sp_.key:
            continue
        for x in ast.walk(f.node):
            key = None
            if isinstance(x, ast.Subscript) and U(x.value) == "self.param_study" and isinstance(x.slice, ast.Constant):
                key = x.slice.value
            elif isinstance(x, ast.Compare) and len(x.ops) == 1 and isinstance(x.ops[0], (ast.In, ast.NotIn)) and U(x.comparators[0]) == "self.param_study" and isinstance(x.left, ast.Constant):
                key = x.left.value
            elif isinstance(x, ast.Call) and U(x.func) == "self.param_study.get" and x.args and isinstance(x.args[0], ast.Constant):
                key = x.args[0].value
            if isinstance(key, str):
                used.setdefault(key, (f, x))
    for key, (f, x) in sorted(used.items()):
        ctx.check(key in copied, "C18.R7", f, x, f"`{key}` can be copied into param_study", f"`{key}` is read from param_study but _set_param_study never copies it there: the option is silently ignored "
                  "(not validated, not applied)", construct=f"option {key}")


def r12_table_refusals_look_at_documented_columns(ctx):
    """'every design that satisfies the documented requirements runs to completion': a supplied visit table is required to have the columns
    ID and TIME, with no missing age - what else it carries (scores, cofactors, with their own missing values) is ignored.  A refusal whose
    test looks at the table as a whole refuses valid designs."""
    ctx.rule("C18.R12", "table-driven design: every refusal reads the visit table through its ID / TIME columns (or its column names) only", 2)
    f = ctx.ix.func(SIM, f"{CLS}._validate_algo_parameters", "C18.R12")
    ctx.analysed(f)
    cfg = CFG(f.node)
    inl = Inliner(f.node)
    tables = {st.targets[0].id for st in statements(f.node) if isinstance(st, ast.Assign) and len(st.targets) == 1 and isinstance(st.targets[0], ast.Name)
              and "df_visits" in U(st.value)}
    if not tables:
        ctx.unknown("C18.R12", f, f.node, "the visit table is no longer bound to a local name in the validation", construct="refusals about the visit table")
        return

    def whole_table_uses(test):
        """uses of the table in `test` that are not `df.columns`, `df['ID']`, `df['TIME']`, `df[['ID', 'TIME']]` or `isinstance(df, ...)`"""
        bad = []
        parents = {}
        for n in ast.walk(test):
            for c in ast.iter_child_nodes(n):
                parents[c] = n
        for n in ast.walk(test):
            if isinstance(n, ast.Name) and n.id in tables:
                p_ = parents.get(n)
                if isinstance(p_, ast.Attribute) and p_.attr in ("columns",):
                    continue
                if isinstance(p_, ast.Subscript) and p_.value is n:
                    sl = p_.slice
                    keys = [sl] if isinstance(sl, ast.Constant) else (list(sl.elts) if isinstance(sl, (ast.List, ast.Tuple)) else None)
                    if keys is not None and all(isinstance(k_, ast.Constant) and k_.value in ("ID", "TIME") for k_ in keys):
                        continue
                if isinstance(p_, ast.Call) and U(p_.func) == "isinstance" and p_.args and p_.args[0] is n:
                    continue
                bad.append(U(p_)[:60] if p_ is not None else n.id)
        return bad
    n_ref = 0
    for r in cfg.nodes(lambda s_: isinstance(s_, ast.Raise)):
        for h, lab in cfg.if_guards(r):
            test = inl.resolve(cfg.stmt[h].test) if isinstance(cfg.stmt[h].test, ast.Name) else cfg.stmt[h].test
            if not any(isinstance(n, ast.Name) and n.id in tables for n in ast.walk(test)):
                continue
            n_ref += 1
            bad = whole_table_uses(test)
            ctx.check(not bad, "C18.R12", f, cfg.stmt[h], f"refusal `{U(test)[:60]}` reads the ID / TIME columns only",
                      f"the refusal `{U(test)[:70]}` looks at the whole table (`{bad[0] if bad else ''}`): a table with the required ID and TIME columns and, say, a missing value in another "
                      "column is refused although it is a valid design", construct=f"refusal on {U(test)[:50]}")
    if not n_ref:
        ctx.unknown("C18.R12", f, f.node, "no refusal about the visit table found in the validation", construct="refusals about the visit table")


def r13_features_are_a_list(ctx):
    """The documented requirement on `features` is a non-empty *list* of non-empty strings, and the generation relies on it: the long table
    is re-ordered with `df[self.features]`, where pandas reads a tuple as ONE column label.  The container test of `_check_features` is
    therefore `isinstance(self.features, list)` - a wider test accepts designs that die midway with another error."""
    ctx.rule("C18.R13", "`features` is refused unless it is a list (the generation selects columns with it)", 1)
    f = ctx.ix.func(SIM, f"{CLS}._check_features", "C18.R13")
    ctx.analysed(f)
    cfg = CFG(f.node)
    tests = [(cfg.stmt[h].test, lab) for r in cfg.nodes(lambda s_: isinstance(s_, ast.Raise)) for h, lab in cfg.if_guards(r)]
    cont = {U(t): (t, lab) for t, lab in tests if lab is True and any(isinstance(c, ast.Call) and U(c.func) == "isinstance" and c.args and U(c.args[0]) == "self.features" for c in ast.walk(t))}
    cont = list(cont.values())
    if not cont:
        ctx.violation("C18.R13", f, f.node, "`_check_features` no longer refuses a `features` value by its container type", construct="container test of features")
        return
    for t, lab in cont:
        ok = U(t) in ("not isinstance(self.features, list)",) and lab is True
        types = [U(c.args[1]) for c in ast.walk(t) if isinstance(c, ast.Call) and U(c.func) == "isinstance" and len(c.args) == 2]
        ctx.check(ok, "C18.R13", f, t, "features refused unless `isinstance(self.features, list)`",
                  f"`{U(t)[:70]}` accepts more than a list ({types}): the generation selects the feature columns with `df[self.features]`, which reads a tuple as a single column label - such a design "
                  "is not refused before anything is generated and dies midway with a KeyError", construct="container test of features")
    uses = [x for g in ctx.ix.iter_funcs() if g.mod == SIM for x in ast.walk(g.node) if isinstance(x, ast.Subscript) and U(x.slice) == "self.features"]
    ctx.ok("C18.R13", f, f.node, f"{len(uses)} column selection(s) `...[self.features]` in the simulation module rely on it", construct="column selections by features")


def rules(ctx):
    r1_validate_before_use(ctx)
    r2_none_use(ctx)
    r2b_precision_table(ctx)
    r3_generation_after_validation(ctx)
    r4_progress(ctx)
    r5_beta_domain(ctx)
    r6_at_least_one_visit(ctx)
    r7_options_reach_param_study(ctx)
    r8_table_ages_keyed_by_their_own_id(ctx)
    r10_no_division_by_a_design_parameter(ctx)
    r11_sources_standardised_per_source(ctx)
    r12_table_refusals_look_at_documented_columns(ctx)
    r13_features_are_a_list(ctx)
    # "every design that satisfies the requirements runs to completion" - also when it is submitted a second time: building the algorithm never
    # takes anything out of the design dictionary the caller passed (same rule as C13.R4)
    from .c13 import r4_inputs
    r4_inputs(ctx, callgraph(ctx), rid="C18.R14")
    # whether a design is accepted depends on the design alone: the tables of requirements / defaults of the class are never written
    # (same rule as C13.R5, restricted to the simulation package)
    from .c13 import r5_shared_defaults
    r5_shared_defaults(ctx, rid="C18.R9", scope="leaspy.algo.simulate", title="the class-level tables of requirements are never written (a design is judged on its own, not on earlier calls)")
    ctx.trust("isinstance / `in` semantics; the shipped default_simulate.json provides the top-level keys")


F = "src/leaspy/algo/simulate/simulate.py"
VARIANTS = [
    V("precision-table-entry-wrong", "src/leaspy/algo/simulate/simulate.py", "            1: 0.1,  #", "            1: 0.5,  #", "C18.R2b"),
    V("duplicates-kept-after-rounding", "src/leaspy/algo/simulate/simulate.py", "        df_sim = df_sim[~df_sim.index.duplicated()]\n", "", "C18.R2b"),
    V("baseline-visit-only-if-follow-up", "src/leaspy/algo/simulate/simulate.py", "            age_visits = [time]\n", "            age_visits = []\n", "C18.R6"),
    V("visit-type-unchecked", F, """        if not isinstance(visit_parameters, dict) or "visit_type" not in visit_parameters:
            raise LeaspyAlgoInputError(
                "The `visit_parameters` should be a dictionary with a 'visit_type' key."
            )
""", "", "C18.R1"),
    V("no-continue-after-type-error", F, """                    f"Parameter '{param}': Expected type {type_names}, given {type(value).__name__}"
                )
                continue
""", """                    f"Parameter '{param}': Expected type {type_names}, given {type(value).__name__}"
                )
""", "C18.R1"),
    V("eager-dict-read", F, "        for param in known_parameters:\n            if param in dict_param:\n                self.param_study[param] = dict_param[param]",
      "        for param in known_parameters:\n            self.param_study[param] = dict_param[param]", "C18.R1"),
    V("rounding-none", F, "        rounding_precision = max(rounding_options)\n", "        rounding_precision = None\n", "C18.R2"),
    V("sample-before-check", "src/leaspy/algo/simulate/base.py", """        # Check the model before anything is drawn
        self._get_leaspy_model(model)

        # Simulate Individual Parameters Repeated Measures
        individual_parameters_from_model_parameters = (
            self._sample_individual_parameters_from_model_parameters(model)
        )
""", """        individual_parameters_from_model_parameters = (
            self._sample_individual_parameters_from_model_parameters(model)
        )
        self._get_leaspy_model(model)
""", "C18.R3"),
    V("mean-and-std", F, "            if self.param_study[\"distance_visit_mean\"] <= 0:", "            if self.param_study[\"distance_visit_mean\"] <= 0 and self.param_study[\"distance_visit_std\"] <= 0:", "C18.R4"),
    V("keyerror-refusal", F, "raise LeaspyAlgoInputError(\"Features can't be empty\")", "raise ValueError(\"Features can't be empty\")", "C18.R1"),
    V("constructor-draws", F, "        self._validate_algo_parameters()\n\n    def _check_features", "        self._validate_algo_parameters()\n        self._jitter = np.random.normal()\n\n    def _check_features", "C18.R3"),
    V("silent-rename-requirements", "src/leaspy/algo/simulate/simulate.py", "requirements", "reqs", None, count=8),
]
