"""C19 - temperature and proposal-scale schedules stay within their documented envelopes."""
from __future__ import annotations

import ast

from ..astq import Inliner, U, raised_class_name, statements, store_targets
from ..cfg import CFG, header_walk
from ..index import AnalysisError, walk_no_nested
from ..normalform import GuardUnsupported, eval_guard
from ..selftest import V

PROP = "C19"
LEVEL_TEXT = (
    "Static check of the annealing and proposal-scale schedules: (R1) attribute invariant of the plateau length: it is used as a modulo divisor, so every non-None "
    "assignment must be followed, on all normally exiting paths of the assigning method, by a guard that raises LeaspyAlgoInputError unless the value is >= 1 "
    "(guards evaluated with the value 0, -1, 1), and the use is guarded against None - hence every accepted configuration runs without ZeroDivisionError; "
    "(R2) write sites of the temperature: only the constructor (1.0), _initialize_annealing (initial value) and _update_temperature; the default branch only subtracts a "
    "decrement proven > 0 by a dominating raise and then applies max(., 1); every write is control-dependent on iteration % period == 0 and iteration <= annealing "
    "n_iter; temperature_inv = 1/temperature follows every write; without annealing both methods return before any write; (R3) proposal scales are multiplied only "
    "under counter % history_length == 0, `< lower` pairs with (1 - f) and `> upper` with (1 + f), f in (0,1) by the validating raise (both factors positive), and "
    "no other write to std exists after construction except the documented masked zeroing. NOT decided: 'exactly 1 at the end' (needs floor arithmetic), positivity of the window length."
)

ANN = "leaspy.algo.algo_with_annealing"
CLS = "AlgorithmWithAnnealingMixin"


def r1_divisor(ctx):
    ctx.rule("C19.R1", "modulo divisors held in attributes are >= 1 whenever they are not None", 2)
    ix = ctx.ix
    cls = ix.find_class(CLS)
    methods = [ix.funcs[(cls[0], f"{cls[1]}.{b.name}")] for b in ix.classes[cls].body if isinstance(b, ast.FunctionDef)]
    divisors = {}
    for f in methods:
        for x in ast.walk(f.node):
            if isinstance(x, ast.BinOp) and isinstance(x.op, (ast.Mod, ast.FloorDiv)) and isinstance(x.right, ast.Attribute) and U(x.right.value) == "self":
                divisors.setdefault(x.right.attr, []).append((f, x))
    if not divisors:
        return  # nothing to protect (the vacuity guard turns this into an analysis error unless another rule reports a violation)
    for attr, uses in divisors.items():
        full = f"self.{attr}"
        # use sites: None excluded ?
        for f, x in uses:
            cfg = CFG(f.node)
            n = cfg.node_containing(x)
            none_ok = False
            for r in cfg.nodes(lambda s: isinstance(s, ast.Return)):
                for h, lab in cfg.if_guards(r):
                    t = U(cfg.stmt[h].test)
                    if f"{full} is None" in t and lab and cfg.dominates(h, n):
                        none_ok = True
            ctx.check(none_ok, "C19.R1", f, x, f"`{full}` is not None here (early return)", f"`{full}` may be None when used as a divisor", construct=f"{U(x)} [None]")
        # assignment sites
        for f in methods:
            cfg = CFG(f.node)
            for n, st in cfg.stmt.items():
                if not isinstance(st, (ast.Assign, ast.AnnAssign, ast.AugAssign)):
                    continue
                if not any(U(t) == full for t in store_targets(st)):
                    continue
                v = st.value
                if v is None or (isinstance(v, ast.Constant) and v.value is None):
                    continue
                if isinstance(v, ast.Constant) and isinstance(v.value, (int, float)) and v.value >= 1:
                    ctx.ok("C19.R1", f, st, "constant >= 1", construct=full)
                    continue
                guards = []
                for r in cfg.nodes(lambda s: isinstance(s, ast.Raise)):
                    for h, lab in cfg.if_guards(r):
                        if full in U(cfg.stmt[h].test) and cfg.reachable(n, h):
                            guards.append((h, lab, r))
                good, refusing = False, []
                for h, lab, r in guards:
                    try:
                        refuses0 = bool(eval_guard(cfg.stmt[h].test, {full: 0})) == lab
                        refusesm = bool(eval_guard(cfg.stmt[h].test, {full: -1})) == lab
                        accepts1 = bool(eval_guard(cfg.stmt[h].test, {full: 1})) != lab
                    except GuardUnsupported:
                        continue
                    if refuses0 and refusesm and accepts1 and cfg.all_paths_pass(n, [h]) and raised_class_name(cfg.stmt[r]) == "LeaspyAlgoInputError":
                        good = True
                        refusing.append((h, lab, r))
                # the plateaus fit in the annealing iterations: period * (n_plateau - 1) <= n_iter for every accepted configuration, otherwise
                # fewer than n_plateau - 1 decrements happen and the temperature never reaches 1
                if good and attr == "_annealing_period":
                    NI, NP = "self.algo_parameters['annealing']['n_iter']", "self.algo_parameters['annealing']['n_plateau']"

                    def hook(c):
                        fn = U(c.func)
                        if fn in ("max", "min", "int", "round", "abs") and not c.keywords:
                            vs = [eval_guard(a, env, hook) for a in c.args]
                            return {"max": max, "min": min, "int": int, "round": round, "abs": abs}[fn](*vs) if fn in ("int", "round", "abs") else {"max": max, "min": min}[fn](vs)
                        return NotImplemented
                    late, undec = None, None
                    for N in range(1, 41):
                        for P in range(2, 14):
                            env = {NI: N, NP: P, NI.replace("'", '"'): N, NP.replace("'", '"'): P}
                            try:
                                per = eval_guard(Inliner(f.node).resolve(v), env, hook)
                                env[full] = per
                                refused = any(bool(eval_guard(cfg.stmt[h].test, env, hook)) == lab for h, lab, r in refusing)
                            except (GuardUnsupported, ZeroDivisionError, TypeError) as e:
                                undec = undec or f"{type(e).__name__}: {e}"
                                continue
                            if not refused and not (per >= 1 and per * (P - 1) <= N) and late is None:
                                late = (N, P, per)
                    if late:
                        N, P, per = late
                        ctx.violation("C19.R1", f, st, f"`{full}` = `{U(v)[:70]}`: the configuration annealing.n_iter={N}, n_plateau={P} is accepted with a plateau of {per} iteration(s), "
                                      f"but {P - 1} plateaus of that length need {per * (P - 1)} iterations: only {N // per} of the {P - 1} decrements happen and the temperature never reaches 1",
                                      construct=full + " [plateaus fit]")
                    elif undec:
                        ctx.unknown("C19.R1", f, st, f"cannot evaluate the plateau length `{U(v)[:60]}` ({undec})", construct=full + " [plateaus fit]")
                    else:
                        ctx.ok("C19.R1", f, st, "period * (n_plateau - 1) <= n_iter for every accepted (n_iter, n_plateau) in 1..40 x 2..13", construct=full + " [plateaus fit]")
                ctx.check(good, "C19.R1", f, st, f"followed on every path by a guard refusing `{full}` < 1 with LeaspyAlgoInputError",
                          f"`{full}` = `{U(v)[:70]}` can be 0 (e.g. fewer annealing iterations than plateaus) and is later used as a modulo divisor: ZeroDivisionError "
                          "instead of a refused configuration", construct=full)


def r2_temperature(ctx):
    ctx.rule("C19.R2", "temperature: write sites, monotone default update, floor at 1, plateau gating, inverse kept in sync", 8)
    ix = ctx.ix
    cls = ix.find_class(CLS)
    allowed = {"__init__", "_initialize_annealing", "_update_temperature"}
    # package-wide write sites of .temperature / .temperature_inv
    for f in ix.iter_funcs():
        for st in statements(f.node):
            for t in store_targets(st):
                if isinstance(t, ast.Attribute) and t.attr in ("temperature", "temperature_inv") and isinstance(st, (ast.Assign, ast.AugAssign, ast.AnnAssign)):
                    ok = f.cls == cls and f.name in allowed and U(t.value) == "self"
                    ctx.check(ok, "C19.R2", f, st, f"{t.attr} written by {f.name}", f"`{U(t)}` is written outside the annealing schedule ({sorted(allowed)})", construct=f"write of {t.attr} in {f.qual}")
    init = ix.func(ANN, f"{CLS}.__init__", "C19.R2")
    for st in statements(init.node):
        if isinstance(st, (ast.Assign, ast.AnnAssign)) and any(U(t) in ("self.temperature", "self.temperature_inv") for t in store_targets(st)):
            ctx.check(U(st.value) in ("1.0", "1"), "C19.R2", init, st, "starts at 1.0", f"initial value `{U(st.value)}` is not 1")
    upd = ix.func(ANN, f"{CLS}._update_temperature", "C19.R2")
    cfg = CFG(upd.node)
    # without annealing: early return dominates everything else
    first_ret = None
    for r in cfg.nodes(lambda s: isinstance(s, ast.Return)):
        for h, lab in cfg.if_guards(r):
            if "not self.annealing_on" in U(cfg.stmt[h].test) and lab:
                first_ret = h
    writes = [n for n, st in cfg.stmt.items() if isinstance(st, (ast.Assign, ast.AugAssign)) and any(U(t) == "self.temperature" for t in store_targets(st))]
    inv_writes = [n for n, st in cfg.stmt.items() if isinstance(st, (ast.Assign, ast.AugAssign)) and any(U(t) == "self.temperature_inv" for t in store_targets(st))]
    ctx.check(first_ret is not None and all(cfg.dominates(first_ret, w) for w in writes + inv_writes), "C19.R2", upd, cfg.stmt[first_ret] if first_ret is not None else upd.node,
              "no write without annealing (early return)", "the temperature can change although annealing is off", construct="annealing-off early return")
    for w in writes:
        st = cfg.stmt[w]
        gs = cfg.if_guards(w)
        tests = [(U(cfg.stmt[h].test), lab) for h, lab in gs]
        plateau = any("% self._annealing_period == 0" in t and lab for t, lab in tests)
        # a guard that holds exactly while iteration <= annealing.n_iter, whichever way it is written (evaluated at n_iter - 1, n_iter, n_iter + 1)
        def _bounded(h, lab):
            NI = "self.algo_parameters['annealing']['n_iter']"
            try:
                vals = [bool(eval_guard(cfg.stmt[h].test, {"self.current_iteration": k, NI: 10})) == lab for k in (9, 10, 11)]
            except (GuardUnsupported, TypeError):
                return False
            return vals == [True, True, False]
        bounded = any(_bounded(h, lab) for h, lab in gs)
        ctx.check(plateau, "C19.R2", upd, st, "changes only at plateau boundaries (iteration % period == 0)", "the temperature is written outside plateau boundaries", construct=U(st) + " [plateau]")
        ctx.check(bounded, "C19.R2", upd, st, "changes only while iteration <= annealing.n_iter", "the temperature keeps changing after the annealing iterations", construct=U(st) + " [bounded]")
        ctx.check(bool(inv_writes) and cfg.all_paths_pass(w, inv_writes), "C19.R2", upd, st, "temperature_inv recomputed after this write on every path",
                  "a path leaves temperature_inv out of sync with the temperature", construct=U(st) + " [inverse]")
    for iw in inv_writes:
        ctx.check(U(cfg.stmt[iw].value) in ("1.0 / self.temperature", "1 / self.temperature"), "C19.R2", upd, cfg.stmt[iw], "temperature_inv = 1/temperature",
                  f"temperature_inv = `{U(cfg.stmt[iw].value)}`")
    # default branch: -= decrement then max(., 1)
    osc = [h for h in cfg.nodes(lambda s: isinstance(s, ast.If)) if "oscillations" in U(cfg.stmt[h].test)]
    default_writes = [w for w in writes if not osc or any(h == osc[0] and lab is False for h, lab in cfg.if_guards(w))]
    if not default_writes:
        ctx.violation("C19.R2", upd, upd.node, "default (non-oscillating) temperature update not found", construct="default update")
    decs = [w for w in default_writes if isinstance(cfg.stmt[w], ast.AugAssign)]
    floors = [w for w in default_writes if isinstance(cfg.stmt[w], ast.Assign)]
    for w in decs:
        st = cfg.stmt[w]
        ok = isinstance(st.op, ast.Sub) and U(st.value) == "self._annealing_temperature_decrement"
        ctx.check(ok, "C19.R2", upd, st, "default update subtracts the plateau decrement", f"default update is `{U(st)}`: the temperature is not decreased by the plateau decrement")
        ctx.check(any(cfg.all_paths_pass(w, [fl]) for fl in floors), "C19.R2", upd, st, "followed by the floor max(., 1)", "decrement not followed by the floor at 1 on every path", construct=U(st) + " [floor]")
    for w in default_writes:
        st = cfg.stmt[w]
        if isinstance(st, ast.Assign):
            v = st.value
            ok = isinstance(v, ast.Call) and U(v.func) == "max" and {U(a) for a in v.args} in ({"self.temperature", "1"}, {"self.temperature", "1.0"})
            ctx.check(ok, "C19.R2", upd, st, "floor at 1", f"default branch assigns `{U(v)}`: the temperature may go below 1 or increase")
    if not decs:
        ctx.violation("C19.R2", upd, upd.node, "the default branch never decreases the temperature", construct="default decrement")
    # decrement > 0 and initial value in _initialize_annealing
    ini = ix.func(ANN, f"{CLS}._initialize_annealing", "C19.R2")
    icfg = CFG(ini.node)
    d_as = [n for n, st in icfg.stmt.items() if isinstance(st, ast.Assign) and U(st.targets[0]) == "self._annealing_temperature_decrement" and U(st.value) != "None"]
    ok = False
    for d in d_as:
        for r in icfg.nodes(lambda s: isinstance(s, ast.Raise)):
            for h, lab in icfg.if_guards(r):
                t = icfg.stmt[h].test
                if "self._annealing_temperature_decrement" in U(t) and icfg.all_paths_pass(d, [h]):
                    try:
                        if bool(eval_guard(t, {"self._annealing_temperature_decrement": 0.0})) == lab and bool(eval_guard(t, {"self._annealing_temperature_decrement": -1.0})) == lab \
                                and bool(eval_guard(t, {"self._annealing_temperature_decrement": 0.5})) != lab:
                            ok = True
                    except GuardUnsupported:
                        pass
    ctx.check(ok and bool(d_as), "C19.R2", ini, icfg.stmt[d_as[0]] if d_as else ini.node, "decrement proven > 0 by a raise that follows its assignment",
              "the plateau decrement is not guaranteed positive: the temperature could increase", construct="decrement > 0")
    # "exactly 1 once the annealing iterations are over": the decrements that happen within the annealing iterations (one per plateau
    # boundary i <= n_iter, i % period == 0 - both gates are checked above) add up to at least initial_temperature - 1
    p_as = [st for st in statements(ini.node) if isinstance(st, ast.Assign) and U(st.targets[0]) == "self._annealing_period" and U(st.value) != "None"]
    if len(d_as) == 1 and len(p_as) == 1:
        from fractions import Fraction
        A = "self.algo_parameters['annealing']"
        worst, undec = None, None

        def hook(c):
            fn = U(c.func)
            if fn in ("max", "min") and not c.keywords:
                return (max if fn == "max" else min)([eval_guard(a, env, hook) for a in c.args])
            if fn in ("int", "float", "abs", "round") and len(c.args) == 1:
                return {"int": int, "float": float, "abs": abs, "round": round}[fn](eval_guard(c.args[0], env, hook))
            return NotImplemented
        for N in range(1, 31):
            for P in range(2, 12):
                for T0 in (Fraction(3, 2), Fraction(2), Fraction(10)):
                    env = {f"{A}['n_iter']": N, f"{A}['n_plateau']": P, f"{A}['initial_temperature']": T0}
                    try:
                        per = eval_guard(Inliner(ini.node).resolve(p_as[0].value), env, hook)
                        if per < 1 or per * (P - 1) > N:
                            continue  # refused, or reported by C19.R1
                        dec = eval_guard(Inliner(ini.node).resolve(icfg.stmt[d_as[0]].value), env, hook)
                    except (GuardUnsupported, ZeroDivisionError, TypeError) as e:
                        undec = undec or f"{type(e).__name__}: {e}"
                        continue
                    if dec > 0 and (N // per) * dec < float(T0 - 1) - 1e-9 and worst is None:
                        worst = (N, P, T0, per, dec)
        if worst:
            N, P, T0, per, dec = worst
            ctx.violation("C19.R2", ini, icfg.stmt[d_as[0]], f"with annealing.n_iter={N}, n_plateau={P}, initial_temperature={float(T0)} the {N // per} decrements of {float(dec):.4g} that happen during the "
                          f"annealing iterations remove {float((N // per) * dec):.4g} < {float(T0 - 1):.4g}: the temperature is still above 1 once the annealing iterations are over",
                          construct="decrements add up to T0 - 1")
        elif undec:
            ctx.unknown("C19.R2", ini, icfg.stmt[d_as[0]], f"cannot evaluate the plateau decrement / length ({undec})", construct="decrements add up to T0 - 1")
        else:
            ctx.ok("C19.R2", ini, icfg.stmt[d_as[0]], "the decrements within the annealing iterations add up to at least initial_temperature - 1 (grid of n_iter x n_plateau x T0)",
                   construct="decrements add up to T0 - 1")
    t0 = [st for st in statements(ini.node) if isinstance(st, ast.Assign) and U(st.targets[0]) == "self.temperature"]
    ok = len(t0) == 1 and U(t0[0].value).replace('"', "'") == "self.algo_parameters['annealing']['initial_temperature']"
    ctx.check(ok, "C19.R2", ini, t0[0] if t0 else ini.node, "starts at the configured initial temperature", "the schedule does not start at annealing.initial_temperature", construct="initial temperature")
    # the inverse used by the samplers is in sync from the first iteration on
    i_inv = [n for n, st in icfg.stmt.items() if isinstance(st, (ast.Assign, ast.AugAssign)) and any(U(t) == "self.temperature_inv" for t in store_targets(st))]
    for s0 in t0:
        n0 = icfg.node_of(s0)
        ctx.check(bool(i_inv) and icfg.all_paths_pass(n0, i_inv), "C19.R2", ini, s0, "temperature_inv set after the initial temperature on every path",
                  "the initial temperature is set without its inverse: the samplers temper with temperature_inv = 1 during the first plateau", construct="initial inverse")
    for iw in i_inv:
        ctx.check(U(icfg.stmt[iw].value) in ("1.0 / self.temperature", "1 / self.temperature"), "C19.R2", ini, icfg.stmt[iw], "temperature_inv = 1/temperature",
                  f"temperature_inv = `{U(icfg.stmt[iw].value)}` at initialisation", construct="initial inverse value")
    off = [r for r in icfg.nodes(lambda s: isinstance(s, ast.Return)) if any("not self.annealing_on" in U(icfg.stmt[h].test) and lab for h, lab in icfg.if_guards(r))]
    ctx.check(bool(off) and all(icfg.dominates(icfg.if_guards(off[0])[0][0], icfg.node_of(s)) for s in t0), "C19.R2", ini, ini.node, "nothing initialised without annealing",
              "annealing-off configurations still change the temperature", construct="annealing-off early return (initialise)")


def r7_annealing_count_single_writer(ctx):
    """The number of annealing iterations is the configured one: a count given explicitly has priority over the fraction, and the only
    statement that derives it from the fraction is the constructor's, when no count was given."""
    from ..astq import Canon
    ctx.rule("C19.R7", "annealing.n_iter is written by the constructor only, and only when no count was configured (package-wide)", 1)
    n = 0
    for f in ctx.ix.iter_funcs():
        cfg = None
        for st in statements(f.node):
            hit = None
            if isinstance(st, (ast.Assign, ast.AugAssign)):
                for t in (st.targets if isinstance(st, ast.Assign) else [st.target]):
                    if isinstance(t, ast.Subscript) and isinstance(t.slice, ast.Constant) and t.slice.value == "n_iter" and "annealing" in U(t.value):
                        hit = t
            elif isinstance(st, ast.Expr) and isinstance(st.value, ast.Call) and isinstance(st.value.func, ast.Attribute) and "annealing" in U(st.value.func.value) \
                    and st.value.func.attr in ("update", "setdefault", "pop") and ("n_iter" in U(st.value)):
                hit = st.value
            if hit is None:
                continue
            n += 1
            in_ctor = f.mod == ANN and f.qual == f"{CLS}.__init__"
            if not in_ctor:
                ctx.violation("C19.R7", f, st, f"`{U(st)[:80]}` rewrites the number of annealing iterations outside the constructor: an explicitly configured `annealing.n_iter` is replaced, "
                              "so the plateau boundaries and the end of the annealing are not the configured ones (the temperature is not 1 when the configured annealing iterations are over)")
                continue
            cfg = cfg or CFG(f.node)
            nid = cfg.node_of(st)
            cn = Canon(f.node)
            guards = [(cn.text(cfg.stmt[h].test, True), lab) for h, lab in cfg.if_guards(nid)]
            import re as _re
            ok = any(_re.search(r"\['annealing'\](\['n_iter'\]|\.get\('n_iter'(, None)?\)) is None$", g) and lab for g, lab in guards)
            ctx.check(ok, "C19.R7", f, st, "derived from the fraction only when no count was given", "the constructor derives annealing.n_iter from the fraction even when a count was configured")
    if n == 0:
        ctx.unknown("C19.R7", (ANN, f"{CLS}.__init__"), None, "no statement writes annealing.n_iter any more", construct="writers of annealing.n_iter")


def r3b_rolling_window(ctx):
    """'change only at multiples of the acceptance-history length ... only for blocks whose mean acceptance rate left the band': the mean is
    taken over a window of exactly `acceptation_history_length` steps - each update drops the oldest row and appends the newest."""
    from ..astq import Inliner
    ctx.rule("C19.R3b", "acceptance history: rolling window of constant length (oldest row dropped, newest appended), for every window length >= 1", 2)
    f = ctx.ix.func("leaspy.samplers.base", "AbstractSampler._update_acceptation_rate", "C19.R3b")
    inl = Inliner(f.node)
    asg = [st for st in statements(f.node) if isinstance(st, ast.Assign) and U(st.targets[0]) == "self.acceptation_history"]
    if len(asg) != 1:
        ctx.unknown("C19.R3b", f, f.node, f"{len(asg)} assignments of the acceptance history (one expected)", construct="rolling window")
        return
    v = inl.resolve(asg[0].value)
    ok_shape = isinstance(v, ast.Call) and U(v.func) in ("torch.cat", "torch.concat", "torch.concatenate") and v.args and isinstance(v.args[0], (ast.List, ast.Tuple)) and len(v.args[0].elts) == 2
    if not ok_shape:
        ctx.unknown("C19.R3b", f, asg[0], f"`{U(v)[:80]}` is not `torch.cat([<kept rows>, <new row>])`", construct="rolling window")
        return
    kept, new = v.args[0].elts
    par = f.node.args.args[1].arg if len(f.node.args.args) > 1 else "accepted"
    ctx.check(U(new) in (f"{par}.unsqueeze(0)", f"{par}[None]", f"{par}[None, ...]"), "C19.R3b", f, asg[0], "the newest acceptance is appended as the last row", f"the appended row is `{U(new)[:50]}`, not the newest acceptance",
              construct="newest row appended")
    if not (isinstance(kept, ast.Subscript) and U(kept.value) == "self.acceptation_history" and isinstance(kept.slice, ast.Slice) and kept.slice.step is None):
        ctx.unknown("C19.R3b", f, asg[0], f"kept rows `{U(kept)[:60]}` are not a slice of the previous history", construct="rolling window")
        return
    bad, undec = None, None
    for Lw in range(1, 8):
        env = {"self.acceptation_history_length": Lw, "len(self.acceptation_history)": Lw, "self.acceptation_history.shape[0]": Lw}
        try:
            lo = eval_guard(inl.resolve(kept.slice.lower), env) if kept.slice.lower is not None else None
            hi = eval_guard(inl.resolve(kept.slice.upper), env) if kept.slice.upper is not None else None
        except (GuardUnsupported, TypeError, ZeroDivisionError) as e:
            undec = str(e)
            break
        got = list(range(Lw))[lo:hi]
        if got != list(range(1, Lw)) and bad is None:
            bad = (Lw, got)
    if undec is not None:
        ctx.unknown("C19.R3b", f, asg[0], f"cannot evaluate the bounds of `{U(kept)[:60]}` ({undec})", construct="rolling window")
    elif bad:
        ctx.violation("C19.R3b", f, asg[0], f"with acceptation_history_length = {bad[0]} the rows kept by `{U(kept)[:60]}` are {bad[1]} (positions in the old window) instead of {list(range(1, bad[0]))}: "
                      "the window does not keep its length, so the mean acceptance rate is taken over another number of steps than configured", construct="rolling window")
    else:
        ctx.ok("C19.R3b", f, asg[0], "rows 1 .. L-1 of the old window are kept, for every window length L = 1 .. 7", construct="rolling window")


def r3_std(ctx, rid="C19.R3", title=None):
    ctx.rule(rid, title or "proposal scale: gated by the history length, (1-f) below the band, (1+f) above, f in (0,1); no other writer", 6)
    ix = ctx.ix
    G = "leaspy.samplers.gibbs"
    upd = ix.func(G, "GibbsSamplerMixin._update_std", rid)
    cfg = CFG(upd.node)
    inl = Inliner(upd.node)
    writes = [(n, st) for n, st in cfg.stmt.items() if isinstance(st, (ast.Assign, ast.AugAssign)) and any(U(t).startswith("self.std") for t in store_targets(st))]
    if len(writes) < 2:
        ctx.violation(rid, upd, upd.node, "the adaptive scale update no longer rescales both sides of the band", construct="def _update_std")
    for n, st in writes:
        gs = [(U(cfg.stmt[h].test), lab) for h, lab in cfg.if_guards(n)]
        gated = any(t == "self._counter % self.acceptation_history_length == 0" and lab for t, lab in gs)
        ctx.check(gated, rid, upd, st, "only when counter % acceptation_history_length == 0", "proposal scale changes outside multiples of the acceptance-history length", construct=U(st) + " [gate]")
        if not isinstance(st, ast.AugAssign) or not isinstance(st.op, ast.Mult):
            ctx.violation(rid, upd, st, "proposal scale is not rescaled multiplicatively")
            continue
        idx = st.target.slice if isinstance(st.target, ast.Subscript) else None
        mask = inl.text(idx) if idx is not None else ""
        fac = U(st.value)
        # the band test, read with the rate on the left whichever way it is written (`rate < lower` == `lower > rate`)
        side = None
        try:
            me = ast.parse(mask, mode="eval").body if mask else None
        except SyntaxError:
            me = None
        if isinstance(me, ast.Compare) and len(me.ops) == 1:
            l_, r_ = U(me.left), U(me.comparators[0])
            op = type(me.ops[0])
            if "acceptation_history" in r_ and "acceptation_history" not in l_:
                l_, r_ = r_, l_
                op = {ast.Lt: ast.Gt, ast.Gt: ast.Lt, ast.LtE: ast.GtE, ast.GtE: ast.LtE}.get(op, op)
            if "acceptation_history" in l_:
                if op in (ast.Lt, ast.LtE) and "lower_bound" in r_:
                    side = "below"
                elif op in (ast.Gt, ast.GtE) and "upper_bound" in r_:
                    side = "above"
        if side == "below":
            ctx.check(fac in ("1 - self._adaptive_std_factor", "1.0 - self._adaptive_std_factor"), rid, upd, st, "rate below the band -> scale * (1 - f)",
                      f"blocks whose acceptance rate is below the band are multiplied by `{fac}` (documented: 1 - factor)")
        elif side == "above":
            ctx.check(fac in ("1 + self._adaptive_std_factor", "1.0 + self._adaptive_std_factor"), rid, upd, st, "rate above the band -> scale * (1 + f)",
                      f"blocks whose acceptance rate is above the band are multiplied by `{fac}` (documented: 1 + factor)")
        else:
            ctx.violation(rid, upd, st, f"scale rescaled for `{mask[:80]}`: not a block whose mean acceptance rate left the target band")
        ctx.check("self.acceptation_history.mean(dim=0)" in mask, rid, upd, st, "band test on the mean acceptance over the window", "band test is not on the mean acceptance rate over the history window",
                  construct=U(st) + " [mean rate]")
    cnt = [st for st in statements(upd.node) if isinstance(st, ast.AugAssign) and U(st.target) == "self._counter"]
    ctx.check(len(cnt) == 1 and isinstance(cnt[0].op, ast.Add) and U(cnt[0].value) == "1" and cfg.all_paths_pass(cfg.entry, [cfg.node_of(cnt[0])]), rid, upd, cnt[0] if cnt else upd.node,
              "counter incremented once per call", "the call counter is not incremented exactly once per call")
    # factor in (0,1)
    sf = ix.func(G, "GibbsSamplerMixin._set_adaptive_std_factor", rid)
    scfg = CFG(sf.node)
    p = [a.arg for a in sf.node.args.args][1]
    ok = False
    for r in scfg.nodes(lambda s: isinstance(s, ast.Raise)):
        for h, lab in scfg.if_guards(r):
            try:
                vals = {v: bool(eval_guard(scfg.stmt[h].test, {p: v})) == lab for v in (-0.5, 0.0, 0.1, 0.5, 0.999, 1.0, 2.0)}
            except GuardUnsupported:
                continue
            if all(vals[v] == (not (0 < v < 1)) for v in vals):
                asg = [n for n, st in scfg.stmt.items() if isinstance(st, ast.Assign) and U(st.targets[0]) == "self._adaptive_std_factor"]
                if asg and all(scfg.dominates(h, a) for a in asg) and all(U(scfg.stmt[a].value) == p for a in asg):
                    ok = True
    ctx.check(ok, rid, sf, sf.node, "factor refused outside (0,1): both multipliers positive", "the adaptive factor is not restricted to (0,1): a multiplier could be <= 0 (scale not positive)",
              construct="factor in (0,1)")
    # the bounds validation: 0 < lower < upper < 1
    # other writers of .std in the samplers package
    for f in ix.iter_funcs():
        if not f.mod.startswith("leaspy.samplers") and not f.mod.startswith("leaspy.algo"):
            continue
        for st in statements(f.node):
            if isinstance(st, (ast.Assign, ast.AugAssign)):
                for t in store_targets(st):
                    root = t.value if isinstance(t, ast.Subscript) else t
                    if isinstance(root, ast.Attribute) and root.attr == "std" and U(root.value) in ("self", "sampler"):
                        if f.key == upd.key:
                            continue
                        if f.name == "__init__" and f.mod == G:
                            zeroing = isinstance(t, ast.Subscript) and U(st.value) == "0" and "mask" in U(t.slice)
                            initial = isinstance(t, ast.Attribute)
                            ctx.check(zeroing or initial, rid, f, st, "construction-time write (initial scale / documented masked zeroing)", "unexpected write of the proposal scale in a constructor")
                        else:
                            ctx.violation(rid, f, st, "the proposal scale is written outside _update_std and construction")
        # ... also through a local view of it (`x = self.std[idx]; x /= ...` divides the scale itself whenever the indexing returns a view) or an in-place method
        if f.key == upd.key or (f.name == "__init__" and f.mod == G):
            continue
        VIEW_METHODS = {"view", "reshape", "squeeze", "unsqueeze", "expand", "expand_as", "t", "detach", "flatten", "narrow", "select", "transpose", "permute", "view_as", "numpy"}

        def is_std_view(e, aliases):
            while True:
                if isinstance(e, ast.Subscript):
                    e = e.value
                elif isinstance(e, ast.Call) and isinstance(e.func, ast.Attribute) and e.func.attr in VIEW_METHODS:
                    e = e.func.value
                elif isinstance(e, ast.Attribute) and e.attr in ("T", "data", "mT"):
                    e = e.value
                else:
                    break
            return (isinstance(e, ast.Attribute) and e.attr == "std" and U(e.value) in ("self", "sampler")) or (isinstance(e, ast.Name) and e.id in aliases)
        aliases = set()
        for _ in range(3):
            for st in statements(f.node):
                if isinstance(st, ast.Assign) and len(st.targets) == 1 and isinstance(st.targets[0], ast.Name) and is_std_view(st.value, aliases):
                    aliases.add(st.targets[0].id)
        for st in statements(f.node):
            hit = None
            if isinstance(st, ast.AugAssign):
                tb = st.target
                if (isinstance(tb, ast.Name) and tb.id in aliases) or (isinstance(tb, ast.Subscript) and isinstance(tb.value, ast.Name) and tb.value.id in aliases):
                    hit = st
            if isinstance(st, ast.Assign):
                for t in st.targets:
                    if isinstance(t, ast.Subscript) and isinstance(t.value, ast.Name) and t.value.id in aliases:
                        hit = st
            for c in header_walk(st):
                if isinstance(c, ast.Call) and isinstance(c.func, ast.Attribute) and c.func.attr.endswith("_") and not c.func.attr.endswith("__") and is_std_view(c.func.value, aliases) \
                        and not (isinstance(c.func.value, ast.Name) and c.func.value.id not in aliases):
                    hit = st
            if hit is not None:
                ctx.violation(rid, f, hit, f"`{U(hit)[:80]}` modifies in place a view of the proposal scale (`{sorted(aliases)[0] if aliases else 'self.std'}` is `self.std[...]`, which shares its memory whenever "
                              "the index is empty or a slice): the scale changes outside `_update_std`, by a factor unrelated to the configured one", construct=f"in-place write through a view of std in {f.qual}")


def r8_each_kind_its_own_tuning(ctx):
    """'by exactly the configured factor ... left the target band': population and individual samplers are built from their *own* settings -
    `sampler_pop` + `sampler_pop_params` and `sampler_ind` + `sampler_ind_params` - so that the window length, the target band and the
    adaptive factor configured for one kind are the ones it runs with."""
    ctx.rule("C19.R8", "population / individual samplers are built with their own sampler name and tuning dictionary", 2)
    M = "leaspy.algo.algo_with_samplers"
    for fname, kind in (("_initialize_individual_samplers", "ind"), ("_initialize_population_samplers", "pop")):
        f = ctx.ix.func(M, f"AlgorithmWithSamplersMixin.{fname}", "C19.R8")
        ctx.analysed(f)
        calls = [c for c in ast.walk(f.node) if isinstance(c, ast.Call) and U(c.func).split(".")[-1] == "sampler_factory"]
        if len(calls) != 1:
            ctx.unknown("C19.R8", f, f.node, f"{len(calls)} sampler_factory call(s) in {fname} (1 confirmed)", construct=f"{kind}: own tuning")
            continue
        c = calls[0]

        def keys_of(e, depth=0):
            """settings keys read by `e` through self.algo_parameters, following local names (also tuple-unpacked ones)"""
            out = set()
            for n in ast.walk(e):
                if isinstance(n, ast.Subscript) and U(n.value) == "self.algo_parameters" and isinstance(n.slice, ast.Constant):
                    out.add(n.slice.value)
                if isinstance(n, ast.Call) and isinstance(n.func, ast.Attribute) and n.func.attr == "get" and U(n.func.value) == "self.algo_parameters" and n.args and isinstance(n.args[0], ast.Constant):
                    out.add(n.args[0].value)
                if isinstance(n, ast.Name) and depth < 3:
                    for st in statements(f.node):
                        if isinstance(st, ast.Assign) and len(st.targets) == 1:
                            t = st.targets[0]
                            if isinstance(t, ast.Name) and t.id == n.id:
                                out |= keys_of(st.value, depth + 1)
                            elif isinstance(t, ast.Tuple) and isinstance(st.value, ast.Tuple) and len(t.elts) == len(st.value.elts):
                                for te, ve in zip(t.elts, st.value.elts):
                                    if isinstance(te, ast.Name) and te.id == n.id:
                                        out |= keys_of(ve, depth + 1)
            return out
        name_keys = keys_of(c.args[0]) if c.args else set()
        tune = [k.value for k in c.keywords if k.arg is None]
        tune_keys = set().union(*[keys_of(v) for v in tune]) if tune else set()
        tune_keys = {k for k in tune_keys if k.endswith("_params")}
        ctx.check(name_keys == {f"sampler_{kind}"}, "C19.R8", f, c, f"{kind}: sampler taken from `sampler_{kind}`",
                  f"the {kind} samplers are chosen from {sorted(name_keys)} instead of `sampler_{kind}`", construct=f"{kind}: own sampler name")
        ctx.check(tune_keys == {f"sampler_{kind}_params"}, "C19.R8", f, c, f"{kind}: tuning taken from `sampler_{kind}_params`",
                  f"the {'population' if kind == 'pop' else 'individual'} samplers are tuned with {sorted(tune_keys)} instead of `sampler_{kind}_params`: their proposal scales adapt with another window "
                  "length, band and factor than the configured ones", construct=f"{kind}: own tuning")


def r5_temperature_updated_every_iteration(ctx):
    """'exactly 1 once the annealing iterations are over': the schedule advances by one step per iteration of the algorithm - the update is
    on every path through an iteration (no `continue` / early exit before it)."""
    ctx.rule("C19.R5", "the temperature update runs on every path through an iteration", 2)
    n = 0
    for f in ctx.ix.iter_funcs():
        if not f.mod.startswith("leaspy.algo"):
            continue
        calls = [c for c in ast.walk(f.node) if isinstance(c, ast.Call) and U(c.func) == "self._update_temperature"]
        if not calls or f.name == "_update_temperature":
            continue
        cfg = CFG(f.node)
        for c in calls:
            n += 1
            cn = cfg.node_containing(c)
            loops = [l for l in ast.walk(f.node) if isinstance(l, (ast.For, ast.While)) and any(x is c for b in l.body for x in ast.walk(b))]
            if not loops:
                # one call per invocation of the function (the caller loops): every normal path of the function passes it
                ok = cn is not None and cfg.all_paths_pass(cfg.entry, [cn])
                ctx.check(ok, "C19.R5", f, c, "the update is on every normal path of the per-iteration function", "a path through the per-iteration function returns without updating the temperature: "
                          "the schedule falls behind the iteration count and the temperature is still above 1 when annealing should be over")
                continue
            lp = min(loops, key=lambda l: (l.end_lineno or 0) - l.lineno)  # innermost loop containing the call
            hn = cfg.node_of(lp)
            first = cfg.node_of(lp.body[0]) if lp.body else None
            ok = cn is not None and hn is not None and first is not None and cfg.all_paths_pass(first, [cn], end=hn)
            ctx.check(ok, "C19.R5", f, c, "every path through the loop body passes the update before the next iteration",
                      "some path through the iteration (`continue` / branch) reaches the next iteration without updating the temperature: plateau decrements are skipped, so the "
                      "temperature is still above 1 when the annealing iterations are over")
    if n == 0:
        raise AnalysisError("C19.R5", "anchor vanished: calls of self._update_temperature()")


def r4_configuration_reaches_object(ctx):
    """'by exactly the configured factor', 'the configured temperature schedule': a constructor parameter that is accepted and then neither
    used nor handed to the base constructor is silently replaced by the base's default."""
    ctx.rule("C19.R4", "every constructor parameter of the samplers / annealing / sampler-owning algorithms is used or forwarded (no configured value silently replaced by a default)", 8)
    ix = ctx.ix
    n = 0
    for f in ix.iter_funcs():
        if f.name != "__init__" or f.cls is None or not (f.mod.startswith("leaspy.samplers") or f.mod.startswith("leaspy.algo")):
            continue
        a = f.node.args
        ps = [p.arg for p in a.posonlyargs + a.args + a.kwonlyargs][1:]
        if not ps:
            continue
        used = {x.id for x in ast.walk(f.node) if isinstance(x, ast.Name) and isinstance(x.ctx, ast.Load)}
        unused = [p for p in ps if p not in used]
        n += 1
        ctx.check(not unused, "C19.R4", f, f.node, f"parameters {ps} are all read", f"constructor parameter(s) {unused} are accepted but never used nor forwarded: the configured value is dropped "
                  "and the base class's default applies", construct=f"{f.qual} parameters")
        # forwarding keeps the value: super().__init__(p=<expression of p>)
        for c in ast.walk(f.node):
            if isinstance(c, ast.Call) and isinstance(c.func, ast.Attribute) and c.func.attr == "__init__" and isinstance(c.func.value, ast.Call) and U(c.func.value.func) == "super":
                for k in c.keywords:
                    if k.arg in ps and not any(isinstance(x, ast.Name) and x.id == k.arg for x in ast.walk(k.value)):
                        ctx.violation("C19.R4", f, k.value, f"`{k.arg}={U(k.value)[:40]}` is handed to the base constructor instead of the configured `{k.arg}`", construct=f"{f.qual} forwards {k.arg}")
    # the attributes the adaptation reads are the ones the constructor stored from the parameters of the same name
    g = ix.func("leaspy.samplers.gibbs", "GibbsSamplerMixin._set_adaptive_std_factor", "C19.R4")
    from ..astq import Canon
    gl = Canon(g.node).lines(True, True)
    ctx.check("$0._adaptive_std_factor = $1" in gl, "C19.R4", g, g.node, "the adaptation factor stored is the configured one", "the adaptation factor stored is not the configured value", construct="factor stored")
    init = ix.func("leaspy.samplers.gibbs", "GibbsSamplerMixin.__init__", "C19.R4")
    il = " ".join(Canon(init.node).lines(True, True))
    pm = Canon(init.node).pmap
    ok = f"$0._set_adaptive_std_factor({pm.get('adaptive_std_factor')})" in il
    ctx.check(ok, "C19.R4", init, init.node, "the mixin validates and stores the configured factor", "the mixin no longer stores the configured adaptation factor", construct="factor handed to the setter")


def rules(ctx):
    r1_divisor(ctx)
    r2_temperature(ctx)
    r3_std(ctx)
    r3b_rolling_window(ctx)
    r7_annealing_count_single_writer(ctx)
    r4_configuration_reaches_object(ctx)
    r5_temperature_updated_every_iteration(ctx)
    r8_each_kind_its_own_tuning(ctx)
    # the annealing counts an algorithm derives (annealing.n_iter from its fraction, the plateau length) stay in its own copy of the parameters (same rule as C11.R7)
    from .c11 import r7_deepcopy
    r7_deepcopy(ctx, rid="C19.R6")
    ctx.assume("acceptation_history_length is a positive integer (documented precondition)")
    ctx.trust("Python int floor-division / modulo semantics")


A = "src/leaspy/algo/algo_with_annealing.py"
GF = "src/leaspy/samplers/gibbs.py"
VARIANTS = [
    V("silent-period-through-a-local", "src/leaspy/algo/algo_with_annealing.py", "        self._annealing_period = self.algo_parameters[\"annealing\"][\"n_iter\"] // (\n            self.algo_parameters[\"annealing\"][\"n_plateau\"] - 1\n        )\n",
      "        n_steps = self.algo_parameters[\"annealing\"][\"n_plateau\"] - 1\n        self._annealing_period = self.algo_parameters[\"annealing\"][\"n_iter\"] // n_steps\n", None),
    V("plateau-clamped-to-one", "src/leaspy/algo/algo_with_annealing.py", "        self._annealing_period = self.algo_parameters[\"annealing\"][\"n_iter\"] // (\n            self.algo_parameters[\"annealing\"][\"n_plateau\"] - 1\n        )\n",
      "        self._annealing_period = max(1, self.algo_parameters[\"annealing\"][\"n_iter\"] // (\n            self.algo_parameters[\"annealing\"][\"n_plateau\"] - 1\n        ))\n", "C19.R1"),
    V("period-unguarded", A, """        if self._annealing_period < 1:
            raise LeaspyAlgoInputError(
                "Your `annealing.n_iter` should be at least `annealing.n_plateau` - 1, "
                "so that every temperature plateau lasts at least one iteration."
            )
""", "", "C19.R1"),
    V("period-guard-too-weak", A, "        if self._annealing_period < 1:\n", "        if self._annealing_period < 0:\n", "C19.R1"),
    V("no-floor", A, "                    self.temperature = max(self.temperature, 1)\n", "", "C19.R2"),
    V("temperature-increases", A, "self.temperature -= self._annealing_temperature_decrement", "self.temperature += self._annealing_temperature_decrement", "C19.R2"),
    V("update-every-iteration", A, "            if self.current_iteration % self._annealing_period == 0:\n", "            if True:\n", "C19.R2"),
    V("inverse-stale", A, "                self.temperature_inv = 1.0 / self.temperature\n", "", "C19.R2"),
    V("decrement-may-be-negative", A, "        if self._annealing_temperature_decrement <= 0:\n", "        if self._annealing_temperature_decrement < -1:\n", "C19.R2"),
    V("temperature-written-elsewhere", "src/leaspy/algo/fit/mcmc_saem.py", "        self._maximization_step(model, state)\n", "        self._maximization_step(model, state)\n        self.temperature = self.temperature * 0.99\n", "C19.R2"),
    V("std-ungated", GF, "        if self._counter % self.acceptation_history_length == 0:\n", "        if True:\n", "C19.R3"),
    V("std-factors-swapped", GF, "self.std[idx_toolow] *= 1 - self._adaptive_std_factor", "self.std[idx_toolow] *= 1 + self._adaptive_std_factor", "C19.R3"),
    V("factor-range-open", GF, "        if not (0 < adaptive_std_factor < 1):", "        if not (0 < adaptive_std_factor <= 2):", "C19.R3"),
    V("silent-guard-le-zero", A, "        if self._annealing_period < 1:\n", "        if self._annealing_period <= 0:\n", None),
    V("silent-rename-idx", "src/leaspy/samplers/gibbs.py", "idx_toolow", "low", None, count=2),
]
