"""C05 - sufficient statistics follow the stochastic-approximation schedule."""
from __future__ import annotations

import ast
import json
import os

import sympy as sp

from ..astq import Inliner, U, kwarg, raised_class_name, statements, store_targets
from ..cfg import CFG, header_walk
from ..index import AnalysisError, walk_no_nested
from ..normalform import (GuardUnsupported, NFUnsupported, Normalizer, equal, eval_guard, numeric_constants, sym, sym_exec)
from ..selftest import V

PROP = "C05"
LEVEL_TEXT = (
    "Static check of the stochastic-approximation schedule: (R1) the guard selecting the memory-less branch of _maximization_step, with _is_burn_in inlined, "
    "is evaluated over the finite set of orderings of d = iteration - n_burn_in (all d in [-12,12], the guard only compares d with small literals): memory-less "
    "exactly for d <= 1; (R2) the averaged value has normal form (1-e)*S_prev + e*s_new with e = (iteration - n_burn_in)**(-power), taken over the items of the "
    "previous statistics and keyed identically; (R3) the constructor raises LeaspyAlgoInputError exactly outside 0.5 < power <= 1 and the shipped default lies inside; "
    "(R4) n_burn_in_iter = int(frac * n_iter) only when no explicit count is given, both None raises. NOT decided: nothing numerical (floating point of ** and *)."
)

FIT = "leaspy.algo.fit.mcmc_saem"
SAMP = "leaspy.algo.algo_with_samplers"
K = "self.current_iteration"
N = "self.algo_parameters['n_burn_in_iter']"
P = "self.algo_parameters['burn_in_step_power']"


def _burn_in_expr(ctx):
    f = ctx.ix.func(SAMP, "AlgorithmWithSamplersMixin._is_burn_in", "C05.R1")
    rets = [s for s in statements(f.node) if isinstance(s, ast.Return)]
    if len(rets) != 1 or rets[0].value is None:
        raise AnalysisError("C05.R1", "_is_burn_in is not a single return expression")
    return f, rets[0]


class _OtherSetting(Exception):
    pass


def _subst_setting_locals(fnode):
    """copy of the function in which a local bound once to a plain settings lookup (`n = self.algo_parameters['n_burn_in_iter']`) is read as
    that lookup (the binding is dropped): the rules below recognise the configured values by their lookup"""
    import copy as _copy
    fn = _copy.deepcopy(fnode)
    defs = {}
    for st in statements(fn):
        for t in store_targets(st):
            if isinstance(t, ast.Name):
                defs.setdefault(t.id, []).append(st)
    subst = {}
    for name, ds in defs.items():
        d = ds[0]
        if len(ds) == 1 and isinstance(d, ast.Assign) and len(d.targets) == 1 and isinstance(d.targets[0], ast.Name) and isinstance(d.value, ast.Subscript) \
                and U(d.value.value) == "self.algo_parameters" and isinstance(d.value.slice, ast.Constant):
            subst[name] = d

    class S(ast.NodeTransformer):
        def visit_Name(self, n):
            if isinstance(n.ctx, ast.Load) and n.id in subst:
                return ast.copy_location(_copy.deepcopy(subst[n.id].value), n)
            return n

    def prune(holder):
        for field in ("body", "orelse", "finalbody"):
            body = getattr(holder, field, None)
            if isinstance(body, list):
                kept = [b for b in body if b not in subst.values()]
                body[:] = kept or [ast.copy_location(ast.Pass(), body[0])] if body else body
                for b in body:
                    prune(b)
    if subst:
        prune(fn)
        S().visit(fn)
        ast.fix_missing_locations(fn)
    return fn


def r1_phase(ctx):
    ctx.rule("C05.R1", "memory-less branch taken exactly when iteration - n_burn_in <= 1; _is_burn_in exactly when <= 0", 2)
    bf, bret = _burn_in_expr(ctx)
    f = ctx.ix.func(FIT, "TensorMcmcSaemAlgorithm._maximization_step", "C05.R1")
    fnode = _subst_setting_locals(f.node)
    cfg = CFG(fnode)
    # the If whose one branch assigns self.sufficient_statistics = <fresh statistics>
    fresh = None
    for st in statements(fnode):
        if isinstance(st, ast.Assign) and isinstance(st.value, ast.Call) and isinstance(st.value.func, ast.Attribute) and st.value.func.attr == "compute_sufficient_statistics":
            fresh = U(st.targets[0])
    if fresh is None:
        raise AnalysisError("C05.R1", "anchor vanished: `sufficient_statistics = model.compute_sufficient_statistics(state)`")
    guard = None
    for st in statements(fnode):
        if isinstance(st, ast.If):
            body_assign = [b for b in st.body if isinstance(b, ast.Assign) and U(b.targets[0]) == "self.sufficient_statistics" and U(b.value) == fresh]
            else_assign = [b for b in st.orelse if isinstance(b, ast.Assign) and U(b.targets[0]) == "self.sufficient_statistics" and U(b.value) == fresh]
            if body_assign:
                guard = (st, True)
            elif else_assign:
                guard = (st, False)
    if guard is None:
        ctx.violation("C05.R1", f, f.node, "no branch re-initialises the statistics in force with the current iteration's statistics (memory-less phase)", construct="def _maximization_step")
        return
    st, pol = guard
    consts = numeric_constants(st.test) + numeric_constants(bret.value)
    if any(c >= 10 for c in consts):
        ctx.unknown("C05.R1", f, st, f"guard compares with a literal >= 10 ({consts}): the finite enumeration of orderings does not cover it")
        return

    def burn(k, n):
        return eval_guard(bret.value, {K: k, N: n})

    bad = []
    bad_b = []
    try:
        for n in (0, 1, 7, 40):
            for d in range(-12, 13):
                k = n + d
                if k < 0:
                    continue

                def hook(c, k=k, n=n):
                    if U(c) == "self._is_burn_in()":
                        return burn(k, n)
                    return NotImplemented
                memless = eval_guard(st.test, {K: k, N: n}, hook)
                if not pol:
                    memless = not memless
                if bool(memless) != (d <= 1):
                    bad.append((k, n))
                if bool(burn(k, n)) != (d <= 0):
                    bad_b.append((k, n))
    except GuardUnsupported as e:
        what = str(e)
        try:
            node_ = ast.parse(what, mode="eval").body
        except SyntaxError:
            node_ = None
        if isinstance(node_, (ast.Name, ast.Attribute, ast.Subscript, ast.Call)) and any(U(x) == what for x in ast.walk(bret.value)) and not any(U(x) == what for x in ast.walk(st.test)):
            ctx.violation("C05.R1", bf, bret, f"_is_burn_in() reads `{what}` while the first-iteration-with-memory test and the step size read `{N}`: two copies of the burn-in length that can "
                          "disagree (e.g. after load_parameters), so iterations the schedule counts as 'with memory' stay memory-less")
            ctx.ok("C05.R1", f, st, "(not decided: _is_burn_in reads another source)", construct="memory-less guard (skipped)")
        elif isinstance(node_, (ast.Name, ast.Attribute, ast.Subscript, ast.Call)) and any(U(x) == what for x in ast.walk(st.test)):
            # a run-time quantity other than the iteration counter and the burn-in length takes part in the decision
            ctx.violation("C05.R1", f, st, f"the memory-less decision also depends on `{what}`, which is neither the iteration number nor the burn-in length: "
                          "the statistics do not follow the stochastic-approximation schedule whenever it flips the test")
            ctx.ok("C05.R1", bf, bret, "(not decided: the guard above is outside the schedule)", construct="_is_burn_in exact (skipped)")
        else:
            ctx.unknown("C05.R1", f, st, f"guard outside the supported subset: {e}")
        return
    ctx.check(not bad, "C05.R1", f, st, "memory-less exactly for iteration - n_burn_in <= 1 (50 orderings x 4 burn-in lengths)",
              f"memory-less branch taken for (iteration, n_burn_in) in {bad[:4]}... : expected exactly when iteration - n_burn_in <= 1")
    ctx.check(not bad_b, "C05.R1", bf, bret, "_is_burn_in() exactly for iteration <= n_burn_in",
              f"_is_burn_in() wrong for (iteration, n_burn_in) in {bad_b[:4]}: expected iteration <= n_burn_in")


def r2_convex(ctx):
    ctx.rule("C05.R2", "S_k = (1 - e_k) S_(k-1) + e_k s_k with e_k = (k - n_burn_in)^(-power)", 3)
    f = ctx.ix.func(FIT, "TensorMcmcSaemAlgorithm._maximization_step", "C05.R2")
    fnode = _subst_setting_locals(f.node)
    comp = None
    branch = None
    for st in statements(fnode):
        if isinstance(st, ast.If):
            for body in (st.body, st.orelse):
                for b in body:
                    if isinstance(b, ast.Assign) and U(b.targets[0]) == "self.sufficient_statistics" and isinstance(b.value, ast.DictComp):
                        comp, branch = b, body
    if comp is None:
        # the averaged update may live in a helper method the step hands its statistics and step size to: read it with the arguments bound
        import copy as _copy
        for st in statements(fnode):
            if not isinstance(st, ast.If):
                continue
            for body in (st.body, st.orelse):
                for b in body:
                    c = b.value if isinstance(b, ast.Expr) else None
                    if not (isinstance(c, ast.Call) and isinstance(c.func, ast.Attribute) and U(c.func.value) == "self"):
                        continue
                    hm = ctx.ix.method((f.mod, f.cls[1]) if isinstance(f.cls, tuple) else (f.mod, f.qual.split(".")[0]), c.func.attr)
                    if hm is None:
                        continue
                    hs = [x for x in statements(hm.node) if isinstance(x, ast.Assign) and U(x.targets[0]) == "self.sufficient_statistics" and isinstance(x.value, ast.DictComp)]
                    if len(hs) != 1:
                        continue
                    params = [a.arg for a in hm.node.args.args][1:]
                    bound = dict(zip(params, c.args))
                    bound.update({k.arg: k.value for k in c.keywords if k.arg})

                    class _B(ast.NodeTransformer):
                        def visit_Name(self, n):
                            return _copy.deepcopy(bound[n.id]) if n.id in bound and isinstance(n.ctx, ast.Load) else n
                    new = _B().visit(_copy.deepcopy(hs[0]))
                    ast.copy_location(new, b)
                    ast.fix_missing_locations(new)
                    body[body.index(b)] = new
                    comp, branch = new, body
                    ctx.analysed(hm)
    if comp is None:
        calls_ = [U(b.value.func) for st in statements(fnode) if isinstance(st, ast.If) for body in (st.body, st.orelse) for b in body if isinstance(b, ast.Expr) and isinstance(b.value, ast.Call)]
        if calls_:
            ctx.unknown("C05.R2", f, f.node, f"the averaged update is not in _maximization_step and was not found in the helper(s) it calls ({calls_[:3]})", construct="def _maximization_step")
        else:
            ctx.violation("C05.R2", f, f.node, "no averaged update `self.sufficient_statistics = {k: ... for k, v in self.sufficient_statistics.items()}`", construct="def _maximization_step")
        return
    dc = comp.value
    gen = dc.generators[0]
    it_ok = U(gen.iter) == "self.sufficient_statistics.items()" and isinstance(gen.target, ast.Tuple) and len(gen.target.elts) == 2 and not gen.ifs and len(dc.generators) == 1
    ctx.check(it_ok, "C05.R2", f, dc, "iterates over every entry of the previous statistics", "the averaged update does not range over all items of the previous statistics")
    if not it_ok:
        return
    kvar, vvar = U(gen.target.elts[0]), U(gen.target.elts[1])
    ctx.check(U(dc.key) == kvar, "C05.R2", f, dc.key, "same key", "averaged statistics are stored under another key", construct="key of averaged entry")
    fresh = None
    for st in statements(fnode):
        if isinstance(st, ast.Assign) and isinstance(st.value, ast.Call) and isinstance(st.value.func, ast.Attribute) and st.value.func.attr == "compute_sufficient_statistics":
            fresh = U(st.targets[0])
    kk, nn, pp = sp.symbols("k n p", positive=True)
    Sprev, snew = sp.symbols("S_prev s_new", real=True)

    class Nz(Normalizer):
        def tosym(self, e):
            t = U(e)
            if t == K:
                return kk
            if t == N:
                return nn
            if t == P:
                return pp
            if t == f"{fresh}[{kvar}]":
                return snew
            if t == vvar:
                return Sprev
            # a configured value read under another key (or with a fallback that hides a missing key) is not the configured schedule
            lookup = e.func.value if (isinstance(e, ast.Call) and isinstance(e.func, ast.Attribute) and e.func.attr == "get" and e.args) else (e.value if isinstance(e, ast.Subscript) else None)
            if lookup is not None and U(lookup) == "self.algo_parameters":
                key = e.args[0] if isinstance(e, ast.Call) else e.slice
                raise _OtherSetting(f"`{t[:70]}`" + (f" (key {U(key)})" if isinstance(key, ast.Constant) else ""))
            return super().tosym(e)

    nz = Nz({})
    try:
        before = branch[: branch.index(comp)]
        sym_exec(before, nz)
        val_exprs = [dc.value]
        # the entry may be computed by a helper method of the class: `self._helper(v, new[k], step)` - every return of the helper, with
        # its parameters replaced by the arguments, is an averaged value (weights / wrappers are C06's business: `.value` and
        # `type(x)(E)` are transparent here)
        if isinstance(dc.value, ast.Call) and isinstance(dc.value.func, ast.Attribute) and U(dc.value.func.value) in ("self", "cls", "type(self)") and f.cls is not None:
            hm = ctx.ix.method(f.cls, dc.value.func.attr)
            if hm is not None:
                hp = [p_.arg for p_ in hm.node.args.args]
                if hm.kind in ("method", "class") and hp:
                    hp = hp[1:]
                binding = dict(zip(hp, dc.value.args))
                binding.update({k_.arg: k_.value for k_ in dc.value.keywords if k_.arg})

                class _Subst(ast.NodeTransformer):
                    def visit_Name(self, n):
                        return binding.get(n.id, n) if isinstance(n.ctx, ast.Load) else n

                    def visit_Attribute(self, n):
                        self.generic_visit(n)
                        return n.value if n.attr in ("value", "weighted_value") else n

                    def visit_Call(self, n):
                        self.generic_visit(n)
                        if isinstance(n.func, ast.Call) and U(n.func.func) == "type" and len(n.args) >= 1:
                            return n.args[0]
                        if U(n.func) == "WeightedTensor" and n.args:
                            return n.args[0]
                        return n
                import copy as _copy
                rets_ = [r_ for r_ in statements(hm.node) if isinstance(r_, ast.Return) and r_.value is not None]
                val_exprs = [_Subst().visit(_copy.deepcopy(r_.value)) for r_ in rets_]
                if not val_exprs:
                    raise NFUnsupported(f"helper {hm.qual} returns nothing")
        gots = [nz.tosym(v_) for v_ in val_exprs]
        got = gots[0]
    except _OtherSetting as e:
        ctx.violation("C05.R2", f, comp, f"the step size is computed from {e}: not the configured `n_burn_in_iter` / `burn_in_step_power` - the statistics are averaged with another step size than "
                      "(k - n_burn_in) ** -burn_in_step_power whenever that value differs", construct="step size settings")
        return
    except NFUnsupported as e:
        ctx.unknown("C05.R2", f, comp, f"averaging expression outside the supported subset: {e}")
        return
    # the combination is written so that an infinite statistic stays infinite: the new and the previous statistic are never subtracted from
    # one another (`v + e * (s - v)` is the same number for finite values, and inf - inf = NaN otherwise)
    for v_ in val_exprs:
        for x in ast.walk(v_):
            if isinstance(x, ast.BinOp) and isinstance(x.op, ast.Sub):
                sides = [{U(n_) for n_ in ast.walk(sd) if isinstance(n_, (ast.Name, ast.Subscript))} for sd in (x.left, x.right)]
                has_new = [any(t_ == f"{fresh}[{kvar}]" for t_ in sd) for sd in sides]
                has_prev = [vvar in sd for sd in sides]
                if (has_new[0] and has_prev[1]) or (has_new[1] and has_prev[0]):
                    ctx.violation("C05.R2", f, comp, f"`{U(x)[:60]}` subtracts the previous statistic from the new one (incremental form): equal to the convex combination for finite values, but an "
                                  "infinite statistic (inf - inf) becomes NaN instead of staying infinite as the schedule gives", construct="inf-preserving form")
    e_ref = (kk - nn) ** (-pp)
    ref = (1 - e_ref) * Sprev + e_ref * snew
    for extra_ in gots[1:]:
        if not equal(extra_, ref):
            got = extra_
    extra = got.free_symbols - {kk, nn, pp, Sprev, snew}
    if extra:
        ctx.violation("C05.R2", f, comp, f"averaged value depends on {sorted(map(str, extra))}")
        return
    ctx.check(equal(got, ref), "C05.R2", f, comp, "normal form (1-e) S_prev + e s_new, e = (k - n_burn_in)^(-power)",
              f"averaged value is {sp.simplify(got)}; documented {ref}")


def r3_validation(ctx):
    ctx.rule("C05.R3", "step power outside (0.5, 1] refused with LeaspyAlgoInputError; default inside", 2)
    f = ctx.ix.func(FIT, "TensorMcmcSaemAlgorithm.__init__", "C05.R3")
    cfg = CFG(f.node)
    raises = cfg.nodes(lambda s: isinstance(s, ast.Raise))
    found = False
    for rn in raises:
        gs = cfg.if_guards(rn)
        for h, lab in gs:
            t = cfg.stmt[h].test
            if P.replace("'", '"') in U(t).replace("'", '"') or P in U(t):
                found = True
                bad = []
                try:
                    for p in (-1.0, 0.0, 0.25, 0.4999, 0.5, 0.5001, 0.75, 0.9999, 1.0, 1.0001, 2.0, 50.0):
                        refused = bool(eval_guard(t, {P: p}))
                        if not lab:
                            refused = not refused
                        if refused != (not (0.5 < p <= 1)):
                            bad.append(p)
                except GuardUnsupported as e:
                    ctx.unknown("C05.R3", f, cfg.stmt[h], f"guard outside the supported subset: {e}")
                    continue
                cls = raised_class_name(cfg.stmt[rn])
                ctx.check(not bad and cls == "LeaspyAlgoInputError", "C05.R3", f, cfg.stmt[h], "raises LeaspyAlgoInputError exactly outside (0.5, 1]",
                          f"step power {bad} wrongly {'accepted/refused'}" if bad else f"refusal raises {cls}, not LeaspyAlgoInputError")
                # the refusal must come after super().__init__ set algo_parameters, and on every path
                ctx.check(cfg.all_paths_pass(cfg.entry, [h]), "C05.R3", f, cfg.stmt[h], "validation on every constructor path", "a constructor path skips the validation", construct="validation on every path")
    if not found:
        ctx.violation("C05.R3", f, f.node, "the constructor no longer validates burn_in_step_power", construct="def __init__")
    path = os.path.join(ctx.ix.src_root, "leaspy", "algo", "data", "default_mcmc_saem.json")
    try:
        d = json.load(open(path))["parameters"]
    except Exception as e:
        raise AnalysisError("C05.R3", f"cannot read the shipped defaults {path}: {e}")
    p = d.get("burn_in_step_power")
    ctx.check(isinstance(p, (int, float)) and 0.5 < p <= 1, "C05.R3", ("leaspy.algo.settings", "default_mcmc_saem.json"), None, f"default step power {p} in (0.5, 1]",
              f"shipped default burn_in_step_power={p} is refused by the constructor", construct="default burn_in_step_power")
    fr, cnt = d.get("n_burn_in_iter_frac"), d.get("n_burn_in_iter")
    ctx.check((fr is not None and 0 <= fr <= 1) or cnt is not None, "C05.R3", ("leaspy.algo.settings", "default_mcmc_saem.json"), None, f"default burn-in fraction {fr}",
              "shipped defaults give neither a burn-in fraction in [0,1] nor a count", construct="default n_burn_in_iter_frac")


def r4_length(ctx):
    ctx.rule("C05.R4", "n_burn_in_iter = int(frac * n_iter) iff no explicit count; both None raises", 2)
    f = ctx.ix.func(SAMP, "AlgorithmWithSamplersMixin.__init__", "C05.R4")
    cfg = CFG(f.node)
    inl = Inliner(f.node)
    asg = [n for n in cfg.nodes(lambda s: isinstance(s, ast.Assign) and U(s.targets[0]).replace('"', "'") == N)]
    if not asg:
        ctx.violation("C05.R4", f, f.node, "the burn-in length is never derived from the fraction", construct="def __init__")
        return
    for an in asg:
        st = cfg.stmt[an]
        v = inl.resolve(st.value)
        txt = U(v).replace('"', "'")
        want = {"int(self.algo_parameters['n_burn_in_iter_frac'] * self.algo_parameters['n_iter'])", "int(self.algo_parameters['n_iter'] * self.algo_parameters['n_burn_in_iter_frac'])"}
        ctx.check(txt in want, "C05.R4", f, st, "int(frac * n_iter)", f"burn-in length computed as `{txt}`, not int(n_burn_in_iter_frac * n_iter)")
        gs = cfg.if_guards(an)
        none_guard = False
        for h, lab in gs:
            t = U(cfg.stmt[h].test).replace('"', "'")
            if lab and t in ("self.algo_parameters.get('n_burn_in_iter', None) is None", "self.algo_parameters.get('n_burn_in_iter') is None", "self.algo_parameters['n_burn_in_iter'] is None"):
                none_guard = True
        ctx.check(none_guard, "C05.R4", f, st, "only when the explicit count is None", "an explicit burn-in count is overwritten by the fraction", construct="guard of the fraction-based length")
        # both None raises before
        rs = [r for r in cfg.nodes(lambda s: isinstance(s, ast.Raise)) if cfg.reachable(r, cfg.raise_exit)]
        ok = False
        for r in rs:
            for h, lab in cfg.if_guards(r):
                t = inl.text(cfg.stmt[h].test).replace('"', "'")
                if lab and t == "self.algo_parameters['n_burn_in_iter_frac'] is None" and raised_class_name(cfg.stmt[r]) == "LeaspyAlgoInputError" and cfg.dominates(h, an):
                    ok = True
        ctx.check(ok, "C05.R4", f, st, "fraction None (and count None) refused before", "a None fraction reaches the multiplication", construct="both-None refusal")


def r4b_single_writer(ctx):
    """The burn-in length read by the phase test is the configured one: the only statement allowed to write the `n_burn_in_iter` entry of
    an algorithm's parameters is the (guarded) derivation in AlgorithmWithSamplersMixin.__init__ checked by R4."""
    ctx.rule("C05.R4b", "the `n_burn_in_iter` entry is written by the guarded derivation of the constructor only (package-wide)", 1)
    KEY = "n_burn_in_iter"
    n = 0
    for f in ctx.ix.iter_funcs():
        for st in statements(f.node):
            hit = None
            if isinstance(st, (ast.Assign, ast.AugAssign, ast.AnnAssign)):
                for t in (st.targets if isinstance(st, ast.Assign) else [st.target]):
                    for x in ast.walk(t):
                        if isinstance(x, ast.Subscript) and isinstance(x.slice, ast.Constant) and x.slice.value == KEY and "algo_parameters" in U(x.value):
                            hit = x
            elif isinstance(st, ast.Expr) and isinstance(st.value, ast.Call) and isinstance(st.value.func, ast.Attribute) and "algo_parameters" in U(st.value.func.value):
                c = st.value
                if c.func.attr in ("setdefault", "pop", "__setitem__") and c.args and isinstance(c.args[0], ast.Constant) and c.args[0].value == KEY:
                    hit = c
                if c.func.attr == "update" and (any(k.arg == KEY for k in c.keywords) or any(isinstance(a, ast.Dict) and any(isinstance(k, ast.Constant) and k.value == KEY for k in a.keys) for a in c.args)):
                    hit = c
            if hit is None:
                continue
            n += 1
            ok = f.mod == SAMP and f.qual == "AlgorithmWithSamplersMixin.__init__"
            ctx.check(ok, "C05.R4b", f, st, "the constructor's derivation (its guard is checked by C05.R4)",
                      f"`{U(st)[:90]}` rewrites the burn-in length outside the constructor: an explicitly configured `n_burn_in_iter` (or the one the run started with) is replaced, "
                      "so the memory-less phase and the offset of the step sizes are not the configured ones")
    if n == 0:
        ctx.violation("C05.R4b", (SAMP, "AlgorithmWithSamplersMixin.__init__"), None, "no statement derives `n_burn_in_iter` any more", construct="writers of n_burn_in_iter")
    # the derived length stays in the algorithm's own copy of the parameters: nothing writes the caller's settings (a derived count written
    # there would be read as an explicit one - which has priority over the fraction - the next time the settings are used)
    import re as _re
    SETTINGS = _re.compile(r"(^|[._])(algorithm_)?settings\.parameters$")
    for f in ctx.ix.iter_funcs():
        if f.mod == "leaspy.algo.settings" or not f.mod.startswith("leaspy.algo"):
            continue
        for st in statements(f.node):
            tgt = None
            if isinstance(st, (ast.Assign, ast.AugAssign)):
                for t in (st.targets if isinstance(st, ast.Assign) else [st.target]):
                    base = t.value if isinstance(t, ast.Subscript) else t
                    if SETTINGS.search(U(base)):
                        tgt = t
            elif isinstance(st, ast.Expr) and isinstance(st.value, ast.Call) and isinstance(st.value.func, ast.Attribute) and st.value.func.attr in ("update", "setdefault", "pop", "clear", "__setitem__") \
                    and SETTINGS.search(U(st.value.func.value)):
                tgt = st.value
            if tgt is not None:
                ctx.violation("C05.R4b", f, st, f"`{U(st)[:80]}` writes the caller's settings: a burn-in length derived from the fraction for this run becomes an explicit `n_burn_in_iter` "
                              "for the next algorithm built from the same settings (and then has priority over the fraction)", construct="settings written back")


def r6_iteration_counter(ctx):
    """The schedule is indexed by the iteration number k = 1 .. n_iter: the counter the phase test and the step size read is driven by the
    loop `for self.current_iteration in range(1, n_iter + 1)` (one maximisation step per pass) and by nothing else."""
    from ..astq import canon_lines
    ctx.rule("C05.R6", "the iteration counter runs 1 .. n_iter, one iteration per value, and has no other writer", 3)
    ix = ctx.ix
    run = ix.func(FIT, "TensorMcmcSaemAlgorithm._run", "C05.R6")
    L = canon_lines(run.node, True, True)
    loops = [i for i, ln in enumerate(L) if ln.startswith("for (") and ln.endswith(", $0.current_iteration)")]
    if len(loops) != 1:
        ctx.unknown("C05.R6", run, run.node, f"{len(loops)} loop(s) drive the iteration counter in the fit (one expected)", construct="fit loop")
    else:
        hdr = L[loops[0]]
        ok = hdr == "for (range(1, $0.algo_parameters['n_iter'] + 1), $0.current_iteration)"
        import re as _re
        m = _re.fullmatch(r"for \(range\((?P<args>.*)\), \$0\.current_iteration\)", hdr)
        if ok:
            ctx.ok("C05.R6", run, run.node, "k = 1 .. n_iter", construct="fit loop")
        elif m:
            ctx.violation("C05.R6", run, run.node, f"the fit iterates over `range({m.group('args')})`, not `range(1, n_iter + 1)`: the phase boundary and the step sizes are evaluated at shifted iteration numbers "
                          "(or the last iterations are missing)", construct="fit loop")
        else:
            ctx.unknown("C05.R6", run, run.node, f"iteration loop `{hdr[:80]}` is not a range", construct="fit loop")
        nxt = L[loops[0] + 1] if loops[0] + 1 < len(L) else ""
        ctx.check(_re.fullmatch(r"\$0\._iteration\(\$1, %\d+\)", nxt) is not None, "C05.R6", run, run.node, "one `_iteration` per value of the counter",
                  f"the first statement of the loop is `{nxt[:60]}`, not the iteration itself", construct="one iteration per pass")
    # other writers of the counter (package-wide): constructors (= 0) and loop headers only
    for f in ix.iter_funcs():
        for st in statements(f.node):
            if isinstance(st, (ast.Assign, ast.AugAssign, ast.AnnAssign)):
                for t in (st.targets if isinstance(st, ast.Assign) else [st.target]):
                    if isinstance(t, ast.Attribute) and t.attr == "current_iteration":
                        ok = f.name == "__init__" and isinstance(st, (ast.Assign, ast.AnnAssign)) and st.value is not None and U(st.value) == "0"
                        ctx.check(ok, "C05.R6", f, st, "constructor sets the counter to 0", f"`{U(st)[:60]}` writes the iteration counter outside the iteration loop: the schedule is read at a wrong iteration number")


def r5_statistics_not_rewritten(ctx):
    """After a memory-less step `self.sufficient_statistics` IS the dictionary returned by compute_sufficient_statistics, whose entries
    are the State's own tensors: an in-place operation on a value read from the State rewrites S_(k-1) before it enters the convex
    combination of the next iteration."""
    from ._shared import inplace_on_state_values
    ctx.rule("C05.R5", "the statistics in force are never rewritten through an alias: no in-place operation on a tensor read from a State", 8)
    sites, holders = inplace_on_state_values(ctx)
    for fn, node, desc in sites:
        ctx.violation("C05.R5", fn, node, desc + ": the stored statistics S_(k-1) hold the same tensor, so the next averaged value is not (1-e) S_(k-1) + e s_k")
    for fn, names in holders:
        ctx.ok("C05.R5", fn, fn.node, f"locals aliasing State values {names}: never modified in place", construct=f"def {fn.name}")


def r8_step_runs_every_iteration(ctx, rid="C05.R8", why="the statistics in force stay S_(k-1) for that iteration instead of (1 - e_k) S_(k-1) + e_k s_k (and, in the memory-less phase, instead of s_k, "
                                 "which depends on the parameters updated at the previous iteration)"):
    """'at every iteration k': the averaging is part of every iteration - `_iteration` calls `_maximization_step` on every path, under no
    condition (an iteration whose proposals were all rejected still has its statistics s_k, computed with the current parameters)."""
    ctx.rule(rid, "every iteration runs the maximization step (statistics and parameters are updated at every k)", 1)
    f = ctx.ix.func(FIT, "TensorMcmcSaemAlgorithm._iteration", rid)
    ctx.analysed(f)
    cfg = CFG(f.node)
    calls = [n for n, st in cfg.stmt.items() if st is not None and any(isinstance(c, ast.Call) and U(c.func) == "self._maximization_step" for c in header_walk(st))]
    if not calls:
        ctx.violation(rid, f, f.node, "`_iteration` no longer calls `_maximization_step`: " + why, construct="maximization step at every iteration")
        return
    guarded = [(cfg.stmt[h], lab) for n in calls for h, lab in cfg.if_guards(n)]
    ok = cfg.all_paths_pass(cfg.entry, calls) and not guarded
    ctx.check(ok, rid, f, cfg.stmt[calls[0]], "`self._maximization_step(model, state)` on every path through an iteration",
              (f"the maximization step only runs when `{U(guarded[0][0].test)[:80]}`: " if guarded else "a path through `_iteration` skips the maximization step: ") + why,
              construct="maximization step at every iteration")


def rules(ctx):
    r1_phase(ctx)
    r2_convex(ctx)
    r3_validation(ctx)
    r4_length(ctx)
    r4b_single_writer(ctx)
    r6_iteration_counter(ctx)
    r8_step_runs_every_iteration(ctx)
    # the burn-in length an algorithm derives stays in its own copy of the parameters (same rule as C11.R7)
    from .c11 import r7_deepcopy
    r7_deepcopy(ctx, rid="C05.R7")
    r5_statistics_not_rewritten(ctx)
    ctx.trust("Python int comparison / arithmetic semantics for the enumerated guards; sympy expand")


FITF = "src/leaspy/algo/fit/mcmc_saem.py"
SF = "src/leaspy/algo/algo_with_samplers.py"
VARIANTS = [
    V("iterations-start-at-two", "src/leaspy/algo/fit/mcmc_saem.py", "for self.current_iteration in range(1, self.algo_parameters[\"n_iter\"] + 1):", "for self.current_iteration in range(2, self.algo_parameters[\"n_iter\"] + 1):", "C05.R6"),
    V("memoryless-while-tempered", "src/leaspy/algo/fit/mcmc_saem.py", "== 1 + self.algo_parameters[\"n_burn_in_iter\"]\n", "== 1 + self.algo_parameters[\"n_burn_in_iter\"]\n            or self.temperature_inv < 1.0\n", "C05.R1"),
    V("burnin-strict", SF, "return self.current_iteration <= self.algo_parameters[\"n_burn_in_iter\"]", "return self.current_iteration < self.algo_parameters[\"n_burn_in_iter\"]", "C05.R1"),
    V("no-first-iteration-reset", FITF, "        if (\n            self._is_burn_in()\n            or self.current_iteration == 1 + self.algo_parameters[\"n_burn_in_iter\"]\n        ):", "        if self._is_burn_in():", "C05.R1"),
    V("reset-one-late", FITF, "self.current_iteration == 1 + self.algo_parameters[\"n_burn_in_iter\"]", "self.current_iteration <= 2 + self.algo_parameters[\"n_burn_in_iter\"]", "C05.R1"),
    V("exponent-sign", FITF, "burn_in_step **= -self.algo_parameters[\"burn_in_step_power\"]", "burn_in_step **= self.algo_parameters[\"burn_in_step_power\"]", "C05.R2"),
    V("step-from-iteration", FITF, "            burn_in_step = (\n                self.current_iteration - self.algo_parameters[\"n_burn_in_iter\"]\n            )", "            burn_in_step = self.current_iteration", "C05.R2"),
    V("not-convex", FITF, "k: v * (1.0 - burn_in_step) + burn_in_step * sufficient_statistics[k]", "k: v + burn_in_step * sufficient_statistics[k]", "C05.R2"),
    V("power-interval-open", FITF, "if not (0.5 < self.algo_parameters[\"burn_in_step_power\"] <= 1):", "if not (0.5 <= self.algo_parameters[\"burn_in_step_power\"] <= 1):", "C05.R3"),
    V("frac-overrides-count", SF, "        if self.algo_parameters.get(\"n_burn_in_iter\", None) is None:", "        if n_burn_in_iter_frac is not None:", "C05.R4"),
    # equal over the finite reals, and for a long time a 'silent' variant of this catalogue - until seeded change C05l showed what the comment in
    # the source says: with an infinite statistic the incremental form gives inf - inf = NaN where the schedule gives inf
    V("robbins-monro-form-loses-infinite-statistics", FITF, "k: v * (1.0 - burn_in_step) + burn_in_step * sufficient_statistics[k]", "k: v + burn_in_step * (sufficient_statistics[k] - v)", "C05.R2"),
    V("silent-convex-form-reordered", FITF, "k: v * (1.0 - burn_in_step) + burn_in_step * sufficient_statistics[k]", "k: burn_in_step * sufficient_statistics[k] + (1.0 - burn_in_step) * v", None),
    V("silent-guard-rewritten", FITF, "self.current_iteration == 1 + self.algo_parameters[\"n_burn_in_iter\"]", "self.current_iteration - self.algo_parameters[\"n_burn_in_iter\"] == 1", None),
    V("silent-step-temporary", "src/leaspy/algo/fit/mcmc_saem.py", "            burn_in_step **= -self.algo_parameters[\"burn_in_step_power\"]\n", "            power = self.algo_parameters[\"burn_in_step_power\"]\n            burn_in_step = burn_in_step ** (-power)\n", None),
]
