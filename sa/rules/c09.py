"""C09 - individual trajectories follow the documented closed form (partial: formula shapes, range, monotonicity, layout)."""
from __future__ import annotations

import ast

import sympy as sp

from ..astq import Inliner, U, kwarg, statements
from ..cfg import CFG, header_walk
from ..index import AnalysisError, walk_no_nested
from ..interp import Ext, FuncRef
from ..normalform import F, NFUnsupported, Normalizer, SymEval, equal, sym
from ..selftest import V

PROP = "C09"
LEVEL_TEXT = (
    "Static formula check of the trajectories, per shipped configuration: (R1) rt depends exactly on {t, alpha, tau}, alpha = exp(xi), and the normal form of "
    "time_reparametrization is alpha*(t - tau); (R2) logit normal forms (sympy): logistic metric*(v0*rt + w) - log g with metric = (g+1)^2/g, shared-speed "
    "metric*w + rt + delta~ - log g, linear value g + v0*rt + w; the no-source variants are the same forms with w = 0; g, v0 (and the other positive quantities) "
    "are exponentials of their log-parameters in the extracted graph; (R3) range: logistic-family outputs are weight * sigmoid(.) (in [0,1] for 0/1 weights) and "
    "the value at rt = 0, w = 0 is sigmoid(-log g) = 1/(1+g) (sigmoid identity trusted); (R4) monotone in age: the coefficient of t in the logit is a product of "
    "quantities proven positive (exponentials, (g+1)^2/g with g > 0) - decided with sympy's sign assumptions, no solving; (R5) trajectories are computed on a clone "
    "of the state fed with the requested ages and individual parameters; (R6) estimate returns one entry per requested individual, rows in the requested order: "
    "the dictionary path iterates the request, the MultiIndex path joins de-duplicated estimations back onto the requested index. NOT decided: rounding, "
    "extrapolation accuracy, pandas join semantics."
)


def _model_fn(ctx, g):
    """(FuncRef of the model function of the configuration, with_sources?)"""
    from ..specgraph import nif_chain
    chain = nif_chain(g.interp, g.nodes["model"].var.attrs["f"])
    base = chain[0][0]
    if not isinstance(base, FuncRef):
        raise AnalysisError("C09.R2", f"{g.cfg.name}: model is not defined by a repository function")
    return base


def _exp_of(g, name):
    """name of the variable X such that node `name` = exp(X) (None otherwise)."""
    from ..specgraph import nif_chain
    n = g.nodes.get(name)
    if n is None or n.kind != "LinkedVariable":
        return None
    ch = nif_chain(g.interp, n.var.attrs["f"])
    b = ch[0][0]
    from ..interp import Native, Closure
    if len(ch) == 1 and len(n.parents) == 1:
        if isinstance(b, Native) and b.name == "exp":
            return n.parents[0]
        if isinstance(b, Closure) and b.node.name == "f_compatible" and isinstance(b.env.get("f"), Ext) and b.env["f"].name == "torch.exp":
            return n.parents[0]
    return None


def r1_rt(ctx):
    from ..specgraph import graphs

    ctx.rule("C09.R1", "rt = alpha * (t - tau), alpha = exp(xi)", 9)
    a, t, tau = sp.symbols("alpha t tau", real=True)
    seen = set()
    for g in graphs(ctx):
        rt = g.nodes.get("rt")
        where = (g.model.cls[0], g.model.cls[1])
        if rt is None:
            ctx.violation("C09.R1", where, None, f"{g.cfg.name}: no reparametrised time `rt`", construct="rt", instance=g.cfg.name)
            continue
        ctx.check(set(rt.parents) == {"t", "alpha", "tau"}, "C09.R1", where, None, f"{g.cfg.name}: rt depends on (t, alpha, tau)", f"{g.cfg.name}: rt depends on {rt.parents}", construct="parents of rt", instance=g.cfg.name)
        ctx.check(_exp_of(g, "alpha") == "xi", "C09.R1", where, None, f"{g.cfg.name}: alpha = exp(xi)", f"{g.cfg.name}: alpha is not exp(xi)", construct="alpha", instance=g.cfg.name)
        from ..specgraph import nif_chain
        base = nif_chain(g.interp, rt.var.attrs["f"])[0][0]
        if isinstance(base, FuncRef) and base.func.key not in seen:
            seen.add(base.func.key)
            f = base.func
            try:
                got = SymEval(ctx.ix, f.cls).call(f, [], {"t": t, "alpha": a, "tau": tau})
                ctx.check(equal(got, a * (t - tau)), "C09.R1", f, f.node, "normal form alpha*(t - tau)", f"time reparametrisation is {got}; documented alpha*(t - tau)")
            except NFUnsupported as e:
                ctx.unknown("C09.R1", f, f.node, f"outside the supported subset: {e}")


def _logit_and_wrapper(ctx, f, cls, env):
    """Symbolic value of a model function: returns (kind, logit/value expr). kind in {'sigmoid','linear'}."""
    ev = SymEval(ctx.ix, cls)
    node = f.node
    inl = Inliner(node)
    rets = [s for s in statements(node) if isinstance(s, ast.Return)]
    if len(rets) != 1:
        raise NFUnsupported("not a single return")
    rv = rets[0].value
    # delegation:  cls.model_with_sources(..., space_shifts=torch.zeros(...))
    if isinstance(rv, ast.Call) and isinstance(rv.func, ast.Attribute) and U(rv.func.value) in ("cls", "self"):
        m = ctx.ix.method(cls, rv.func.attr)
        kws = {}
        for k in rv.keywords:
            v = k.value
            if isinstance(v, ast.Call) and U(v.func) == "torch.zeros":
                kws[k.arg] = sp.Integer(0)
            elif isinstance(v, ast.Name) and v.id in env:
                kws[k.arg] = env[v.id]
            else:
                raise NFUnsupported(f"delegation argument {U(v)}")
        return _logit_and_wrapper(ctx, m, cls, kws)
    r = inl.resolve(rv)
    txt = U(r)
    # WeightedTensor(torch.sigmoid(<logit filled>), weights).weighted_value
    if isinstance(r, ast.Attribute) and r.attr == "weighted_value" and isinstance(r.value, ast.Call) and U(r.value.func) == "WeightedTensor":
        inner = r.value.args[0]
        if isinstance(inner, ast.Call) and U(inner.func) == "torch.sigmoid":
            # model_logit comes from `model_logit, weights = WeightedTensor.get_filled_value_and_weight(w_model_logit, fill_value=0.)`
            arg = inner.args[0]
            src = None
            for st in statements(node):
                if isinstance(st, ast.Assign) and isinstance(st.targets[0], ast.Tuple) and U(st.targets[0].elts[0]) == U(arg) and isinstance(st.value, ast.Call) \
                        and U(st.value.func) == "WeightedTensor.get_filled_value_and_weight":
                    src = st.value.args[0]
                    wvar = U(st.targets[0].elts[1])
            if src is None:
                raise NFUnsupported("sigmoid argument is not the filled logit")
            if len(r.value.args) < 2 or U(r.value.args[1]) != wvar:
                return "sigmoid-unweighted", _expr(ctx, node, inl.resolve(src), env)
            return "sigmoid", _expr(ctx, node, inl.resolve(src), env)
        raise NFUnsupported("weighted value of something else than a sigmoid")
    if isinstance(r, ast.Attribute) and r.attr == "weighted_value":
        return "linear", _expr(ctx, node, r.value, env)
    raise NFUnsupported(f"unrecognised return `{txt[:60]}`")


def _expr(ctx, node, e, env):
    # rt = unsqueeze_right(rt, ndim=1) re-binds a parameter: shape-only (transparent), handled by Normalizer
    class N(Normalizer):
        def tosym(self, x):
            if isinstance(x, ast.Name) and x.id in env:
                return env[x.id]
            return super().tosym(x)
    # drop self-referential re-bindings like rt = unsqueeze_right(rt, ...)
    return N({})(e)


def r2_forms(ctx):
    from ..specgraph import graphs

    ctx.rule("C09.R2", "logit / value normal forms of the three trajectory families", 9)
    rt, w, metric, v0, g_, log_g, dp = sp.symbols("rt w metric v0 g log_g deltas_padded", real=True)
    seen = {}
    for g in graphs(ctx):
        base = _model_fn(ctx, g)
        f = base.func
        cls = g.model.cls
        key = (f.key, cls)
        kw = {p.arg for p in f.node.args.kwonlyargs}
        env = {"rt": rt, "space_shifts": w, "metric": metric, "v0": v0, "g": g_, "log_g": log_g, "deltas_padded": dp}
        env = {k: v for k, v in env.items() if k in kw}
        with_src = "space_shifts" in kw
        try:
            if key not in seen:
                seen[key] = _logit_and_wrapper(ctx, f, cls, env)
            kind, got = seen[key]
        except NFUnsupported as e:
            ctx.unknown("C09.R2", f, f.node, f"{g.cfg.name}: model function outside the supported subset: {e}", instance=g.cfg.name)
            continue
        W = w if with_src else 0
        if g.cfg.kind in ("logistic", "joint", "mixture_logistic"):
            ref, want_kind = metric * (v0 * rt + W) - F["log"](g_), "sigmoid"
        elif g.cfg.kind == "shared_speed_logistic":
            ref, want_kind = metric * W + rt + dp - log_g, "sigmoid"
        else:
            ref, want_kind = g_ + v0 * rt + W, "linear"
        ctx.check(kind == want_kind and equal(got, ref), "C09.R2", f, f.node, f"{g.cfg.name}: {'sigmoid of ' if want_kind == 'sigmoid' else ''}{ref}",
                  f"{g.cfg.name}: the trajectory is {kind} of {sp.simplify(got)}; documented {want_kind} of {ref}", construct=f"def {f.node.name}", instance=g.cfg.name)
        # positivity providers in the graph
        if g.cfg.kind in ("logistic", "joint", "mixture_logistic", "linear"):
            ctx.check(_exp_of(g, "v0") == "log_v0", "C09.R2", (cls[0], cls[1]), None, f"{g.cfg.name}: v0 = exp(log_v0)", f"{g.cfg.name}: v0 is not exp(log_v0)", construct="v0", instance=g.cfg.name)
        if g.cfg.kind in ("logistic", "joint", "mixture_logistic", "shared_speed_logistic"):
            ctx.check(_exp_of(g, "g") == "log_g", "C09.R2", (cls[0], cls[1]), None, f"{g.cfg.name}: g = exp(log_g)", f"{g.cfg.name}: g is not exp(log_g)", construct="g", instance=g.cfg.name)
    # metric
    gpos = sp.Symbol("g", positive=True)
    for mod, cname in (("leaspy.models.logistic", "LogisticModel"), ("leaspy.models.mixture", "LogisticMultivariateMixtureModel")):
        f = ctx.ix.try_func(mod, f"{cname}.metric")
        if f is None:
            continue
        try:
            got = SymEval(ctx.ix, (mod, cname)).call(f, [], {"g": g_})
            ctx.check(equal(got, (g_ + 1) ** 2 / g_), "C09.R2", f, f.node, "metric = (g+1)^2/g", f"metric is {got}; documented (g+1)^2/g")
        except NFUnsupported as e:
            ctx.unknown("C09.R2", f, f.node, str(e))
    f = ctx.ix.func("leaspy.models.linear", "LinearModel.metric", "C09.R2")
    got = SymEval(ctx.ix, f.cls).call(f, [], {"g": g_})
    ctx.check(equal(got, 1), "C09.R2", f, f.node, "linear metric = 1", f"linear metric is {got}")


def r3_range(ctx):
    from ..specgraph import graphs

    ctx.rule("C09.R3", "logistic outputs = weight * sigmoid(.) ; value 1/(1+g) for an unshifted individual at its reference time", 4)
    done = set()
    rt, w, metric, v0, g_, log_g, dp = sp.symbols("rt w metric v0 g log_g deltas_padded", real=True)
    for g in graphs(ctx):
        if g.cfg.kind == "linear":
            continue
        base = _model_fn(ctx, g)
        f = base.func
        if (f.key, g.model.cls) in done:
            continue
        done.add((f.key, g.model.cls))
        kw = {p.arg for p in f.node.args.kwonlyargs}
        env = {k: v for k, v in {"rt": rt, "space_shifts": w, "metric": metric, "v0": v0, "g": g_, "log_g": log_g, "deltas_padded": dp}.items() if k in kw}
        try:
            kind, got = _logit_and_wrapper(ctx, f, g.model.cls, env)
        except NFUnsupported as e:
            ctx.unknown("C09.R3", f, f.node, str(e))
            continue
        ctx.check(kind == "sigmoid", "C09.R3", f, f.node, "output = (0/1 weights) * sigmoid(logit): within [0, 1]", f"the logistic trajectory is returned as {kind}: values can leave [0, 1] / padding is not zeroed",
                  construct=f"range of {f.node.name}")
        if g.cfg.kind in ("logistic", "joint", "mixture_logistic"):
            at0 = got.subs({rt: 0, w: 0})
            ctx.check(equal(at0, -F["log"](g_)), "C09.R3", f, f.node, "logit at the reference time of an unshifted individual = -log g  (value 1/(1+g))",
                      f"logit at rt = 0, w = 0 is {at0}, not -log g: the value at the reference time is not 1/(1+g)", construct=f"reference value of {f.node.name}")


def r4_monotone(ctx):
    from ..specgraph import graphs

    ctx.rule("C09.R4", "non-decreasing in age: positive coefficient of t in the logit", 6)
    done = set()
    for g in graphs(ctx):
        if g.cfg.kind == "linear":
            continue
        base = _model_fn(ctx, g)
        f = base.func
        if (f.key, g.model.cls) in done:
            continue
        done.add((f.key, g.model.cls))
        # symbols with the signs proven from the graph: exponentials are positive
        pos = {}
        for name in ("alpha", "v0", "g"):
            if _exp_of(g, name) is not None:
                pos[name] = sp.Symbol(name, positive=True)
        t, tau, w, log_g, dp = sp.symbols("t tau w log_g deltas_padded", real=True)
        alpha = pos.get("alpha", sp.Symbol("alpha", real=True))
        v0 = pos.get("v0", sp.Symbol("v0", real=True))
        gs = pos.get("g", sp.Symbol("g", real=True))
        # metric from its definition in the graph
        mnode = g.nodes.get("metric")
        from ..specgraph import nif_chain
        mf = nif_chain(g.interp, mnode.var.attrs["f"])[0][0]
        try:
            kwm = {p.arg for p in mf.func.node.args.kwonlyargs}
            margs = {}
            for p in kwm:
                if p == "g":
                    margs[p] = gs
                elif p == "g_deltas_exp":
                    # g * exp(-deltas_padded): positive when g is
                    margs[p] = sp.Symbol("g_deltas_exp", positive=True) if "g" in pos else sp.Symbol("g_deltas_exp", real=True)
                else:
                    margs[p] = sp.Symbol(p, real=True)
            metric = SymEval(ctx.ix, g.model.cls).call(mf.func, [], margs)
            kw = {p.arg for p in f.node.args.kwonlyargs}
            env = {k: v for k, v in {"rt": alpha * (t - tau), "space_shifts": w, "metric": metric, "v0": v0, "g": gs, "log_g": log_g, "deltas_padded": dp}.items() if k in kw}
            kind, logit = _logit_and_wrapper(ctx, f, g.model.cls, env)
        except (NFUnsupported, AttributeError) as e:
            ctx.unknown("C09.R4", f, f.node, f"{g.cfg.name}: {e}")
            continue
        coef = sp.simplify(sp.diff(sp.expand(logit), t))
        positive = coef.is_positive
        ctx.check(bool(positive), "C09.R4", f, f.node, f"d(logit)/dt = {coef} > 0 given exponentials are positive; sigmoid is increasing",
                  f"d(logit)/dt = {coef}: its sign cannot be proven positive from the signs of its factors (positive: {sorted(pos)}): the trajectory may decrease with age",
                  construct=f"monotonicity of {f.node.name}", instance=g.model.cls[1])


def r5_clone(ctx):
    from ._shared import state_writes

    ctx.rule("C09.R5", "trajectories computed on a clone fed with the requested ages and parameters", 2)
    ix = ctx.ix
    sw = state_writes(ctx)
    for mod, qual in (("leaspy.models.mcmc_saem_compatible", "McmcSaemCompatibleModel.compute_individual_trajectory"), ("leaspy.models.joint", "JointModel.compute_individual_trajectory")):
        f = ix.func(mod, qual, "C09.R5")
        prov = sw.provenance(f)
        # the state whose `model` value is returned
        read = [x for x in ast.walk(f.node) if isinstance(x, ast.Subscript) and isinstance(x.slice, ast.Constant) and x.slice.value == "model" and isinstance(x.value, ast.Name)]
        if not read:
            ctx.unknown("C09.R5", f, f.node, "the trajectory is not read as <state>['model']")
            continue
        st = read[0].value.id
        ctx.check(prov.get(st) == "clone", "C09.R5", f, read[0], f"`{st}` is a clone of the model state",
                  f"the trajectory is computed on `{st}` ({prov.get(st, 'not a clone')}): the requested ages and individual parameters are written into the live model state")
        tp = [c for c in ast.walk(f.node) if isinstance(c, ast.Call) and U(c.func) == "self._put_data_timepoints" and c.args and U(c.args[0]) == st]
        a1 = f.node.args.args[1].arg
        ok = bool(tp) and isinstance(tp[0].args[1], ast.Name) and tp[0].args[1].id == a1
        ctx.check(ok, "C09.R5", f, tp[0] if tp else f.node, "the requested ages are the time points of the working state", "the working state is not fed with the requested ages", construct="requested ages")
        loops = [l for l in ast.walk(f.node) if isinstance(l, ast.For) and U(l.iter).endswith(".items()") and f.node.args.args[2].arg in U(l.iter)]
        ok = bool(loops) and any(isinstance(s_, ast.Assign) and isinstance(s_.targets[0], ast.Subscript) and U(s_.targets[0].value) == st for s_ in loops[0].body)
        ctx.check(ok, "C09.R5", f, loops[0] if loops else f.node, "every provided individual parameter is written into the clone", "individual parameters are not all written into the working state", construct="individual parameters written")
        chk = [c for c in ast.walk(f.node) if isinstance(c, ast.Call) and U(c.func) == "self._check_individual_parameters_provided"]
        ctx.check(bool(chk), "C09.R5", f, f.node, "missing / unknown individual parameters refused first", "missing or unknown individual parameters are no longer refused", construct="parameters checked")


def r6_layout(ctx):
    ctx.rule("C09.R6", "estimate: one entry per requested individual, rows in the requested order (also for repeated ages)", 3)
    f = ctx.ix.func("leaspy.models.base", "BaseModel.estimate", "C09.R6")
    cfg = CFG(f.node)
    from ..astq import Canon, unify
    loops = [l for l in ast.walk(f.node) if isinstance(l, ast.For) and U(l.iter) == "timepoints.items()"]
    L = Canon(f.node).lines(True, True)
    b1 = unify(L, ["for ($1.items(), (?id, ?t))", "?est[?id] = ..."])
    ctx.check(b1 is not None, "C09.R6", f, loops[0] if loops else f.node, "one estimation per requested individual, keyed by its identifier", "estimations are not produced per requested individual",
              construct="one estimation per individual")
    # "exactly the requested individuals": the mapping that is iterated is the request itself - the only re-binding of it is the conversion of a
    # MultiIndex request into {ID: ages}; a re-binding that filters entries drops requested individuals
    import re as _re
    L0 = Canon(f.node).lines(False, True)
    for ln in L0:
        if ln.startswith("$1 = "):
            if _re.fullmatch(r"\$1 = \{(%\d+): (%\d+)\.values for \1, \2 in \$1\.to_frame\(\)\['TIME'\]\.groupby\('ID'(, sort=False)?\)\}", ln):
                ctx.ok("C09.R6", f, f.node, "a MultiIndex request is regrouped by individual (every requested ID kept)", construct="request regrouped")
            elif _re.search(r"\bfor\b.*\bif\b", ln) or "filter(" in ln or ".pop(" in ln:
                ctx.violation("C09.R6", f, f.node, f"the request is replaced by `{ln[5:][:90]}`: requested individuals for which the filter fails are missing from the result "
                              "(e.g. an individual requested with no age: an empty array is expected for it)", construct="request filtered")
            elif _re.fullmatch(r"\$1 = \{(%\d+): [^{}]*\b(%\d+)\b[^{}]* for \1, \2 in \$1\.items\(\)\}", ln):
                ctx.ok("C09.R6", f, f.node, "the request is re-mapped entry by entry (every requested ID kept)", construct="request re-mapped")
            elif any(("round(" in l2 or ".round(" in l2) and "$1" in l2 for l2 in L0):
                r_ = next(l2 for l2 in L0 if ("round(" in l2 or ".round(" in l2) and "$1" in l2)
                ctx.violation("C09.R6", f, f.node, f"the requested ages are rounded before the estimate (`{r_[:80]}`): the trajectories are computed and indexed at other ages than the requested "
                              "ones, and a requested (ID, age) row that is no longer found comes back as NaN", construct="requested ages rounded")
            else:
                ctx.unknown("C09.R6", f, f.node, f"the request mapping is re-bound by `{ln[:90]}`", construct="request re-bound")
    b2 = unify(L, ["for ($1.items(), (?id, ?t))", "?est[?id] = $0.compute_individual_trajectory(?t, $2[?id])..."])
    ctx.check(b2 is not None, "C09.R6", f, f.node, "each individual estimated with its own parameters at its own ages", "an individual is estimated with another's parameters / ages", construct="own parameters and ages")
    src = U(f.node)
    joins = [(n, c) for n, st in cfg.stmt.items() if st is not None for c in header_walk(st) if isinstance(c, ast.Call) and isinstance(c.func, ast.Attribute) and c.func.attr == "join" and kwarg(c, "on") is not None]
    if not joins:
        ctx.violation("C09.R6", f, f.node, "the MultiIndex request is no longer joined back onto the requested index", construct="join on the requested index")
        return
    for n, c in joins:
        rhs = U(c.args[0]) if c.args else ""
        dedup = [m for m, st in cfg.stmt.items() if isinstance(st, ast.Assign) and U(st.targets[0]) == rhs and "duplicated()" in U(st.value) and "~" in U(st.value) and cfg.dominates(m, n)]
        reindexed = unify(L, ["?ix = $1", "?empty = pd.DataFrame([], index=?ix, ...)", "... = ?empty[[]].join(...)"]) is not None or unify(L, ["?ix = $1", "... = pd.DataFrame([], index=?ix, ...)[[]].join(...)"]) is not None
        ctx.check(bool(dedup) and reindexed, "C09.R6", f, c, "estimations de-duplicated before being joined onto the requested index (row count = request)",
                  f"`{rhs}` may hold a repeated (ID, TIME) entry when joined onto the requested index: a request with a repeated age returns more rows than requested (4 -> 6)")


def r8_conditioning(ctx, rid="C09.R8", title=None):
    """The closed form is evaluated in single precision.  An algebraically equal re-arrangement that subtracts two quantities tending to
    the same limit (`1 - 1/(1+g)` for small g) loses every significant digit there: the value is no longer the closed form (up to
    rounding) but 0 / inf / NaN.  Decided symbolically for the one-parameter formula functions (`metric(g)`, `metric(g_deltas_exp)`), whose
    parameter ranges over (0, +inf): for every difference `a - b` (resp. `a + b` with opposite signs) in the function, with temporaries
    substituted, lim a/b at 0+ and at +inf must not be 1."""
    ctx.rule(rid, title or "one-parameter formula functions of the trajectory (metric) subtract no two quantities with the same limit on (0, +inf)", 2)
    from ..astq import Inliner
    x = sp.Symbol("x", positive=True)
    n = 0
    for f in ctx.ix.iter_funcs():
        if not f.mod.startswith("leaspy.models") or f.cls is None:
            continue
        kws = [p.arg for p in f.node.args.kwonlyargs + f.node.args.args if p.arg not in ("self", "cls")]
        if len(kws) != 1:
            continue
        # functions of one positive quantity ranging over (0, +inf): `metric(<positions>)`, and anything computed from `g = exp(log_g)` alone
        if f.name != "metric" and kws[0] != "g":
            continue
        n += 1
        inl = Inliner(f.node)
        bad = None
        for sub in ast.walk(f.node):
            if not (isinstance(sub, ast.BinOp) and isinstance(sub.op, ast.Sub)):
                continue
            try:
                a_ = Normalizer({kws[0]: x})(inl.resolve(sub.left))
                b_ = Normalizer({kws[0]: x})(inl.resolve(sub.right))
                if a_ == 0 or b_ == 0:
                    continue
                for pt in (0, sp.oo):
                    la, lb = sp.limit(a_, x, pt, "+" if pt == 0 else "-"), sp.limit(b_, x, pt, "+" if pt == 0 else "-")
                    if la.is_finite and lb.is_finite and la == lb and la != 0:
                        bad = (sub, pt, la)
            except (NFUnsupported, NotImplementedError, ValueError, TypeError, AttributeError):
                continue
        ctx.check(bad is None, rid, f, bad[0] if bad else f.node, f"{f.qual}: no cancelling difference on (0, +inf)",
                  f"`{U(bad[0])[:60] if bad else ''}` subtracts two quantities that both tend to {bad[2] if bad else ''} when {kws[0]} -> {bad[1] if bad else ''}: in single precision the difference "
                  "loses all its digits there (the metric becomes inf, the trajectory NaN / 0 instead of the closed form)")
    if n == 0:
        raise AnalysisError(rid, "anchor vanished: metric(g) functions of the models")


def r7_requested_ages(ctx):
    """The closed forms of R2 are functions of the time variable `t`: the estimate is the closed form *at the requested age* only if
    the requested ages reach `t` unchanged and unmasked (a masked age is computed as if the individual had no visit: value 0)."""
    from ..astq import Canon, unify
    ctx.rule("C09.R7", "requested ages reach the time variable `t` unchanged and unmasked (closed set of writers of `t`)", 6)
    ix = ctx.ix
    M = "leaspy.models.mcmc_saem_compatible"
    # (a) closed set of writers of state['t']
    writers = []
    for f in ix.iter_funcs():
        for st in statements(f.node):
            if isinstance(st, (ast.Assign, ast.AugAssign)):
                for t in (st.targets if isinstance(st, ast.Assign) else [st.target]):
                    if isinstance(t, ast.Subscript) and isinstance(t.slice, ast.Constant) and t.slice.value == "t":
                        writers.append((f, st))
        for c in ast.walk(f.node):
            if isinstance(c, ast.Call) and isinstance(c.func, ast.Attribute) and c.func.attr == "put" and c.args and isinstance(c.args[0], ast.Constant) and c.args[0].value == "t":
                writers.append((f, c))
    pt = ix.func(M, "McmcSaemCompatibleModel._put_data_timepoints", "C09.R7")
    cn = Canon(pt.node)
    cfg = CFG(pt.node)
    for f, st in writers:
        if f.key == pt.key and isinstance(st, ast.Assign):
            rhs = cn.text(st.value)
            n = cfg.node_containing(st)
            guards = [(cn.text(cfg.stmt[h].test), lab) for h, lab in cfg.if_guards(n)] if n is not None else []
            is_wt = ("isinstance($2, WeightedTensor)", True) in guards
            if rhs == "$2" and is_wt:
                ctx.ok("C09.R7", f, st, "a WeightedTensor of ages is stored as given (its weights are the caller's: C06.R2)")
            elif rhs in ("WeightedTensor($2)", "WeightedTensor($2, None)", "WeightedTensor($2, weight=None)") or (rhs == "$2" and not is_wt):
                ctx.ok("C09.R7", f, st, "plain ages are stored unchanged, without any mask")
            elif rhs.startswith("WeightedTensor($2, "):
                ctx.violation("C09.R7", f, st, f"plain requested ages are stored with the mask `{rhs[len('WeightedTensor($2, '):-1]}`: a requested age for which it is false is treated as "
                              "'no visit' and its estimate is 0 instead of the closed form")
            else:
                ctx.violation("C09.R7", f, st, f"the time variable is set to `{rhs}`, not to the requested ages")
        elif isinstance(st, ast.Assign) and U(st.value) == "None":
            ctx.ok("C09.R7", f, st, "reset of the data variables")
        else:
            ctx.violation("C09.R7", f, st, f"`{U(st)[:70]}`: the time variable is written outside _put_data_timepoints (the estimate no longer sees the requested ages)")
    # (b) callers hand the requested ages over unchanged
    for mod, qual in ((M, "McmcSaemCompatibleModel.compute_individual_trajectory"), ("leaspy.models.joint", "JointModel.compute_individual_trajectory")):
        f = ix.func(mod, qual, "C09.R7")
        L = Canon(f.node).lines(True, True)
        ok = unify(L, ["$1, $2 = $0._get_tensorized_inputs($1, $2, skip_ips_checks=$k0)", "?st = $0.state.clone(disable_auto_fork=True)", "$0._put_data_timepoints(?st, $1)"])
        ctx.check(ok is not None and ok["#0"] < ok["#2"], "C09.R7", f, f.node, "requested ages -> _get_tensorized_inputs -> _put_data_timepoints of the working state",
                  "the requested ages are not handed (tensorised, unchanged) to _put_data_timepoints of the working state", construct="ages handed over")
    g = ix.func(M, "McmcSaemCompatibleModel._get_tensorized_inputs", "C09.R7")
    gl = Canon(g.node).lines(True, True)
    ok = "$1 = tensorize_2D($1, unsqueeze_dim=0)" in gl and "return ($1, $2)" in gl and sum(1 for ln in gl if ln.startswith("$1 = ") or ln.startswith("$1, ")) == 1
    ctx.check(ok, "C09.R7", g, g.node, "ages only tensorised (1 individual x n ages)", "_get_tensorized_inputs changes the requested ages otherwise than by tensorising them", construct="ages tensorised")
    tz = ix.func("leaspy.models.utilities", "tensorize_2D", "C09.R7")
    allowed = {"torch.tensor($0, dtype=$2)", "$0.to($2)", "$0.unsqueeze(dim=$1)", "torch.tensor($0, dtype=$k0)", "$0.to($k0)", "$0.unsqueeze(dim=$k0)"}
    ctz = Canon(tz.node)
    pm = ctz.pmap
    px = pm.get("x")
    bad = []
    for st in statements(tz.node):
        if isinstance(st, (ast.Assign, ast.AugAssign)):
            for t in (st.targets if isinstance(st, ast.Assign) else [st.target]):
                if isinstance(t, ast.Name) and t.id == "x" or (isinstance(t, ast.Subscript)):
                    txt = ctz.text(st.value, inline=False)
                    shape_only = txt in {f"torch.tensor({px}, dtype={pm.get('dtype')})", f"{px}.to({pm.get('dtype')})", f"{px}.unsqueeze(dim={pm.get('unsqueeze_dim')})"}
                    if isinstance(st, ast.AugAssign) or not shape_only:
                        bad.append(st)
    rets = [ctz.text(r.value, inline=False) for r in statements(tz.node) if isinstance(r, ast.Return) and r.value is not None]
    ctx.check(not bad and rets == [px], "C09.R7", tz, bad[0] if bad else tz.node, "tensorize_2D only converts type / dtype / rank", "tensorize_2D changes the values it tensorises", construct="tensorize_2D value-preserving")


def r9_reference_feature(ctx):
    """Shared-speed model: one delta per feature but the first, whose delay is 0 by convention - the padded vector has one entry per feature
    in every dimension, also with no delta at all (a one-feature model)."""
    from ..astq import canon_lines
    ctx.rule("C09.R9", "shared-speed model: exactly one zero is prepended to the deltas, whatever their number (dimension 1 included)", 1)
    f = ctx.ix.func("leaspy.models.shared_speed_logistic", "SharedSpeedLogisticModel.pad_deltas", "C09.R9")
    text = "; ".join(canon_lines(f.node, True, True))
    Z = ["torch.tensor([0.0])", "torch.tensor([0])", "torch.zeros(1)", "torch.zeros((1,))", "$k0.new_zeros(1)", "$k0.new_zeros((1,))", "torch.zeros(1, dtype=$k0.dtype, device=$k0.device)",
         "torch.zeros((1,), dtype=$k0.dtype, device=$k0.device)", "torch.tensor([0.0], dtype=$k0.dtype, device=$k0.device)"]
    confirmed = {f"return torch.cat(({z}, $k0))" for z in Z} | {f"return torch.cat([{z}, $k0])" for z in Z}
    ctx.form("C09.R9", f, f.node, text, confirmed, ["torch.cat(", "$k0"], "one zero (of length 1, independent of the deltas) in front of the deltas",
             "the padded deltas no longer have one entry per feature: for a one-feature model (no delta) nothing is prepended, the trajectory broadcasts to zero features",
             forbidden=[r"zeros_like\(\$k0\[", r"\$k0\[:\s*1\]", r"\$k0\[0:\s*1\]", r"\$k0\[:0\]"], construct="padded deltas")


def r10_read_api_stores_nothing(ctx):
    from ._shared import model_stores_in_read_api
    ctx.rule("C09.R10", "estimate / compute_*_trajectory (and the model methods they reach) store nothing on the model object", 1)
    sites, n_region = model_stores_in_read_api(ctx)
    for f, st, attr in sites:
        ctx.violation("C09.R10", f, st, f"`{U(st)[:70]}` stores `self.{attr}` from a method reached by estimate / compute_individual_trajectory: the trajectory is then computed from what an earlier call left there (its parameters, its ages, a state from before the last fit), not from this call's inputs and the current model")
    ctx.ok("C09.R10", ("leaspy.models", "<package>"), None, f"{n_region} functions reachable from the read-only API: no attribute of the model is written", construct="read-only API")


def r12_space_shift_enters_the_trajectory(ctx):
    """'the documented closed form at the supplied parameters': in every configuration that has sources (1 .. dimension - 1 of them), the
    individual's sources reach the trajectory - `sources` is an ancestor of `model` in the variable graph.  A selection of the trajectory
    function that drops the space shift for some number of sources gives every individual the unshifted curve, without an error."""
    from ..specgraph import graphs
    ctx.rule("C09.R12", "with sources, the trajectory depends on them (`sources` is an ancestor of `model` in every shipped configuration that has sources)", 3)
    for g in graphs(ctx):
        if "sources" not in g.nodes or "model" not in g.nodes:
            continue
        where = (g.model.cls[0], g.model.cls[1] + ".get_variables_specs")
        ok = "sources" in g.ancestors("model")
        ctx.check(ok, "C09.R12", where, None, f"{g.cfg.name}: `model` depends on `sources` (through {sorted(g.ancestors('model') & g.descendants('sources'))[:3]})",
                  f"{g.cfg.name}: the trajectory `model` (parents {g.nodes['model'].parents}) does not depend on the individual's `sources`: with {g.cfg.source_dimension} source(s) for "
                  f"{g.cfg.dimension} feature(s) every individual gets the unshifted trajectory instead of the documented one", construct="sources reach the trajectory", instance=g.cfg.name)


def r13_metric_of_the_feature_positions(ctx):
    """The space shift of feature k is scaled by the metric at *that feature's* position: in the shared-speed model the positions are
    g * exp(-delta_k), so its metric depends on the deltas (`deltas` is an ancestor of `metric`); a metric computed from the shared scalar `g`
    alone gives every feature the same scaling and the trajectories of shifted individuals are not the documented ones."""
    from ..specgraph import graphs
    ctx.rule("C09.R13", "the metric is computed from the per-feature positions (in the shared-speed model it depends on the deltas)", 1)
    n = 0
    for g in graphs(ctx):
        if "metric" not in g.nodes or "deltas" not in g.nodes:
            continue
        n += 1
        where = (g.model.cls[0], g.model.cls[1] + ".get_variables_specs")
        anc = g.ancestors("metric")
        ctx.check("deltas" in anc, "C09.R13", where, None, f"{g.cfg.name}: `metric` depends on the deltas (parents {g.nodes['metric'].parents})",
                  f"{g.cfg.name}: `metric` is computed from {g.nodes['metric'].parents} and does not depend on `deltas`: every feature's space shift is scaled by the metric at the shared position g "
                  "instead of the feature's own position g * exp(-delta_k)", construct="metric depends on the deltas", instance=g.cfg.name)
    if not n:
        ctx.unknown("C09.R13", ("leaspy.models.shared_speed_logistic", "SharedSpeedLogisticModel.get_variables_specs"), None, "no configuration with `deltas` and `metric` found", construct="metric depends on the deltas")


def r15_components_in_the_order_of_the_table(ctx):
    """The closed form at the *supplied* parameters: the components of a vector-valued parameter (`sources_0 .. sources_k`) are stored in the
    order of their integer suffix - `from_dataframe` never sorts the component columns by name (lexicographic order puts `sources_10` before
    `sources_2`)."""
    ctx.rule("C09.R15", "from_dataframe does not re-order the component columns of a vector-valued parameter by name", 1)
    f = ctx.ix.func("leaspy.io.outputs.individual_parameters", "IndividualParameters.from_dataframe", "C09.R15")
    ctx.analysed(f)
    bad = [c for c in ast.walk(f.node) if isinstance(c, ast.Call) and ((isinstance(c.func, ast.Attribute) and c.func.attr in ("sort", "sort_index", "sort_values", "reindex", "reverse"))
                                                                        or U(c.func) in ("sorted", "reversed")) and not any(k.arg == "key" and "int(" in U(k.value) for k in c.keywords)]
    ctx.check(not bad, "C09.R15", f, bad[0] if bad else f.node, "component columns kept in the order of the table (or sorted by their integer suffix)",
              f"`{U(bad[0])[:60] if bad else ''}` re-orders columns by name: with more than ten components `sources_10` comes before `sources_2`, the stored vector is a permutation of the supplied one "
              "and the trajectory is computed from the wrong sources", construct="component order")


def rules(ctx):
    # the trajectory is the closed form at the parameters the caller supplied: the container they are put into keeps them unchanged (same rule as C16.R2b)
    from .c16 import r2b_values_stored_as_given
    r2b_values_stored_as_given(ctx, rid="C09.R11")
    r10_read_api_stores_nothing(ctx)
    r9_reference_feature(ctx)
    r1_rt(ctx)
    r2_forms(ctx)
    r3_range(ctx)
    r4_monotone(ctx)
    r5_clone(ctx)
    r6_layout(ctx)
    r7_requested_ages(ctx)
    r8_conditioning(ctx)
    r12_space_shift_enters_the_trajectory(ctx)
    r13_metric_of_the_feature_positions(ctx)
    r15_components_in_the_order_of_the_table(ctx)
    # the closed form at the *loaded* parameters: loading re-shapes a value, it never re-arranges its entries (same rule as C12.R4b)
    from .c12 import r4b_val_to_tensor
    r4b_val_to_tensor(ctx, rid="C09.R14")
    ctx.trust("sigmoid is increasing with range (0,1) and sigmoid(-log g) = 1/(1+g); sympy sign assumptions; pandas join keeps the left index order")
    ctx.assume("weights of data variables are 0/1 masks")


L = "src/leaspy/models/logistic.py"
VARIANTS = [
    V("rt-no-tau", "src/leaspy/models/time_reparametrized.py", "        return alpha * (t - tau)\n", "        return alpha * t - tau\n", "C09.R1"),
    V("alpha-not-exp", "src/leaspy/models/time_reparametrized.py", "            alpha=LinkedVariable(Exp(\"xi\")),", "            alpha=LinkedVariable(Sqr(\"xi\")),", "ANALYSIS-ERROR"),
    V("logit-no-log-g", L, "        ) - torch.log(g[pop_s])\n", "        )\n", "C09.R2"),
    V("metric-wrong", L, "        return (g + 1) ** 2 / g\n", "        return (g + 1) / g\n", "C09.R2"),
    V("linear-minus-shift", "src/leaspy/models/linear.py", "(g[pop_s] + v0[pop_s] * rt + space_shifts[:, None, ...]).weighted_value", "(g[pop_s] + v0[pop_s] * rt - space_shifts[:, None, ...]).weighted_value", "C09.R2"),
    V("no-sigmoid", L, "        return WeightedTensor(torch.sigmoid(model_logit), weights).weighted_value", "        return WeightedTensor(model_logit, weights).weighted_value", "ANALYSIS-ERROR"),
    V("decreasing-in-age", L, "            v0[pop_s] * rt + space_shifts[:, None, ...]\n", "            space_shifts[:, None, ...] - v0[pop_s] * rt\n", "C09.R2"),
    V("v0-not-positive", "src/leaspy/models/riemanian_manifold.py", "            v0=LinkedVariable(\n                Exp(\"log_v0\"),", "            v0=LinkedVariable(\n                Sqr(\"log_v0\"),", "C09.R2"),
    V("join-duplicates", "src/leaspy/models/base.py", "                estimations = estimations[~estimations.index.duplicated()]\n", "", "C09.R6"),
    V("trajectory-not-cloned", "src/leaspy/models/mcmc_saem_compatible.py", "        local_state = self.state.clone(disable_auto_fork=True)\n        self._put_data_timepoints(local_state, timepoints)\n        for (",
      "        local_state = self.state\n        self._put_data_timepoints(local_state, timepoints)\n        for (", "C09.R5"),
    V("silent-rename-local-state", "src/leaspy/models/mcmc_saem_compatible.py", "        local_state = self.state.clone(disable_auto_fork=True)\n        self._put_data_timepoints(local_state, timepoints)\n        for (\n            individual_parameter_name,\n            individual_parameter_value,\n        ) in individual_parameters.items():\n            local_state[individual_parameter_name] = individual_parameter_value\n\n        return local_state[\"model\"]",
      "        work = self.state.clone(disable_auto_fork=True)\n        self._put_data_timepoints(work, timepoints)\n        for (\n            individual_parameter_name,\n            individual_parameter_value,\n        ) in individual_parameters.items():\n            work[individual_parameter_name] = individual_parameter_value\n\n        return work[\"model\"]", None),
    V("silent-logit-rewritten", L, "        w_model_logit = metric[pop_s] * (\n            v0[pop_s] * rt + space_shifts[:, None, ...]\n        ) - torch.log(g[pop_s])", "        w_model_logit = metric[pop_s] * v0[pop_s] * rt + metric[pop_s] * space_shifts[:, None, ...] - torch.log(g[pop_s])", None),
]
